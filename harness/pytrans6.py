#!/venv/bin/python
"""pytrans6.py — fail-closed translator of the application-facing, synchronous methods of hpfeeds/asyncio/client.py
(ClientSession.subscribe / unsubscribe / publish, _Protocol.on_publish) to Gallina (coq/AioGen.v), as state transformers over
the model state of coq/AioSession.v.  coq/AioGenEq.v proves them equal to do_sub / do_unsub / do_pub and to the OP_PUBLISH
branch of on_frame.  _Protocol.connection_ready / connection_lost are translated too (result: state and whether an exception escaped).
The coroutines (reconnect, _tryconnect, close, read) stay hand-written.

Reading (the model's, see AioSession.v): self.subscriptions = wanted (a list without duplicates); self.protocol = cur (the
index of the connection whose handshake completed, None otherwise); self.protocol.subscribe / unsubscribe / publish(self.ident,
..) = transport.write(msgX(ident, ..)) on that connection = wrk k (FSub / FUnsub / FPubl ..) (checked: ClientProtocol /
BaseProtocol define them so); self.client.read_queue.put_nowait((ident, chan, data)) = append to queue (and to the ghost recvd).
Fragment: `if x in / not in self.subscriptions:`, `self.subscriptions.add / discard(x)`, `if self.protocol:`,
`self.protocol.<m>(self.ident, ..)`, `self.client.read_queue.put_nowait((a, b, c))`.  Anything else aborts (exit 2).
"""
import ast
import os
import sys

REPO = os.environ.get('VERIF_REPO', '/repo')
HERE = os.path.dirname(os.path.abspath(__file__))
OUT = os.environ.get('PYTRANS6_OUT', os.path.join(HERE, '..', 'coq', 'AioGen.v'))
SRC = 'hpfeeds/asyncio/client.py'
PROTO = 'hpfeeds/asyncio/protocol.py'
FLAVOURS = {
    'aio': dict(src='hpfeeds/asyncio/client.py', proto='hpfeeds/asyncio/protocol.py', session='ClientSession', prefix='',
                owner=('client',), ready='connection_ready', lost='connection_lost', on_publish='on_publish',
                fire=('when_connected', 'set_result'), put='put_nowait'),
    'tw': dict(src='hpfeeds/twisted/service.py', proto='hpfeeds/twisted/protocol.py', session='ClientSessionService', prefix='Tw',
               owner=('factory', 'service'), ready='connectionReady', lost='connectionLost', on_publish='onPublish',
               fire=('whenConnected', 'callback'), put='put'),
}
FL = FLAVOURS['aio']


def is_owner(e):
    """self.client (asyncio) / self.factory.service (Twisted): the session object, seen from its protocol"""
    for a in reversed(FL['owner']):
        if not is_attr(e, a):
            return False
        e = e.value
    return is_name(e, 'self')


FRAMES = {'subscribe': ('FSub', 1, 'msgsubscribe'), 'unsubscribe': ('FUnsub', 1, 'msgunsubscribe'), 'publish': ('FPubl', 2, 'msgpublish')}


AIO_PRIMS = '''(* session.protocol = p / session.transport = None *)
Definition set_cur (c : option nat) (s : asess) : asess :=
  mkas (wanted s) (pc s) c (tr s) (conns s) (closing s) (wc_done s) (wcl_done s) (queue s) (delivered s) (waiting s)
       (recvd s) (attempts s) (pend s) (outcome s) (cancel_req s) (cst s) (ready s) (raised s).
Definition set_wc_done (b : bool) (s : asess) : asess :=
  mkas (wanted s) (pc s) (cur s) (tr s) (conns s) (closing s) b (wcl_done s) (queue s) (delivered s) (waiting s)
       (recvd s) (attempts s) (pend s) (outcome s) (cancel_req s) (cst s) (ready s) (raised s).
Definition set_closing (b : bool) (s : asess) : asess :=
  mkas (wanted s) (pc s) (cur s) (tr s) (conns s) b (wc_done s) (wcl_done s) (queue s) (delivered s) (waiting s)
       (recvd s) (attempts s) (pend s) (outcome s) (cancel_req s) (cst s) (ready s) (raised s).
Definition set_cst (c : cstate) (s : asess) : asess :=
  mkas (wanted s) (pc s) (cur s) (tr s) (conns s) (closing s) (wc_done s) (wcl_done s) (queue s) (delivered s) (waiting s)
       (recvd s) (attempts s) (pend s) (outcome s) (cancel_req s) c (ready s) (raised s).
(* Task.cancel() on the reconnect task: a task that has not finished is marked and scheduled to receive CancelledError *)
Definition task_cancel_reconnect (s : asess) : asess :=
  let live := match pc s with PDone => false | _ => true end in
  mkas (wanted s) (pc s) (cur s) (tr s) (conns s) (closing s) (wc_done s) (wcl_done s) (queue s) (delivered s) (waiting s)
       (recvd s) (attempts s) (pend s) (outcome s) live (cst s) (if live then enq TR (ready s) else ready s) (raised s).
Definition set_tr (c : option nat) (s : asess) : asess :=
  mkas (wanted s) (pc s) (cur s) c (conns s) (closing s) (wc_done s) (wcl_done s) (queue s) (delivered s) (waiting s)
       (recvd s) (attempts s) (pend s) (outcome s) (cancel_req s) (cst s) (ready s) (raised s).
(* Future.set_result on a future that is already done raises InvalidStateError; Deferred.callback on a fired one AlreadyCalledError *)
Definition set_result_connected (s : asess) : asess * bool :=
  if wc_done s then (s, true)
  else (mkas (wanted s) (pc s) (cur s) (tr s) (conns s) (closing s) true (wcl_done s) (queue s) (delivered s) (waiting s)
             (recvd s) (attempts s) (pend s) (outcome s) (cancel_req s) (cst s) (ready s) (raised s), false).
(* when_closed.set_result: the tasks awaiting it (the reconnect task parked at `await self.when_closed`, close()) become ready *)
Definition set_result_closed (s : asess) : asess * bool :=
  if wcl_done s then (s, true)
  else let r1 := match pc s with PWaitClosed => enq TR (ready s) | _ => ready s end in
       let r2 := match cst s with CWaiting => enq TC r1 | _ => r1 end in
       (mkas (wanted s) (pc s) (cur s) (tr s) (conns s) (closing s) (wc_done s) true (queue s) (delivered s) (waiting s)
             (recvd s) (attempts s) (pend s) (outcome s) (cancel_req s) (cst s) r2 (raised s), false).

'''


class Unsupported(Exception):
    def __init__(self, node, why):
        super().__init__('%s:%s: %s: %s' % (SRC, getattr(node, 'lineno', '?'), why,
                                            ast.dump(node)[:200] if isinstance(node, ast.AST) else node))


def is_name(e, n=None):
    return isinstance(e, ast.Name) and (n is None or e.id == n)


def is_attr(e, a=None):
    return isinstance(e, ast.Attribute) and (a is None or e.attr == a)


def self_attr(e, a):
    return is_attr(e, a) and is_name(e.value, 'self')


def check_protocol_writers():
    """BaseProtocol.subscribe / unsubscribe / publish must be self.transport.write(msgX(<the parameters>)), not overridden by
    ClientProtocol or _Protocol"""
    t = ast.parse(open(os.path.join(REPO, FL['proto'])).read())
    ok = set()
    for s in t.body:
        if isinstance(s, ast.ClassDef) and s.name in ('BaseProtocol', 'ClientProtocol'):
            for m in s.body:
                if isinstance(m, ast.FunctionDef) and m.name in FRAMES:
                    if s.name == 'ClientProtocol':
                        raise Unsupported(m, 'ClientProtocol overrides %s' % m.name)
                    body = [x for x in m.body if not (isinstance(x, ast.Expr) and isinstance(x.value, ast.Constant))]
                    params = [a.arg for a in m.args.args[1:]]
                    c = body[0].value if len(body) == 1 and isinstance(body[0], ast.Expr) else None
                    if (isinstance(c, ast.Call) and is_attr(c.func, 'write') and self_attr(c.func.value, 'transport') and len(c.args) == 1
                            and isinstance(c.args[0], ast.Call) and is_name(c.args[0].func, FRAMES[m.name][2])
                            and [a.id for a in c.args[0].args if is_name(a)] == params and not m.decorator_list):
                        ok.add(m.name)
    if ok != set(FRAMES):
        raise Unsupported(FL['proto'], 'BaseProtocol writers are not transport.write(msgX(..)): %s' % sorted(set(FRAMES) - ok))


class Fn:
    def __init__(self, params):
        self.params = set(params)

    def stmts(self, body, k):
        """k = name of the connection index when inside `if self.protocol:`"""
        out = 's'
        body = [x for x in body if not (isinstance(x, ast.Expr) and isinstance(x.value, ast.Constant))]
        if not body:
            return 's'
        s, rest = body[0], body[1:]
        r = self.stmts(rest, k) if rest else 's'

        def then(term):
            return '(let s := %s in %s)' % (term, r)
        if isinstance(s, ast.If) and not s.orelse:
            t = s.test
            if isinstance(t, ast.Compare) and len(t.ops) == 1 and isinstance(t.ops[0], (ast.In, ast.NotIn)) \
                    and is_name(t.left) and t.left.id in self.params and self_attr(t.comparators[0], 'subscriptions'):
                c = '(memb %s (wanted s))' % t.left.id
                if isinstance(t.ops[0], ast.NotIn):
                    c = '(negb %s)' % c
                return then('(if %s then %s else s)' % (c, self.stmts(s.body, k)))
            if self_attr(t, 'protocol') and k is None:
                return then('(match cur s with Some t_k => %s | None => s end)' % self.stmts(s.body, 't_k'))
            raise Unsupported(s, 'if')
        if isinstance(s, ast.Expr) and isinstance(s.value, ast.Call) and not s.value.keywords:
            c = s.value
            f = c.func
            if is_attr(f) and f.attr in ('add', 'discard') and self_attr(f.value, 'subscriptions') and len(c.args) == 1 \
                    and is_name(c.args[0]) and c.args[0].id in self.params:
                x = c.args[0].id
                new = '(%s :: wanted s)' % x if f.attr == 'add' else '(rmb %s (wanted s))' % x
                return then('(setwanted %s s)' % new)
            if is_attr(f) and f.attr in FRAMES and self_attr(f.value, 'protocol') and k is not None:
                con, n, _ = FRAMES[f.attr]
                if len(c.args) != n + 1 or not self_attr(c.args[0], 'ident') \
                        or not all(is_name(a) and a.id in self.params for a in c.args[1:]):
                    raise Unsupported(s, 'arguments of protocol.%s' % f.attr)
                return then('(wrk ident secret %s (%s %s) s)' % (k, con, ' '.join(a.id for a in c.args[1:])))
            # self.client.read_queue.put_nowait((ident, chan, data))
            if (is_attr(f, FL['put']) and is_attr(f.value, 'read_queue') and is_owner(f.value.value)
                    and len(c.args) == 1 and isinstance(c.args[0], ast.Tuple)
                    and len(c.args[0].elts) == 3 and all(is_name(a) and a.id in self.params for a in c.args[0].elts)):
                a, b, d = [x.id for x in c.args[0].elts]
                return then('(enqueue_msg (%s, %s, %s) s)' % (a, b, d))
        raise Unsupported(s, 'statement')


class ProtoFn:
    """_Protocol callbacks: self = the protocol object of connection t_k; the result is (state, an exception escaped)"""

    def __init__(self, params):
        self.params = set(params)

    def stmts(self, body):
        body = [x for x in body if not (isinstance(x, ast.Expr) and isinstance(x.value, ast.Constant))]
        if not body:
            return '(s, false)'
        s, rest = body[0], body[1:]
        r = self.stmts(rest)

        def then(term):                  # a statement that cannot raise
            return '(let s := %s in %s)' % (term, r)

        def thenx(term):                 # a statement that may raise: (state, raised?)
            return "(let '(s, t_exn) := %s in if t_exn then (s, true) else %s)" % (term, r)
        # self.client.protocol = self / self.client.transport = None
        if isinstance(s, ast.Assign) and len(s.targets) == 1 and is_attr(s.targets[0]) and is_owner(s.targets[0].value):
            a = s.targets[0].attr
            if a == 'protocol' and is_name(s.value, 'self'):
                return then('(set_cur (Some t_k) s)')
            if a == 'protocol' and isinstance(s.value, ast.Constant) and s.value.value is None and FL['prefix'] == 'Tw':
                return then('(set_cur None s)')
            if a == 'transport' and isinstance(s.value, ast.Constant) and s.value.value is None and FL['prefix'] == '':
                return then('(set_tr None s)')
            # Twisted: service.whenConnected = defer.Deferred()   (a fresh, unfired Deferred)
            if (a == 'whenConnected' and FL['prefix'] == 'Tw' and isinstance(s.value, ast.Call) and is_attr(s.value.func, 'Deferred')
                    and is_name(s.value.func.value, 'defer') and not s.value.args and not s.value.keywords):
                return then('(set_wc_done false s)')
            raise Unsupported(s, 'assignment to the session attribute %s' % a)
        # Twisted: self.factory = None (the protocol forgets its factory; not modelled: nothing reads it afterwards)
        if (FL['prefix'] == 'Tw' and isinstance(s, ast.Assign) and len(s.targets) == 1 and self_attr(s.targets[0], 'factory')
                and isinstance(s.value, ast.Constant) and s.value.value is None and not rest):
            return r
        # for topic in self.client.subscriptions: self.subscribe(self.ident, topic)
        if (isinstance(s, ast.For) and not s.orelse and is_name(s.target) and is_attr(s.iter, 'subscriptions') and is_owner(s.iter.value)
                and len(s.body) == 1 and isinstance(s.body[0], ast.Expr)
                and isinstance(s.body[0].value, ast.Call)):
            c = s.body[0].value
            if (self_attr(c.func, 'subscribe') and len(c.args) == 2 and is_name(c.args[1], s.target.id)
                    and (self_attr(c.args[0], 'ident') or (is_attr(c.args[0], 'ident') and is_owner(c.args[0].value)))
                    and not c.keywords):
                return then('(fold_left (fun t_s %s => wrk ident secret t_k (FSub %s) t_s) (wanted s) s)' % (s.target.id, s.target.id))
            raise Unsupported(s, 'loop body')
        # self.client.when_connected.set_result(None) / self.client.when_closed.set_result(None)
        if isinstance(s, ast.Expr) and isinstance(s.value, ast.Call) and is_attr(s.value.func, FL['fire'][1]) and not s.value.keywords:
            f = s.value.func.value
            if (is_attr(f) and f.attr in (FL['fire'][0], 'when_closed') and is_owner(f.value)
                    and len(s.value.args) == 1 and isinstance(s.value.args[0], ast.Constant) and s.value.args[0].value is None):
                if f.attr == 'when_closed' and FL['prefix'] == 'Tw':
                    raise Unsupported(s, 'when_closed in the Twisted service')
                return thenx('(%s s)' % ('set_result_connected' if f.attr == FL['fire'][0] else 'set_result_closed'))
        raise Unsupported(s, 'statement in a _Protocol callback')


def method(tree, cls, name, nparams):
    cl = [s for s in tree.body if isinstance(s, ast.ClassDef) and s.name == cls]
    if len(cl) != 1:
        raise Unsupported(tree, 'class %s' % cls)
    fds = [m for m in cl[0].body if isinstance(m, ast.FunctionDef) and m.name == name]
    if len(fds) != 1 or fds[0].decorator_list or fds[0].args.defaults or fds[0].args.vararg or fds[0].args.kwarg:
        raise Unsupported(cl[0], '%s.%s' % (cls, name))
    params = [a.arg for a in fds[0].args.args][1:]
    if len(params) != nparams:
        raise Unsupported(fds[0], 'parameters')
    return params, fds[0].body


def close_coroutine(tree):
    """asyncio ClientSession.close(): the coroutine from its start to where it parks (`await self.when_closed`) or ends.
    self.transport = tr (the index of the connection whose transport the session holds); Task.cancel() on the reconnect task is
    the hand-written task_cancel_reconnect; parking at the await = cst CWaiting, the end of the coroutine = cst CDone"""
    cl = [s for s in tree.body if isinstance(s, ast.ClassDef) and s.name == 'ClientSession']
    fds = [m for m in cl[0].body if isinstance(m, ast.AsyncFunctionDef) and m.name == 'close'] if cl else []
    if len(fds) != 1 or fds[0].decorator_list or len(fds[0].args.args) != 1:
        raise Unsupported(tree, 'async def close')
    body = [x for x in fds[0].body if not (isinstance(x, ast.Expr) and isinstance(x.value, ast.Constant))]
    if len(body) != 2:
        raise Unsupported(fds[0], 'close() has %d statements' % len(body))
    a, b = body
    if not (isinstance(a, ast.Assign) and len(a.targets) == 1 and self_attr(a.targets[0], 'closing') and isinstance(a.value, ast.Constant)
            and a.value.value is True):
        raise Unsupported(a, 'self.closing = True')
    if not (isinstance(b, ast.If) and self_attr(b.test, 'transport') and len(b.body) == 2 and len(b.orelse) == 1):
        raise Unsupported(b, 'if self.transport')
    c1, c2 = b.body
    ok1 = (isinstance(c1, ast.Expr) and isinstance(c1.value, ast.Call) and is_attr(c1.value.func, 'close') and self_attr(c1.value.func.value, 'transport')
           and not c1.value.args)
    ok2 = isinstance(c2, ast.Expr) and isinstance(c2.value, ast.Await) and self_attr(c2.value.value, 'when_closed')
    e = b.orelse[0]
    ok3 = (isinstance(e, ast.Expr) and isinstance(e.value, ast.Call) and is_attr(e.value.func, 'cancel') and self_attr(e.value.func.value, '_ensure_connected')
           and not e.value.args)
    if not (ok1 and ok2 and ok3):
        raise Unsupported(b, 'branches of close()')
    return ('(* %s: ClientSession.close (a coroutine): from its start to where it parks or ends *)\n'
            'Definition ClientSession_close_start (s : asess) : asess :=\n'
            '  (let s := (set_closing true s) in\n'
            '   match tr s with\n'
            '   | Some t_k => (let s := (closek t_k s) in (let s := (set_cst CWaiting s) in s))\n'
            '   | None => (let s := (task_cancel_reconnect s) in (let s := (set_cst CDone s) in s))\n'
            '   end).' % FL['src'])


def translate_flavour(name):
    global FL
    FL = FLAVOURS[name]
    check_protocol_writers()
    tree = ast.parse(open(os.path.join(REPO, FL['src'])).read())
    for s in tree.body:
        if isinstance(s, ast.ClassDef) and s.name == '_Protocol':
            if [b.id for b in s.bases if is_name(b)] != ['ClientProtocol']:
                raise Unsupported(s, '_Protocol bases')
            for m in s.body:
                if isinstance(m, ast.FunctionDef) and m.name in FRAMES:
                    raise Unsupported(m, '_Protocol overrides %s' % m.name)
    defs = []
    px = FL['prefix']
    for cls, name2, n in ((FL['session'], 'subscribe', 1), (FL['session'], 'unsubscribe', 1), (FL['session'], 'publish', 2),
                          ('_Protocol', FL['on_publish'], 3)):
        params, body = method(tree, cls, name2, n)
        term = Fn(params).stmts(body, None)
        cname = ('ClientSession' if cls != '_Protocol' else 'Protocol') + '_' + {'onPublish': 'on_publish'}.get(name2, name2)
        defs.append('(* %s: %s.%s *)\nDefinition %s%s %s(s : asess) : asess :=\n  %s.'
                    % (FL['src'], cls, name2, px, cname, ''.join('(%s : bytes) ' % p for p in params), term))
    for name2, n, cn in ((FL['ready'], 0, 'connection_ready'), (FL['lost'], 1, 'connection_lost')):
        params, body = method(tree, '_Protocol', name2, n)
        term = ProtoFn(params).stmts(body)
        defs.append('(* %s: _Protocol.%s (self = the protocol object of connection t_k; the bool: an exception escaped) *)\n'
                    'Definition %sProtocol_%s (t_k : nat) (s : asess) : asess * bool :=\n  %s.' % (FL['src'], name2, px, cn, term))
    if name == 'aio':
        defs.append(close_coroutine(tree))
    return defs


def main():
    try:
        defs = translate_flavour('aio') + translate_flavour('tw')
        txt = ('(* GENERATED by harness/pytrans6.py from %s and %s - do not edit *)\n'
               'From Coq Require Import ZArith List Bool.\nFrom Coq Require Import Strings.Byte.\n'
               'From HP Require Import Bytes AioSession.\nImport ListNotations.\n\n'
               'Section Gen.\nVariable ident secret : bytes.\n\n'
               '(* read_queue.put_nowait(m) / DeferredQueue.put(m): the message joins the queue (and the ghost list of everything received) *)\n'
               'Definition enqueue_msg (m : msg) (s : asess) : asess :=\n'
               '  mkas (wanted s) (pc s) (cur s) (tr s) (conns s) (closing s) (wc_done s) (wcl_done s)\n'
               '       (queue s ++ [m]) (delivered s) (waiting s) (recvd s ++ [m]) (attempts s) (pend s) (outcome s)\n'
               '       (cancel_req s) (cst s) (ready s) (raised s).\n\n'
               % (os.path.join(REPO, FLAVOURS['aio']['src']), os.path.join(REPO, FLAVOURS['tw']['src']))) + AIO_PRIMS + '\n\n'.join(defs) + '\n\nEnd Gen.\n'
    except (Unsupported, OSError, SyntaxError) as e:
        sys.stderr.write('pytrans6: cannot translate: %s\n' % e)
        return 2
    old = open(OUT).read() if os.path.exists(OUT) else None
    if old != txt:
        tmp = OUT + '.tmp.%d' % os.getpid()
        open(tmp, 'w').write(txt)
        os.replace(tmp, OUT)
        print('AioGen.v rewritten')
    return 0


if __name__ == '__main__':
    sys.exit(main())
