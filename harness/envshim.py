"""Import shims so that hpfeeds.broker.* and hpfeeds.twisted.* load on the pinned interpreter (3.12):
wrapt 1.10.11 and aiohttp 3.6.2 do not import there, and hpfeeds/twisted/service.py uses
asyncio.coroutine.  The broker uses wrapt.ObjectProxy only for send-buffer metering of real sockets and
aiohttp.web only for the metrics HTTP endpoint; no property covers either.
"""
import asyncio
import logging
import sys
import types


def install():
    if 'wrapt' not in sys.modules:
        try:
            import wrapt  # noqa
        except Exception:
            w = types.ModuleType('wrapt')

            class ObjectProxy(object):
                def __init__(self, wrapped):
                    object.__setattr__(self, '__wrapped__', wrapped)

                def __getattr__(self, n):
                    return getattr(self.__wrapped__, n)
            w.ObjectProxy = ObjectProxy
            sys.modules['wrapt'] = w
    if 'aiohttp' not in sys.modules:
        try:
            import aiohttp.web  # noqa
        except Exception:
            for k in [k for k in sys.modules if k == 'aiohttp' or k.startswith('aiohttp.')]:
                del sys.modules[k]
            a = types.ModuleType('aiohttp')
            web = types.ModuleType('aiohttp.web')
            a.web = web
            sys.modules['aiohttp'] = a
            sys.modules['aiohttp.web'] = web
    if not hasattr(asyncio, 'coroutine'):
        asyncio.coroutine = lambda f: f
    logging.disable(logging.CRITICAL)


install()
