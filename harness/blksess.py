"""Driver for hpfeeds.blocking.session.ClientSession: the real session, protocol and reactor, stepped by hand
(no thread) over a scripted socket; select() is answered from the state of the fake socket and the real wake-up queue."""
import errno
import select as _select_mod
import socket
import zlib

import envshim  # noqa
from common import fp, jbytes, unjbytes, coq_bytes, coq_segs
from broker import split_frames
import aiosess

ORIG_SELECT = _select_mod.select

import hpfeeds.protocol as P
from hpfeeds.blocking import reactor as R
from hpfeeds.blocking import session as S


def _ad(s):
    return zlib.adler32(s.encode('latin-1')) & 0xffffffff


class FakeSock:
    def __init__(self):
        self.sent = bytearray()
        self.rxq = []               # what the next recv calls return, in order (empty = would block)
        self.closed = False

    def setblocking(self, f):
        pass

    def setsockopt(self, *a):
        pass

    def close(self):
        self.closed = True

    def recv(self, n):
        if not self.rxq:
            raise socket.error(errno.EWOULDBLOCK, 'would block')
        return self.rxq.pop(0)

    def send(self, data):
        self.sent.extend(bytes(data))
        return len(data)


class BlkDriver:
    def __init__(self, ident='ident', secret='secret'):
        self.session = S.ClientSession('broker.invalid', 10000, ident, secret)
        self.r = self.session._reactor
        self.socks = []
        self.cur = None
        self.got = []
        self.raised = 0
        self.trace = []
        self.first_queue = self.r._outbox
        self.r.connector = lambda: self.socks[-1]

    def _select_once(self, readable):
        def fake(rl, wl, xl, timeout=None):
            rr = []
            for x in rl:
                if x is self.cur and readable:
                    rr.append(x)
                elif x is self.r._outbox:
                    ready, _, _ = ORIG_SELECT([x], [], [], 0)
                    if ready:
                        rr.append(x)
            return rr, [x for x in wl if x is self.cur], []
        old = R.select.select
        R.select.select = fake
        try:
            self.r._select()
        finally:
            R.select.select = old

    def flush(self):
        """let the reactor move everything that is in the current connection's outbox to the socket"""
        for _ in range(10000):
            if self.cur is None or getattr(self.r, 'sock', None) is not self.cur:
                return
            if not self.r._buffer and self.r._outbox.qsize() == 0:
                return
            self._select_once(False)

    def apply(self, ev):
        k = ev[0]
        rec = dict(ev=ev, delivered=True, raised=None)
        try:
            if k == 'conn':
                if self.cur is not None:
                    rec['delivered'] = False
                else:
                    self.socks.append(FakeSock())
                    self.cur = self.socks[-1]
                    self.r._connect()
            elif k == 'data':
                if self.cur is None or self.cur.closed:
                    rec['delivered'] = False
                else:
                    self.cur.rxq.append(unjbytes(ev[1]))
                    if len(ev) > 2 and ev[2] == 'eof':
                        # the peer closed right behind these bytes: the EOF is already pending when the reactor wakes up
                        self.cur.rxq.append(b'')
                    try:
                        self._select_once(True)
                    except Exception as e:  # noqa
                        rec['raised'] = type(e).__name__
                        self.raised += 1
                        self.cur.closed = True      # the reactor thread dies with the exception
            elif k == 'lost':
                if self.cur is None:
                    rec['delivered'] = False
                else:
                    if b'' not in self.cur.rxq:
                        self.cur.rxq.append(b'')
                    for _ in range(4):
                        if not self.cur.rxq or getattr(self.r, 'sock', None) is not self.cur:
                            break
                        self._select_once(True)
                    self.cur = None
            elif k == 'sub':
                self.session.subscribe(unjbytes(ev[1]).decode())
            elif k == 'unsub':
                self.session.unsubscribe(unjbytes(ev[1]).decode())
            elif k == 'pub':
                self.session.publish(unjbytes(ev[1]).decode(), unjbytes(ev[2]))
            elif k == 'read':
                if self.session.read_queue.qsize() > 0:
                    self.got.append(self.session.read_queue.get_nowait())
                else:
                    rec['delivered'] = False
            self.flush()
        except Exception as e:  # noqa
            rec['raised'] = '%s: %s' % (type(e).__name__, e)
        rec['obs'] = self.observe()
        self.trace.append(rec)
        return rec

    def observe(self):
        s = self.session
        stale = 0
        q = self.first_queue if not self.socks else None
        if self.cur is None:
            q = self.r._outbox
        if q is not None:
            stale = q.qsize()
        return dict(cur=None if self.cur is None else len(self.socks) - 1, subs=sorted(s.subscriptions),
                    conns=[dict(frames=[aiosess.show_frame(o, b) for o, b in split_frames(bytes(sk.sent))[0]], closed=sk.closed)
                           for sk in self.socks],
                    got=[(i, c, bytes(d)) for i, c, d in self.got],
                    queued=[(i, c, bytes(d)) for i, c, d in list(s.read_queue.queue)], raised=self.raised, stale=stale,
                    when_connected=self.r.when_connected.is_set())

    def shutdown(self):
        for q in {id(self.first_queue): self.first_queue, id(self.r._outbox): self.r._outbox, id(self.session.read_queue): self.session.read_queue}.values():
            for sk in (q._putsocket, q._getsocket):
                try:
                    sk.close()
                except Exception:
                    pass


def texts(o):
    wanted = sum(zlib.adler32(t.encode('utf-8')) & 0xffffffff for t in o['subs']) & 0xffffffff

    def b(x):
        return x.encode('utf-8') if isinstance(x, str) else bytes(x)

    def sm(m):
        return '%s/%s/%s' % (fp(b(m[0])), fp(b(m[1])), fp(b(m[2])))
    t11 = '%s|%d|%s|%d' % ('-' if o['cur'] is None else str(o['cur']), wanted,
                           ';'.join(','.join(aiosess.canon_frames(c['frames'])) for c in o['conns']), o['stale_total'])
    t12 = '%s|%s|%d' % (','.join(sm(m) for m in o['got']), ','.join(sm(m) for m in o['queued']), o['raised'])
    return t11, t12


def drive(events, ident='ident', secret='secret'):
    d = BlkDriver(ident, secret)
    rows = []
    stale_total = 0
    try:
        for ev in events:
            before = d.observe()['stale']
            rec = d.apply(ev)
            o = rec['obs']
            # frames written while no connection exists pile up in a queue nobody will read
            if ev[0] in ('sub', 'unsub', 'pub') and o['cur'] is None and not (rec['raised'] or ''):
                stale_total += 1
            o['stale_total'] = stale_total
            rec['texts'] = texts(o)
            rows.append([_ad(t) for t in rec['texts']])
    finally:
        d.shutdown()
    return rows, d


def coq_event(ev):
    k = ev[0]
    if k == 'conn':
        return 'QConn'
    if k == 'data':
        return 'QData %s' % coq_segs(unjbytes(ev[1]))
    if k == 'lost':
        return 'QLost'
    if k == 'sub':
        return 'QSub %s' % coq_bytes(unjbytes(ev[1]))
    if k == 'unsub':
        return 'QUnsub %s' % coq_bytes(unjbytes(ev[1]))
    if k == 'pub':
        return 'QPub %s %s' % (coq_bytes(unjbytes(ev[1])), coq_segs(unjbytes(ev[2])))
    if k == 'read':
        return 'QRead'
    raise ValueError(ev)


def expr(events, ident='ident', secret='secret', full=False):
    return '%s %s %s [%s]' % ('run_blk_full' if full else 'run_blk', coq_bytes(ident.encode()), coq_bytes(secret.encode()),
                              '; '.join(coq_event(e) for e in events))


def gen_events(rng, early=None):
    """application calls x connections x OP_INFO in any chunking x traffic x losses.  early: allow application writes
    between the connection being made and its OP_INFO (the documented `with session:` usage does exactly that)"""
    from wire import cut
    import struct
    early = (rng.random() < 0.5) if early is None else early
    ev = []

    def app(allow_write=True):
        for _ in range(rng.choice([0, 0, 1, 1, 2])):
            r = rng.random()
            if r < 0.35 and allow_write:
                ev.append(['sub', jbytes(rng.choice(aiosess.TOPICS).encode())])
            elif r < 0.5 and allow_write:
                ev.append(['unsub', jbytes(rng.choice(aiosess.TOPICS).encode())])
            elif r < 0.65 and allow_write:
                ev.append(['pub', jbytes(rng.choice(aiosess.TOPICS).encode()), jbytes(bytes(rng.randrange(256) for _ in range(rng.randint(0, 9))))])
            elif r < 0.9:
                ev.append(['read'])
    if rng.random() < 0.3:
        app()
    for c in range(rng.choice([1, 2, 2, 3])):
        ev.append(['conn'])
        app(early)
        frames = []
        if rng.random() < 0.9:
            frames.append(P.msginfo(rng.choice(['hp', 'bröker']), bytes(rng.randrange(256) for _ in range(4))))
        for _ in range(rng.choice([0, 1, 2, 4])):
            q = rng.random()
            if q < 0.8:
                frames.append(P.msgpublish(rng.choice(['a', 'ü']), rng.choice(aiosess.TOPICS), bytes(rng.randrange(256) for _ in range(rng.randint(0, 12)))))
            elif q < 0.86:
                frames.append(P.msgerror('nope'))
            elif q < 0.92:
                frames.append(rng.choice([P.msgsubscribe('i', 'c'), P.msgauth(b'1234', 'i', 's'), struct.pack('!iB', 3, 7) + b'x']))
            else:
                frames.append(P.msginfo('again', b'\x01\x02\x03\x04'))
        data = b''.join(frames)
        if rng.random() < 0.2:
            data = data[:rng.randrange(0, len(data) + 1)]
        info_len = len(frames[0]) if frames and frames[0][4] == P.OP_INFO else 0
        fed = 0
        for ch in cut(rng, data):
            if not ch:
                continue
            ev.append(['data', jbytes(ch)])
            fed += len(ch)
            app(early or fed >= info_len)
        if ev[-1][0] == 'data' and rng.random() < 0.6:
            ev[-1].append('eof')        # the connection is closed right behind the last bytes: data and EOF pending together
        ev.append(['lost'])
        if rng.random() < 0.3:
            app()
    app()
    return ev
