#!/venv/bin/python
"""pytrans.py — fail-closed translator from /repo/hpfeeds/protocol.py (Python `ast`) to Gallina.

Writes coq/ProtoGen.v on every run (rewritten only when its content changes).  Every module-level
constant, every module-level function and every method of `class Unpacker` becomes one Gallina
definition over the dynamic values and primitives of coq/PyPrim.v:

    def f(a, b): ...          ->  Definition f (a b : val) : res val := ...
    class Unpacker: def m(self, x): ...
                              ->  Definition Unpacker_m (x : val) : M val := ...   (state = self.buf)

Statements and expressions outside the fragment listed below abort the translation (exit 2) rather
than being approximated; the runner then treats the property as no longer shown to hold.

Fragment: assignment to a name / a pair of names / self.buf; `return`; `raise Cls(...)` (arguments
are not evaluated: they only format the message); `if` whose body ends in return/raise, or that only
re-assigns names (the join is made explicit); expression statements `self.buf.extend(x)`,
`self.m(...)`; `del self.buf[a:b]`; expressions: names, int/bytes constants, tuples, + - * **,
comparisons, not, isinstance, len, ord, bytes, bytearray(), slicing, x.encode('utf-8'),
x.decode('utf-8'), struct.pack/unpack with a literal format, hashlib.sha1(x).digest(),
CONST.get(k, d), calls of translated functions and methods.
The `if sys.version_info[0] == 3:` block at module level is resolved for Python 3 (the interpreter
the harness runs); its else-branch is not translated.
"""
import ast
import os
import sys

REPO = os.environ.get('VERIF_REPO', '/repo')
HERE = os.path.dirname(os.path.abspath(__file__))
OUT = os.path.join(HERE, '..', 'coq', 'ProtoGen.v')
SRC = os.path.join(REPO, 'hpfeeds', 'protocol.py')

CLASS = 'Unpacker'
STATE_ATTR = 'buf'
SKIP_METHODS = {'__iter__', 'next'}       # `return self` / the python2 alias of __next__
COQ_KEYWORDS = {'as', 'at', 'cofix', 'else', 'end', 'exists', 'fix', 'for', 'forall', 'fun', 'if', 'in', 'let',
                'match', 'mod', 'return', 'then', 'type', 'using', 'where', 'with', 'Prop', 'Set', 'Type',
                'val', 'res', 'M', 'Ok', 'Raise', 'Exc', 'length', 'error', 'data', 'next'}


class Unsupported(Exception):
    def __init__(self, node, why):
        line = getattr(node, 'lineno', '?')
        super().__init__('protocol.py:%s: %s: %s' % (line, why, ast.dump(node)[:200] if isinstance(node, ast.AST) else node))


def cq(name):
    """a Python identifier as a Coq identifier"""
    n = name.strip('_') if name.startswith('__') else name
    if n in COQ_KEYWORDS or n.startswith('py_') or n.startswith('t_'):
        n = n + "'"
    return n


def zlit(n):
    return '(%d)' % n if n < 0 else '%d' % n


def bytes_lit(b):
    return '[' + '; '.join('x%02x' % c for c in b) + ']'


class Fn:
    """translation of one function or method body"""

    def __init__(self, tr, name, args, method):
        self.tr = tr
        self.name = name
        self.method = method
        self.locals = set(args)
        self.tmp = 0
        self.raises = 0
        self.calls = set()
        self.qual = ''          # prefix of module-level names when the text is emitted into another file

    # ---- monad vocabulary ----
    def ret(self, pure):
        return '(retM %s)' % pure if self.method else '(Ok %s)' % pure

    def bind(self, comp, var, body):
        return '(%s %s (fun %s => %s))' % ('bindM' if self.method else 'bindR', comp, var, body)

    def lift(self, rterm):
        return '(liftM %s)' % rterm if self.method else rterm

    def fresh(self):
        self.tmp += 1
        return 't_%d' % self.tmp

    # ---- expressions: returns ('pure', term : val) or ('comp', term : res val / M val) ----
    def atoms(self, exprs, k):
        """evaluate exprs left to right, binding computations to fresh names, then k(list of pure terms)"""
        pures = []
        binds = []
        for e in exprs:
            kind, t = self.expr(e)
            if kind == 'pure':
                pures.append(t)
            else:
                v = self.fresh()
                binds.append((t, v))
                pures.append(v)
        body = k(pures)
        for t, v in reversed(binds):
            body = self.bind(t, v, body)
        return body

    def prim(self, fn, exprs, fixed_pre=(), fixed_post=()):
        """res-valued primitive applied to evaluated operands"""
        return 'comp', self.atoms(exprs, lambda ps: self.lift('(%s)' % ' '.join([fn] + list(fixed_pre) + ps + list(fixed_post))))

    def opt(self, e):
        return None if e is None else e

    def expr(self, e):
        tr = self.tr
        if isinstance(e, ast.Constant):
            v = e.value
            if v is None:
                return 'pure', 'VNone'
            if isinstance(v, bool):
                return 'pure', '(VBool %s)' % ('true' if v else 'false')
            if isinstance(v, int):
                return 'pure', '(VInt %s)' % zlit(v)
            if isinstance(v, bytes):
                return 'pure', '(VBytes %s)' % bytes_lit(v)
            if isinstance(v, str):
                return 'pure', '(VStr %s)' % bytes_lit(v.encode('utf-8'))
            raise Unsupported(e, 'constant')
        if isinstance(e, ast.Name):
            if e.id in self.locals:
                return 'pure', cq(e.id)
            if e.id in tr.consts:
                self.calls.add(e.id)
                return 'pure', self.qual + cq(e.id)
            raise Unsupported(e, 'unknown name')
        if isinstance(e, ast.Tuple):
            return 'comp', self.atoms(e.elts, lambda ps: self.ret('(VTuple [%s])' % '; '.join(ps)))
        if isinstance(e, ast.BinOp):
            ops = {ast.Add: 'py_add', ast.Sub: 'py_sub', ast.Mult: 'py_mul', ast.Pow: 'py_pow'}
            if type(e.op) not in ops:
                raise Unsupported(e, 'binary operator')
            return self.prim(ops[type(e.op)], [e.left, e.right])
        if isinstance(e, ast.UnaryOp):
            if isinstance(e.op, ast.Not):
                return self.prim('py_not', [e.operand])
            if isinstance(e.op, ast.USub) and isinstance(e.operand, ast.Constant) and isinstance(e.operand.value, int):
                return 'pure', '(VInt %s)' % zlit(-e.operand.value)
            raise Unsupported(e, 'unary operator')
        if isinstance(e, ast.Compare):
            if len(e.ops) != 1:
                raise Unsupported(e, 'chained comparison')
            ops = {ast.Lt: 'py_lt', ast.Gt: 'py_gt', ast.LtE: 'py_le', ast.GtE: 'py_ge', ast.Eq: 'py_eq', ast.NotEq: 'py_ne'}
            if type(e.ops[0]) not in ops:
                raise Unsupported(e, 'comparison operator')
            return self.prim(ops[type(e.ops[0])], [e.left, e.comparators[0]])
        if isinstance(e, ast.BoolOp):
            # a or b or c: the first truthy operand, else the last;  a and b: the first falsy operand, else the last
            def chain(vals):
                if len(vals) == 1:
                    k, t = self.expr(vals[0])
                    return t if k == 'comp' else self.ret(t)
                k, t = self.expr(vals[0])
                v = self.fresh()
                b = self.fresh()
                rest = chain(vals[1:])
                if isinstance(e.op, ast.Or):
                    inner = '(if %s then %s else %s)' % (b, self.ret(v), rest)
                else:
                    inner = '(if %s then %s else %s)' % (b, rest, self.ret(v))
                body = self.bind(self.lift('(py_truth %s)' % v), b, inner)
                return self.bind(t if k == 'comp' else self.ret(t), v, body)
            return 'comp', chain(e.values)
        if isinstance(e, ast.Subscript):
            if not isinstance(e.slice, ast.Slice) or e.slice.step is not None:
                raise Unsupported(e, 'subscript that is not a plain slice')
            lo, hi = e.slice.lower, e.slice.upper
            parts = [e.value] + [x for x in (lo, hi) if x is not None]

            def k(ps):
                it = iter(ps[1:])
                a = '(Some %s)' % next(it) if lo is not None else 'None'
                b = '(Some %s)' % next(it) if hi is not None else 'None'
                return self.lift('(py_slice %s %s %s)' % (ps[0], a, b))
            return 'comp', self.atoms(parts, k)
        if isinstance(e, ast.Attribute):
            if isinstance(e.value, ast.Name) and e.value.id == 'self' and e.attr == STATE_ATTR and self.method:
                return 'comp', 'getbuf'
            raise Unsupported(e, 'attribute')
        if isinstance(e, ast.Call):
            return self.call(e)
        raise Unsupported(e, 'expression')

    def lit_str(self, node, what):
        if isinstance(node, ast.Constant) and isinstance(node.value, str):
            return node.value
        raise Unsupported(node, what + ' must be a string literal')

    def call(self, e):
        tr = self.tr
        if e.keywords:
            raise Unsupported(e, 'keyword arguments')
        f = e.func
        if isinstance(f, ast.Name):
            n = f.id
            if n == 'len' and len(e.args) == 1:
                return self.prim('py_len', e.args)
            if n == 'ord' and len(e.args) == 1:
                return self.prim('py_ord', e.args)
            if n == 'bytes' and len(e.args) == 1:
                return self.prim('py_bytes', e.args)
            if n == 'bytearray' and not e.args:
                return 'pure', 'py_bytearray0'
            if n == 'isinstance' and len(e.args) == 2 and isinstance(e.args[1], ast.Name):
                cls = tr.classes.get(e.args[1].id)
                if cls is None:
                    raise Unsupported(e, 'isinstance against an unknown class')
                k, t = self.expr(e.args[0])
                if k != 'pure':
                    raise Unsupported(e, 'isinstance of a compound expression')
                return 'pure', '(py_isinstance %s %s)' % (t, cls)
            if n in tr.funcs:
                if len(e.args) != tr.funcs[n]:
                    raise Unsupported(e, 'arity')
                self.calls.add(n)
                return self.prim(self.qual + cq(n), e.args)
            raise Unsupported(e, 'call of an unknown function')
        if isinstance(f, ast.Attribute):
            # struct.pack / struct.unpack
            if isinstance(f.value, ast.Name) and f.value.id == 'struct' and 'struct' in tr.imports:
                fmt = self.lit_str(e.args[0], 'struct format') if e.args else None
                if fmt not in ('!B', '!iB'):
                    raise Unsupported(e, 'struct format outside {!B, !iB}')
                if f.attr == 'pack':
                    return 'comp', self.atoms(e.args[1:], lambda ps: self.lift('(py_struct_pack "%s" [%s])' % (fmt, '; '.join(ps))))
                if f.attr == 'unpack' and len(e.args) == 2:
                    return self.prim('py_struct_unpack', e.args[1:], fixed_pre=['"%s"' % fmt])
                raise Unsupported(e, 'struct function')
            # hashlib.sha1(x).digest()
            if (f.attr == 'digest' and not e.args and isinstance(f.value, ast.Call)
                    and isinstance(f.value.func, ast.Attribute) and f.value.func.attr == 'sha1'
                    and isinstance(f.value.func.value, ast.Name) and f.value.func.value.id == 'hashlib'
                    and 'hashlib' in tr.imports and len(f.value.args) == 1 and not f.value.keywords):
                return self.prim('py_sha1_digest', f.value.args)
            # x.encode('utf-8') / x.decode('utf-8')
            if f.attr in ('encode', 'decode') and len(e.args) == 1 and self.lit_str(e.args[0], 'codec') in ('utf-8', 'utf8'):
                return self.prim('py_%s_utf8' % f.attr, [f.value])
            # CONST.get(k, d)
            if f.attr == 'get' and len(e.args) == 2 and isinstance(f.value, ast.Name) and f.value.id in tr.consts:
                return self.prim('py_dict_get', [f.value] + e.args)
            # self.m(...)
            if isinstance(f.value, ast.Name) and f.value.id == 'self' and self.method:
                if f.attr not in tr.methods or len(e.args) != tr.methods[f.attr]:
                    raise Unsupported(e, 'unknown method / arity')
                self.calls.add(CLASS + '.' + f.attr)
                return 'comp', self.atoms(e.args, lambda ps: '(%s)' % ' '.join([cq(CLASS + '_' + f.attr.strip('_'))] + ps)
                                          if ps else cq(CLASS + '_' + f.attr.strip('_')))
            # self.buf.extend(x)
            if (f.attr == 'extend' and len(e.args) == 1 and self.method and isinstance(f.value, ast.Attribute)
                    and isinstance(f.value.value, ast.Name) and f.value.value.id == 'self' and f.value.attr == STATE_ATTR):
                v = self.fresh()
                w = self.fresh()
                return 'comp', self.atoms(e.args, lambda ps: self.bind('getbuf', v, self.bind(
                    self.lift('(py_extend %s %s)' % (v, ps[0])), w, '(putbuf %s)' % w)))
        raise Unsupported(e, 'call')

    # ---- statements ----
    def terminates(self, stmts):
        return bool(stmts) and isinstance(stmts[-1], (ast.Return, ast.Raise))

    def assigned(self, stmts):
        out = []
        for s in stmts:
            if not isinstance(s, ast.Assign) or len(s.targets) != 1 or not isinstance(s.targets[0], ast.Name):
                raise Unsupported(s, 'a fall-through if-body may only assign names')
            if s.targets[0].id not in out:
                out.append(s.targets[0].id)
        return out

    def block(self, stmts, fallthrough=None):
        """translate a statement list; `fallthrough` is the term to continue with when the list ends
        without return/raise (None: the function returns None)"""
        if not stmts:
            return fallthrough if fallthrough is not None else self.ret('VNone')
        s, rest = stmts[0], stmts[1:]
        if isinstance(s, ast.Expr) and isinstance(s.value, ast.Constant) and isinstance(s.value.value, str):
            return self.block(rest, fallthrough)          # docstring
        if isinstance(s, ast.Return):
            if rest:
                raise Unsupported(s, 'code after return')
            if s.value is None:
                return self.ret('VNone')
            k, t = self.expr(s.value)
            return t if k == 'comp' else self.ret(t)
        if isinstance(s, ast.Raise):
            if rest:
                raise Unsupported(s, 'code after raise')
            exc = s.exc
            if isinstance(exc, ast.Call) and isinstance(exc.func, ast.Name):
                cls = exc.func.id
            elif isinstance(exc, ast.Name):
                cls = exc.id
            else:
                raise Unsupported(s, 'raise')
            if cls not in self.tr.exceptions:
                raise Unsupported(s, 'raise of an unknown exception class')
            site = self.raises
            self.raises += 1
            e = '(Exc "%s" %d)' % (cls, site)
            return '(raiseM %s)' % e if self.method else '(Raise %s)' % e
        if isinstance(s, ast.Assign):
            if len(s.targets) != 1:
                raise Unsupported(s, 'multiple targets')
            tg = s.targets[0]
            k, t = self.expr(s.value)
            comp = t if k == 'comp' else self.ret(t)
            if isinstance(tg, ast.Name):
                self.locals.add(tg.id)
                return self.bind(comp, cq(tg.id), self.block(rest, fallthrough))
            if isinstance(tg, ast.Tuple) and len(tg.elts) == 2 and all(isinstance(x, ast.Name) for x in tg.elts):
                v = self.fresh()
                for x in tg.elts:
                    self.locals.add(x.id)
                pat = "'(%s, %s)" % (cq(tg.elts[0].id), cq(tg.elts[1].id))
                return self.bind(comp, v, self.bind(self.lift('(py_untuple2 %s)' % v), pat, self.block(rest, fallthrough)))
            if (isinstance(tg, ast.Attribute) and isinstance(tg.value, ast.Name) and tg.value.id == 'self'
                    and tg.attr == STATE_ATTR and self.method):
                v = self.fresh()
                return self.bind(comp, v, self.bind('(putbuf %s)' % v, '_', self.block(rest, fallthrough)))
            raise Unsupported(s, 'assignment target')
        if isinstance(s, ast.Expr):
            k, t = self.expr(s.value)
            if k != 'comp':
                raise Unsupported(s, 'expression statement without effect')
            return self.bind(t, '_', self.block(rest, fallthrough))
        if isinstance(s, ast.Delete):
            if (len(s.targets) == 1 and isinstance(s.targets[0], ast.Subscript) and self.method
                    and isinstance(s.targets[0].slice, ast.Slice) and s.targets[0].slice.step is None
                    and isinstance(s.targets[0].value, ast.Attribute) and isinstance(s.targets[0].value.value, ast.Name)
                    and s.targets[0].value.value.id == 'self' and s.targets[0].value.attr == STATE_ATTR):
                sl = s.targets[0].slice
                parts = [x for x in (sl.lower, sl.upper) if x is not None]

                def k(ps):
                    it = iter(ps)
                    a = '(Some %s)' % next(it) if sl.lower is not None else 'None'
                    b = '(Some %s)' % next(it) if sl.upper is not None else 'None'
                    v = self.fresh()
                    w = self.fresh()
                    return self.bind('getbuf', v, self.bind(self.lift('(py_delslice %s %s %s)' % (v, a, b)), w,
                                                             self.bind('(putbuf %s)' % w, '_', self.block(rest, fallthrough))))
                return self.atoms(parts, k)
            raise Unsupported(s, 'del')
        if isinstance(s, ast.If):
            k, t = self.expr(s.test)
            c = self.fresh()
            b = self.fresh()
            cond = self.bind(t if k == 'comp' else self.ret(t), c, self.lift('(py_truth %s)' % c))
            if self.terminates(s.body):
                # control continues after the `if` only through the else-branch (elif chains included)
                saved = set(self.locals)
                then = self.block(s.body)
                self.locals = set(saved)
                els = self.block(list(s.orelse) + rest, fallthrough)
                return self.bind(cond, b, '(if %s then %s else %s)' % (b, then, els))
            if not s.orelse:
                # fall-through body that only re-assigns names: make the join explicit
                names = self.assigned(s.body)
                for n in names:
                    if n not in self.locals:
                        raise Unsupported(s, 'a name first assigned inside a fall-through if')
                if len(names) != 1:
                    raise Unsupported(s, 'fall-through if assigning several names')
                n = names[0]
                body = self.block(s.body, fallthrough=self.ret(cq(n)))
                joined = self.bind(cond, b, '(if %s then %s else %s)' % (b, body, self.ret(cq(n))))
                return self.bind(joined, cq(n), self.block(rest, fallthrough))
            raise Unsupported(s, 'if/else shape')
        raise Unsupported(s, 'statement')


class Translator:
    def __init__(self, src):
        self.tree = ast.parse(src)
        self.imports = set()
        self.consts = {}        # name -> coq term (val)
        self.classes = {}       # python class alias -> pycls constructor
        self.funcs = {}         # name -> arity
        self.methods = {}       # name -> arity (without self)
        self.exceptions = {'StopIteration'}
        self.defs = []          # (key, deps, text)

    def const_expr(self, e):
        f = Fn(self, '<const>', [], False)
        k, t = f.expr(e)
        if k == 'pure':
            return 'pure', t, f.calls
        return 'comp', t, f.calls

    def run(self):
        body = list(self.tree.body)
        fndefs = []
        cls = None
        for s in body:
            if isinstance(s, ast.Import):
                for a in s.names:
                    self.imports.add(a.asname or a.name)
            elif isinstance(s, ast.ImportFrom):
                if s.module == 'exceptions' and s.level == 1:
                    for a in s.names:
                        self.exceptions.add(a.asname or a.name)
                else:
                    raise Unsupported(s, 'import')
            elif isinstance(s, ast.FunctionDef):
                fndefs.append(s)
                self.funcs[s.name] = len(s.args.args)
            elif isinstance(s, ast.ClassDef):
                if s.name != CLASS or cls is not None:
                    raise Unsupported(s, 'class')
                cls = s
                for m in s.body:
                    if isinstance(m, ast.FunctionDef):
                        self.methods[m.name] = len(m.args.args) - 1
                    elif not (isinstance(m, ast.Expr) and isinstance(m.value, ast.Constant)):
                        raise Unsupported(m, 'class body')
            elif isinstance(s, ast.Expr) and isinstance(s.value, ast.Constant) and isinstance(s.value.value, str):
                pass
            elif isinstance(s, (ast.Assign, ast.If)):
                pass
            else:
                raise Unsupported(s, 'module-level statement')
        # constants and class aliases, in order
        for s in body:
            if isinstance(s, ast.Assign):
                self.module_assign(s)
            elif isinstance(s, ast.If):
                self.version_if(s)
        for s in fndefs:
            self.function(s, None)
        if cls is None:
            raise Unsupported(self.tree, 'class %s not found' % CLASS)
        for m in cls.body:
            if isinstance(m, ast.FunctionDef) and m.name not in SKIP_METHODS:
                self.function(m, cls)
        for m in cls.body:
            if isinstance(m, ast.FunctionDef) and m.name in SKIP_METHODS:
                self.check_skipped(m)
        return self.render()

    def check_skipped(self, m):
        """__iter__ must be `return self`; next must be `return self.__next__()`"""
        stmts = [s for s in m.body if not (isinstance(s, ast.Expr) and isinstance(s.value, ast.Constant))]
        ok = False
        if len(stmts) == 1 and isinstance(stmts[0], ast.Return):
            v = stmts[0].value
            if m.name == '__iter__':
                ok = isinstance(v, ast.Name) and v.id == 'self'
            else:
                ok = (isinstance(v, ast.Call) and not v.args and isinstance(v.func, ast.Attribute) and v.func.attr == '__next__'
                      and isinstance(v.func.value, ast.Name) and v.func.value.id == 'self')
        if not ok:
            raise Unsupported(m, 'method %s is not the expected trivial one' % m.name)

    def module_assign(self, s):
        if len(s.targets) != 1 or not isinstance(s.targets[0], ast.Name):
            raise Unsupported(s, 'module-level assignment target')
        name = s.targets[0].id
        v = s.value
        if isinstance(v, ast.Dict):
            items = []
            deps = set()
            for k, x in zip(v.keys, v.values):
                kk, kt, kd = self.const_expr(k)
                xk, xt, xd = self.const_expr(x)
                deps |= kd | xd
                items.append((kk, kt, xk, xt))
            # keys must be ints: evaluate through as_int at Coq level
            parts = []
            for kk, kt, xk, xt in items:
                parts.append('(cint %s, cval %s)' % (kt if kk == 'pure' else kt, xt if xk == 'pure' else xt)
                             if False else '(cint %s, cval %s)' % (self.as_res(kk, kt), self.as_res(xk, xt)))
            text = 'Definition %s : val := VDict [%s].' % (cq(name), '; '.join(parts))
            self.consts[name] = cq(name)
            self.defs.append((name, deps, text))
            return
        k, t, deps = self.const_expr(v)
        text = 'Definition %s : val := cval %s.' % (cq(name), self.as_res(k, t))
        self.consts[name] = cq(name)
        self.defs.append((name, deps, text))

    @staticmethod
    def as_res(kind, term):
        return term if kind == 'comp' else '(Ok %s)' % term

    def version_if(self, s):
        t = s.test
        ok = (isinstance(t, ast.Compare) and len(t.ops) == 1 and isinstance(t.ops[0], ast.Eq)
              and isinstance(t.comparators[0], ast.Constant) and t.comparators[0].value == 3
              and isinstance(t.left, ast.Subscript) and isinstance(t.left.value, ast.Attribute)
              and t.left.value.attr == 'version_info' and isinstance(t.left.value.value, ast.Name)
              and t.left.value.value.id == 'sys' and 'sys' in self.imports
              and isinstance(t.left.slice, ast.Constant) and t.left.slice.value == 0)
        if not ok:
            raise Unsupported(s, 'module-level if that is not the Python-3 switch')
        known = {'bytes': 'Cbytes', 'str': 'Cstr', 'bytearray': 'Cbytearray'}
        self.classes.update(known)
        for a in s.body:
            if (isinstance(a, ast.Assign) and len(a.targets) == 1 and isinstance(a.targets[0], ast.Name)
                    and isinstance(a.value, ast.Name) and a.value.id in known):
                self.classes[a.targets[0].id] = known[a.value.id]
            else:
                raise Unsupported(a, 'statement in the Python-3 switch')

    def function(self, fd, cls):
        a = fd.args
        if a.vararg or a.kwarg or a.kwonlyargs or a.defaults or a.posonlyargs or fd.decorator_list:
            raise Unsupported(fd, 'function signature')
        names = [x.arg for x in a.args]
        method = cls is not None
        if method:
            if not names or names[0] != 'self':
                raise Unsupported(fd, 'method without self')
            names = names[1:]
        if not self.classes:
            self.classes.update({'bytes': 'Cbytes', 'str': 'Cstr', 'bytearray': 'Cbytearray'})
        f = Fn(self, fd.name, names, method)
        term = f.block(fd.body)
        cname = cq((CLASS + '_' + fd.name.strip('_')) if method else fd.name)
        params = ' '.join('(%s : val)' % cq(n) for n in names)
        ty = 'M val' if method else 'res val'
        text = 'Definition %s %s: %s :=\n  %s.' % (cname, params + ' ' if params else '', ty, term)
        key = (CLASS + '.' + fd.name) if method else fd.name
        self.defs.append((key, set(f.calls), text))

    def render(self):
        # topological order by use
        keys = [k for k, _, _ in self.defs]
        by = {k: (d, t) for k, d, t in self.defs}
        done, out, visiting = set(), [], set()

        def visit(k):
            if k in done or k not in by:
                return
            if k in visiting:
                raise Unsupported(k, 'recursive definitions')
            visiting.add(k)
            for d in sorted(by[k][0]):
                visit(d)
            visiting.discard(k)
            done.add(k)
            out.append(by[k][1])
        for k in keys:
            visit(k)
        head = ['(* GENERATED by harness/pytrans.py from %s - do not edit *)' % SRC,
                'From Coq Require Import ZArith List Bool String.',
                'From Coq Require Import Strings.Byte.',
                'From HP Require Import Bytes PyPrim.',
                'Import ListNotations.',
                'Open Scope Z_scope.',
                'Open Scope string_scope.',
                '',
                '(* a module-level constant: the value of an expression that must not raise *)',
                'Definition cval (r : res val) : val := match r with Ok v => v | Raise _ => VNone end.',
                'Definition cint (r : res val) : Z := match r with Ok (VInt z) => z | _ => -1 end.',
                '']
        return '\n'.join(head) + '\n\n'.join(out) + '\n'


def main():
    try:
        txt = Translator(open(SRC).read()).run()
    except Unsupported as e:
        sys.stderr.write('pytrans: cannot translate: %s\n' % e)
        return 2
    old = open(OUT).read() if os.path.exists(OUT) else None
    if old != txt:
        tmp = OUT + '.tmp.%d' % os.getpid()
        open(tmp, 'w').write(txt)
        os.replace(tmp, OUT)
        print('ProtoGen.v rewritten')
    return 0


if __name__ == '__main__':
    sys.exit(main())
