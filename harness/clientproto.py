"""C16 driver: recording subclasses of the three ClientProtocol classes fed in lock-step."""
import zlib

import envshim  # noqa
from common import fp, coq_bytes, coq_segs

import hpfeeds.asyncio.protocol as aio
import hpfeeds.blocking.protocol as blk
import hpfeeds.twisted.protocol as tw


class FakeTransport:
    def __init__(self, log):
        self.log = log

    def write(self, d):
        self.log.append('W' + fp(bytes(d)))

    def close(self):
        self.log.append('C')

    loseConnection = close


def b(x):
    return x.encode('utf-8') if isinstance(x, str) else bytes(x)


def mk_recorder(base, kind):
    """a subclass that records handler calls and delegates to the library's default behaviour"""
    names = dict(info='on_info', auth='on_auth', sub='on_subscribe', unsub='on_unsubscribe', pub='on_publish',
                 err='on_error', perr='protocol_error', ready='connection_ready')
    if kind == 'tw':
        names = dict(info='onInfo', auth='onAuth', sub='onSubscribe', unsub='onUnsubscribe', pub='onPublish',
                     err='onError', perr='protocolError', ready='connectionReady')

    class Rec(base):
        pass

    def h_info(self, name, rand):
        self.log.append('I%s/%s' % (fp(b(name)), fp(b(rand))))
        return getattr(base, names['info'])(self, name, rand)

    def h_auth(self, ident, dg):
        self.log.append('A%s/%s' % (fp(b(ident)), fp(b(dg))))
        return getattr(base, names['auth'])(self, ident, dg)

    def h_sub(self, ident, chan):
        self.log.append('S%s/%s' % (fp(b(ident)), fp(b(chan))))
        return getattr(base, names['sub'])(self, ident, chan)

    def h_unsub(self, ident, chan):
        self.log.append('U%s/%s' % (fp(b(ident)), fp(b(chan))))
        return getattr(base, names['unsub'])(self, ident, chan)

    def h_pub(self, ident, chan, data):
        self.log.append('P%s/%s/%s' % (fp(b(ident)), fp(b(chan)), fp(b(data))))

    def h_err(self, e):
        self.log.append('E%s' % fp(b(e)))

    def h_perr(self, reason):
        self.log.append('X')

    def h_ready(self):
        self.log.append('R')
    setattr(Rec, names['info'], h_info)
    setattr(Rec, names['auth'], h_auth)
    setattr(Rec, names['sub'], h_sub)
    setattr(Rec, names['unsub'], h_unsub)
    setattr(Rec, names['pub'], h_pub)
    setattr(Rec, names['err'], h_err)
    setattr(Rec, names['perr'], h_perr)
    setattr(Rec, names['ready'], h_ready)
    return Rec


class Factory:
    def __init__(self, ident, secret):
        self.ident, self.secret = ident, secret


def make(kind, ident, secret):
    log = []
    if kind == 'aio':
        p = mk_recorder(aio.ClientProtocol, kind)(ident, secret)
        p.log = log
        p.connection_made(FakeTransport(log))
        feed = p.data_received
    elif kind == 'blk':
        p = mk_recorder(blk.ClientProtocol, kind)(ident, secret)
        p.log = log
        p.transport = FakeTransport(log)
        feed = p.data_received
    else:
        p = mk_recorder(tw.ClientProtocol, kind)()
        p.log = log
        p.factory = Factory(ident, secret)
        p.transport = FakeTransport(log)
        feed = p.dataReceived
    return p, log, feed


def buflen(p):
    return len(p.unpacker.buf)


def drive(ident, secret, chunks):
    """-> {kind: list of per-chunk (events list, buflen)} stopping each class after its first dropping chunk"""
    out = {}
    for kind in ('aio', 'blk', 'tw'):
        p, log, feed = make(kind, ident, secret)
        rows = []
        for ch in chunks:
            n0 = len(log)
            try:
                feed(bytes(ch))
            except Exception:
                log.append('!')
            evs = log[n0:]
            rows.append((evs, buflen(p)))
            if 'C' in evs or '!' in evs:
                break
        out[kind] = rows
    return out


def hash_row(evs, n):
    return zlib.adler32((','.join(evs) + '|%d' % n).encode('latin-1')) & 0xffffffff


def expr(ident, secret, chunks):
    return 'run_c16 %s %s [%s]' % (coq_bytes(ident.encode()), coq_bytes(secret.encode()), '; '.join(coq_segs(c) for c in chunks))
