"""srcwatch.py — has the source a property is anchored in changed since the model was last validated against it?

The hand-written models are tied to the code by differential testing, whose strength is the number and kind of generated
cases.  When a file a property is anchored in (properties.jsonl: anchors.files) differs - as an AST, so comments and
layout do not count - from the version recorded in harness/src_baseline.json, the check spends more on the search: its
case counts are multiplied (Ctx.boost).  Nothing is concluded from the difference itself; it only decides how hard to look.

  /venv/bin/python harness/srcwatch.py --record   (the interpreter the checks run under: ast.dump differs between versions)
      rewrite the baseline from /repo as it is (done when evidence is committed)
"""
import ast
import hashlib
import json
import os
import sys

HERE = os.path.dirname(os.path.abspath(__file__))
VERIF = os.path.dirname(HERE)
REPO = os.environ.get('VERIF_REPO', '/repo')
BASELINE = os.path.join(HERE, 'src_baseline.json')


def anchors():
    out = {}
    for line in open(os.path.join(VERIF, 'properties.jsonl')):
        p = json.loads(line)
        out[p['id']] = list(p.get('anchors', {}).get('files', []))
    return out


def fingerprint(path):
    try:
        tree = ast.parse(open(path).read())
    except (OSError, SyntaxError) as e:
        return 'unreadable:%s' % type(e).__name__
    for node in ast.walk(tree):
        # docstrings are not behaviour
        if isinstance(node, (ast.FunctionDef, ast.AsyncFunctionDef, ast.ClassDef, ast.Module)) and node.body:
            b = node.body[0]
            if isinstance(b, ast.Expr) and isinstance(b.value, ast.Constant) and isinstance(b.value.value, str):
                node.body = node.body[1:] or [ast.Pass()]
    return hashlib.sha1(ast.dump(tree, annotate_fields=False).encode()).hexdigest()


def current():
    files = sorted({f for fs in anchors().values() for f in fs})
    return {f: fingerprint(os.path.join(REPO, f)) for f in files}


def changed_for(pid):
    """files anchored by pid whose AST differs from the baseline"""
    try:
        base = json.load(open(BASELINE))
    except (OSError, ValueError):
        return []
    return [f for f in anchors().get(pid, []) if base.get(f) != fingerprint(os.path.join(REPO, f))]


if __name__ == '__main__':
    if '--record' in sys.argv:
        json.dump(current(), open(BASELINE, 'w'), indent=1, sort_keys=True)
        print('recorded %d files' % len(current()))
    else:
        base = json.load(open(BASELINE))
        cur = current()
        print([f for f in cur if base.get(f) != cur[f]])
