"""Driver for hpfeeds.asyncio.ClientSession on a hand-stepped virtual-time loop with a scripted network."""
import asyncio

import envshim  # noqa
from common import fp, jbytes, unjbytes, coq_bytes, coq_segs
from vloop import VLoop
from broker import split_frames

import hpfeeds.protocol as P
from hpfeeds.asyncio import client as aclient


class FakeSocketObj:
    def setsockopt(self, *a):
        pass


class CTransport:
    def __init__(self, k):
        self.k = k
        self.out = bytearray()
        self.closing = False
        self.lost = False
        self.aborted = False

    def get_extra_info(self, name, default=None):
        return FakeSocketObj() if name == 'socket' else default

    def write(self, d):
        self.out.extend(d)      # what the client sent; whether a dead transport still transmits it is not the client's doing

    def close(self):
        self.closing = True

    def is_closing(self):
        return self.closing


def show_frame(op, body):
    if op == P.OP_AUTH:
        n = body[0]
        return 'A%s/%s' % (fp(body[1:1 + n]), fp(body[1 + n:]))
    if op in (P.OP_SUBSCRIBE, P.OP_UNSUBSCRIBE):
        n = body[0]
        return '%s%s/%s' % ('S' if op == P.OP_SUBSCRIBE else 'U', fp(body[1:1 + n]), fp(body[1 + n:]))
    if op == P.OP_PUBLISH:
        n = body[0]
        i, rest = body[1:1 + n], body[1 + n:]
        m = rest[0]
        return 'P%s/%s/%s' % (fp(i), fp(rest[1:1 + m]), fp(rest[1 + m:]))
    return 'F%d:%s' % (op, fp(body))


class AioDriver:
    def __init__(self, ident='ident', secret='secret'):
        self.loop = VLoop()
        asyncio.set_event_loop(self.loop)
        self.attempts = []          # (factory, future) per create_connection call
        self.conns = []             # (protocol, transport) per established connection
        self.reads = []
        self.close_fut = None
        self.trace = []
        drv = self

        async def create_connection(factory, host=None, port=None, ssl=None, **kw):
            fut = drv.loop.create_future()
            drv.attempts.append((factory, fut))
            return await fut
        self.loop.create_connection = create_connection
        self.session = self.loop.call(aclient.ClientSession, 'broker.invalid', 10000, ident, secret)

    def pending_attempt(self):
        for factory, fut in self.attempts:
            if not fut.done():
                return factory, fut
        return None

    def apply(self, ev):
        k = ev[0]
        rec = dict(ev=ev, raised=None, delivered=True)
        try:
            if k == 'idle':
                self.loop.idle()
            elif k == 'adv':
                self.loop.advance(float(ev[1]))
            elif k in ('ok', 'refuse'):
                pa = self.pending_attempt()
                if pa is None:
                    rec['delivered'] = False
                else:
                    factory, fut = pa
                    if k == 'ok':
                        proto = factory()
                        t = CTransport(len(self.conns))
                        self.conns.append((proto, t))
                        self.loop.call(proto.connection_made, t)
                        fut.set_result((t, proto))
                    else:
                        fut.set_exception(OSError('connection refused'))
                    self.loop.idle()
            elif k == 'data':
                proto, t = self.conns[ev[1]] if ev[1] < len(self.conns) else (None, None)
                if proto is None or t.closing or t.lost:
                    rec['delivered'] = False
                else:
                    try:
                        self.loop.call(proto.data_received, unjbytes(ev[2]))
                    except Exception as e:  # noqa
                        rec['raised'] = type(e).__name__
                        t.aborted = True
                        t.closing = True
            elif k == 'lost':
                proto, t = self.conns[ev[1]] if ev[1] < len(self.conns) else (None, None)
                if proto is None or t.lost:
                    rec['delivered'] = False
                else:
                    t.closing = True
                    t.lost = True
                    try:
                        self.loop.call(proto.connection_lost, None)
                    except Exception as e:  # noqa
                        rec['raised'] = type(e).__name__
            elif k == 'sub':
                self.loop.call(self.session.subscribe, unjbytes(ev[1]).decode())
            elif k == 'unsub':
                self.loop.call(self.session.unsubscribe, unjbytes(ev[1]).decode())
            elif k == 'pub':
                self.loop.call(self.session.publish, unjbytes(ev[1]).decode(), unjbytes(ev[2]))
            elif k == 'read':
                self.reads.append(self.loop.call(asyncio.ensure_future, self.session.read()))
            elif k == 'next':
                # one step of `async for message in session` (generated only while close() has not been called, where it is
                # the same operation as read() - that is what the model's KRead stands for)
                self.reads.append(self.loop.call(asyncio.ensure_future, self.session.__anext__()))
            elif k == 'close':
                if self.close_fut is None:
                    self.close_fut = self.loop.call(asyncio.ensure_future, self.session.close())
                else:
                    rec['delivered'] = False
        except Exception as e:  # noqa
            rec['raised'] = '%s: %s' % (type(e).__name__, e)
        rec['obs'] = self.observe()
        self.trace.append(rec)
        return rec

    def observe(self):
        s = self.session
        cur = None
        for k, (p, t) in enumerate(self.conns):
            if s.protocol is p:
                cur = k
        got = []
        for f in self.reads:
            if f.done() and not f.cancelled() and f.exception() is None:
                got.append(f.result())
        cs = 'none'
        if self.close_fut is not None:
            cs = 'pending'
            if self.close_fut.done():
                cs = 'raised' if (self.close_fut.cancelled() or self.close_fut.exception() is not None) else 'done'
        return dict(attempts=len(self.attempts), pending_attempt=self.pending_attempt() is not None,
                    proto=cur, subs=sorted(s.subscriptions), closing=s.closing,
                    conns=[dict(frames=[show_frame(o, b) for o, b in split_frames(t.out)[0]], closing=t.closing, lost=t.lost)
                           for p, t in self.conns],
                    delivered=[(i, c, bytes(d)) for (i, c, d) in got], waiting=sum(1 for f in self.reads if not f.done()),
                    queued=s.read_queue.qsize(), close=cs, when_connected=s.when_connected.done())

    def shutdown(self):
        try:
            for t in asyncio.all_tasks(self.loop):
                t.cancel()
            self.loop.idle()
        except Exception:
            pass
        self.loop.shutdown()
        asyncio.set_event_loop(None)


# ---- observation string identical to coq/ClientRun.v show_asess ---------------------------------------
import zlib


def _ad(s):
    return zlib.adler32(s.encode('latin-1')) & 0xffffffff


def canon_frames(frames):
    out, run = [], None
    for f in frames:
        if f.startswith('S'):
            run = ((run or 0) + _ad(f)) & 0xffffffff
        else:
            if run is not None:
                out.append('{%d}' % run)
                run = None
            out.append(f)
    if run is not None:
        out.append('{%d}' % run)
    return out


def show_obs(o, raised_total):
    wanted = sum(zlib.adler32(t.encode('utf-8')) & 0xffffffff for t in o['subs']) & 0xffffffff
    cs = {'none': 'n', 'pending': 'p', 'done': 'd', 'raised': 'x'}[o['close']]
    conns = ';'.join('%s:%d' % (','.join(canon_frames(c['frames'])), c['closing']) for c in o['conns'])
    def b(x):
        return x.encode('utf-8') if isinstance(x, str) else bytes(x)
    def sm(m):
        return '%s/%s/%s' % (fp(b(m[0])), fp(b(m[1])), fp(b(m[2])))
    # concurrent readers may be served in any assignment: the delivered messages are compared as a multiset
    msgs = '{%d}' % (sum(_ad(sm(m)) for m in o['delivered']) & 0xffffffff) + ','.join(sm(m) for m in o['queued_items'])
    return '%d|%d|%s|%d|%d%d|%s|%s|%s|%d,%d|%d' % (
        o['attempts'], o['pending_attempt'], '-' if o['proto'] is None else str(o['proto']), wanted, o['closing'],
        o['when_connected'], cs, conns, msgs, len(o['delivered']), o['waiting'], raised_total)


def drive(events, ident='ident', secret='secret'):
    """-> (list of per-event observation hashes, driver)"""
    d = AioDriver(ident, secret)
    hashes = []
    raised = 0
    try:
        for ev in events:
            rec = d.apply(ev)
            if rec['raised']:
                raised += 1
            o = rec['obs']
            o['queued_items'] = list(d.session.read_queue._queue)
            rec['text'] = show_obs(o, raised)
            hashes.append(_ad(rec['text']))
    finally:
        d.shutdown()
    return hashes, d


def coq_event(ev):
    k = ev[0]
    if k == 'idle':
        return 'KIdle'
    if k == 'ok':
        return 'KOk'
    if k == 'refuse':
        return 'KRefuse'
    if k == 'adv':
        return 'KAdv %d' % ev[1]
    if k == 'data':
        return 'KData %d %s' % (ev[1], coq_segs(unjbytes(ev[2])))
    if k == 'lost':
        return 'KLost %d' % ev[1]
    if k == 'sub':
        return 'KSub %s' % coq_bytes(unjbytes(ev[1]))
    if k == 'unsub':
        return 'KUnsub %s' % coq_bytes(unjbytes(ev[1]))
    if k == 'pub':
        return 'KPub %s %s' % (coq_bytes(unjbytes(ev[1])), coq_segs(unjbytes(ev[2])))
    if k in ('read', 'next'):
        return 'KRead'
    if k == 'close':
        return 'KClose'
    raise ValueError(ev)


def expr(events, ident='ident', secret='secret', full=False):
    return '%s %s %s [%s]' % ('run_aio_full' if full else 'run_aio', coq_bytes(ident.encode()), coq_bytes(secret.encode()),
                              '; '.join(coq_event(e) for e in events))


TOPICS = ['c1', 'c2', 'ü/x', '']


def gen_events(rng, nconn=None, with_close=None):
    """application calls x connection scripts: refused / accepted, INFO in any chunking, publishes, junk, loss at any point"""
    from wire import cut
    ev = []
    k = 0
    nconn = nconn if nconn is not None else rng.choice([1, 2, 2, 3])
    with_close = rng.random() < 0.5 if with_close is None else with_close
    close_at = rng.randrange(0, 40) if with_close else None
    step = [0]
    closed = [False]

    def app():
        for _ in range(rng.choice([0, 0, 1, 1, 2])):
            r = rng.random()
            if r < 0.4:
                ev.append(['sub', jbytes(rng.choice(TOPICS).encode())])
            elif r < 0.6:
                ev.append(['unsub', jbytes(rng.choice(TOPICS).encode())])
            elif r < 0.75:
                ev.append(['pub', jbytes(rng.choice(TOPICS).encode()), jbytes(bytes(rng.randrange(256) for _ in range(rng.randint(0, 9))))])
            elif r < 0.9:
                ev.append(['next'] if (not closed[0] and rng.random() < 0.5) else ['read'])
            else:
                ev.append(['idle'])
        step[0] += 1
        if close_at is not None and step[0] == close_at % 25 + 1:
            ev.append(['close'])
            closed[0] = True
    if rng.random() < 0.9:
        app()
        ev.append(['idle'])
    for c in range(nconn):
        app()
        while rng.random() < 0.3:
            ev.append(['refuse'])
            app()
            ev.append(['adv', rng.choice([1, 1, 2])])
            app()
        ev.append(['ok'])
        app()
        frames = []
        r = rng.random()
        if r < 0.85:
            frames.append(P.msginfo(rng.choice(['hp', 'bröker']), bytes(rng.randrange(256) for _ in range(4))))
        for _ in range(rng.choice([0, 1, 2, 4])):
            q = rng.random()
            if q < 0.75:
                frames.append(P.msgpublish(rng.choice(['a', 'ü']), rng.choice(TOPICS), bytes(rng.randrange(256) for _ in range(rng.randint(0, 12)))))
            elif q < 0.82:
                frames.append(P.msgerror('nope'))
            elif q < 0.88:
                frames.append(P.msginfo('again', b'\x01\x02\x03\x04'))
            elif q < 0.94:
                frames.append(rng.choice([P.msgsubscribe('i', 'c'), P.msgauth(b'1234', 'i', 's'), struct.pack('!iB', 3, 7) + b'x']))
            else:
                frames.append(P.msghdr(3, b'\x05ab'))
        data = b''.join(frames)
        if rng.random() < 0.25:
            data = data[:rng.randrange(0, len(data) + 1)]       # the connection dies mid-frame
        for ch in cut(rng, data):
            ev.append(['data', k, jbytes(ch)])
            app()
        ev.append(['lost', k])
        if rng.random() < 0.4:
            app()                       # the window before the reconnect task notices
        ev.append(['idle'])
        k += 1
    app()
    for _ in range(rng.randint(0, 2)):
        ev.append(rng.choice([['idle'], ['adv', 1], ['read']]))
    ev.append(['idle'])
    return ev


import struct  # noqa
