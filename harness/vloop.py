"""A virtual-time asyncio event loop that is stepped by hand (no sockets, no real sleeping)."""
import asyncio
import selectors
import signal


class Hang(BaseException):
    """raised by the watchdog inside code that does not return"""


class FakeSelector(selectors.BaseSelector):
    def __init__(self):
        self._m = {}

    def register(self, f, e, d=None):
        k = selectors.SelectorKey(f, f if isinstance(f, int) else f.fileno(), e, d)
        self._m[k.fd] = k
        return k

    def unregister(self, f):
        return self._m.pop(f if isinstance(f, int) else f.fileno(), None)

    def select(self, timeout=None):
        return []

    def get_map(self):
        return self._m


class VLoop(asyncio.SelectorEventLoop):
    def __init__(self):
        super().__init__(selector=FakeSelector())
        self._vt = 0.0
        self.errors = []        # what reached the loop's exception handler
        self.set_exception_handler(lambda loop, ctx: self.errors.append(ctx))

    def time(self):
        return self._vt

    def idle(self, limit=20000):
        """run until no ready callbacks and no timer due"""
        asyncio.events._set_running_loop(self)
        try:
            for _ in range(limit):
                due = self._scheduled and self._scheduled[0]._when <= self._vt
                if not self._ready and not due:
                    return
                self._run_once()
            raise Hang('event loop livelock')
        finally:
            asyncio.events._set_running_loop(None)

    def call(self, fn, *a):
        """make one callback the way the loop would: with this loop running"""
        asyncio.events._set_running_loop(self)
        try:
            return fn(*a)
        finally:
            asyncio.events._set_running_loop(None)

    def advance(self, dt):
        target = self._vt + dt
        while True:
            self.idle()
            nxt = [h._when for h in self._scheduled if not h._cancelled]
            if nxt and min(nxt) <= target:
                self._vt = max(self._vt, min(nxt))
                continue
            self._vt = target
            self.idle()
            return

    def shutdown(self):
        try:
            for h in list(self._scheduled):
                h.cancel()
            self._ready.clear()
            self.close()
        except Exception:
            pass


class Watchdog:
    """SIGALRM-based: raises Hang inside the running code after `secs`."""

    def __init__(self, secs=10.0):
        self.secs = secs

    def _fire(self, *a):
        raise Hang('watchdog: callback did not return within %ss' % self.secs)

    def __enter__(self):
        self.old = signal.signal(signal.SIGALRM, self._fire)
        signal.setitimer(signal.ITIMER_REAL, self.secs)
        return self

    def __exit__(self, *a):
        signal.setitimer(signal.ITIMER_REAL, 0)
        signal.signal(signal.SIGALRM, self.old)
        return False
