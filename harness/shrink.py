"""shrink.py — delta debugging of a failing case down to a short event list.

A case is shrunk only along its 'events' list (the other fields - store contents, names, identities - stay); a candidate
is kept when the property's own replay() still reports a failure of the same kind (same text up to the first digit run
is too strict, different text altogether too loose: the comparison key is the failure text with numbers and quoted
strings removed).  The result is a replay that a person can read; the original case is kept next to it.
"""
import copy
import re
import time


def key(text):
    if not text:
        return None
    t = re.sub(r"'[^']*'|\"[^\"]*\"", "''", str(text))
    t = re.sub(r'\[[^\]]*\]', '[]', t)
    t = re.sub(r'\d+', 'N', t)
    return t[:120]


def ddmin(events, fails, budget_s=60.0, max_tests=400):
    """classic ddmin on a list; fails(list) -> bool"""
    t0 = time.time()
    tests = [0]

    def ok(cand):
        if time.time() - t0 > budget_s or tests[0] >= max_tests:
            return False
        tests[0] += 1
        try:
            return fails(cand)
        except Exception:
            return False
    n = 2
    cur = list(events)
    while len(cur) >= 2:
        size = max(1, len(cur) // n)
        chunks = [cur[i:i + size] for i in range(0, len(cur), size)]
        reduced = False
        for i in range(len(chunks)):
            cand = [e for j, c in enumerate(chunks) if j != i for e in c]
            if cand and ok(cand):
                cur = cand
                n = max(n - 1, 2)
                reduced = True
                break
        if not reduced:
            if size == 1:
                break
            n = min(len(cur), n * 2)
        if time.time() - t0 > budget_s or tests[0] >= max_tests:
            break
    return cur, tests[0]


def shrink_case(mod, ctx, case, what, budget_s=60.0):
    """-> (smaller case or None, info).  Only for cases with an 'events' list and modules with replay()."""
    if not isinstance(case, dict) or not isinstance(case.get('events'), list) or not hasattr(mod, 'replay'):
        return None, None
    want = key(what)
    try:
        base = mod.replay(ctx, copy.deepcopy(case))
    except Exception:
        return None, None
    if key(base) != want:
        return None, dict(note='the stored case does not reproduce the same failure through replay(); not shrunk')

    def fails(evs):
        c = copy.deepcopy(case)
        c['events'] = evs
        return key(mod.replay(ctx, c)) == want
    small, tests = ddmin(case['events'], fails, budget_s=budget_s)
    if len(small) >= len(case['events']):
        return None, dict(tests=tests, note='no smaller event list reproduces it')
    c = copy.deepcopy(case)
    c['events'] = small
    return c, dict(tests=tests, events_before=len(case['events']), events_after=len(small), what=mod.replay(ctx, copy.deepcopy(c)))
