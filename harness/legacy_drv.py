"""Driver for the legacy blocking hpfeeds.client.Client over a scripted socket."""
import socket
import zlib

from common import fp, jbytes, unjbytes, coq_bytes, coq_segs

import hpfeeds.protocol as P
import hpfeeds.client as hc


class ScriptEnd(BaseException):
    pass


def _ad(s):
    return zlib.adler32(s.encode('latin-1')) & 0xffffffff


class Env:
    def __init__(self, conn, recv, send, stop_after):
        self.conn, self.recv, self.send = list(conn), list(recv), list(send)
        self.stop_after = stop_after
        self.trace = []
        self.log = []           # everything the oracles need: ('att',) ('conn',k) ('recvcall',k) ('recv',k,data) ('send',k,frame) ...
        self.k = 0
        self.msgs = 0
        self.client = None


class FakeSock:
    def __init__(self, env):
        self.env = env
        self.ok = False
        self.k = None

    def settimeout(self, t):
        pass

    def setsockopt(self, *a):
        pass

    def close(self):
        pass

    def connect(self, addr):
        e = self.env
        if not e.conn:
            e.trace.append('end')
            raise ScriptEnd()
        e.trace.append('att')
        e.log.append(('att',))
        if e.conn.pop(0):
            self.ok = True
            e.k += 1
            self.k = e.k
            e.trace.append('conn%d' % self.k)
            e.log.append(('conn', self.k))
        else:
            raise socket.error('connection refused')

    def recv(self, n):
        e = self.env
        if not self.ok:
            raise socket.error('not connected')
        e.log.append(('recvcall', self.k))
        if not e.recv:
            e.trace.append('end')
            raise ScriptEnd()
        r = e.recv.pop(0)
        if r[0] == 'data':
            e.log.append(('recv', self.k, unjbytes(r[1])))
            return unjbytes(r[1])
        if r[0] == 'timeout':
            raise socket.timeout('timed out')
        if r[0] == 'eof':
            return b''
        raise socket.error('connection reset')

    def sendall(self, data):
        e = self.env
        ok = e.send.pop(0) if e.send else True
        if not ok:
            e.trace.append('sendfail%d' % self.k)
            e.log.append(('sendfail', self.k))
            raise socket.error('broken pipe')
        e.log.append(('send', self.k, bytes(data)))
        op = data[4]
        body = data[5:]
        n = body[0]
        if op == P.OP_AUTH:
            import hashlib
            dg = bytes(body[1 + n:])
            used = [c for c in e.candidates if hashlib.sha1(c + e.secret.encode()).digest() == dg]
            e.trace.append('A%d:%s' % (self.k, fp(used[0]) if used else '?'))
        elif op == P.OP_SUBSCRIBE:
            e.trace.append('S%d:%s' % (self.k, fp(body[1 + n:])))
        else:
            e.trace.append('X%d:%d' % (self.k, op))


def drive(case, ident='ident', secret='secret'):
    """case: dict(conn=[bool], recv=[[kind, jbytes?]], send=[bool], subs=[jbytes], stop_after=int|None)
    -> (canonical trace hashes, env, raw trace)"""
    import hashlib
    env = Env(case['conn'], case['recv'], case['send'], case.get('stop_after'))
    env.secret = secret
    env.candidates = [unjbytes(c) for c in case.get('nonces', [])]
    real_gai, real_sleep = socket.getaddrinfo, hc.time.sleep

    def gai(host, port, fam=0, typ=0, *a):
        return [(socket.AF_INET, socket.SOCK_STREAM, 6, '', ('127.0.0.1', port))]
    hc.socket.getaddrinfo = gai
    hc.time.sleep = lambda s: env.trace.append('sleep')
    import logging
    logging.getLogger('pyhpfeeds').disabled = True

    class C(hc.Client):
        def makesocket(self, fam):
            return FakeSock(env)

        def send(self, data):
            # record which nonce the AUTH answers: recompute the digest for the rand the client parsed
            return super().send(data)

    def on_msg(i, c, d):
        env.msgs += 1
        env.trace.append('M%s/%s/%s' % (fp(i.encode()), fp(c.encode()), fp(bytes(d))))
        env.log.append(('msg', i, c, bytes(d)))
        if env.stop_after is not None and env.msgs >= env.stop_after:
            env.log.append(('stop',))
            env.client.stop()

    def on_err(e):
        env.trace.append('E%s' % fp(e.encode()))
        env.log.append(('err', e))
    outcome = None
    try:
        # subscriptions are made before run(); the constructor connects first
        cl = C.__new__(C)
        env.client = cl
        try:
            hc.Client.__init__(cl, 'broker.invalid', 10000, ident, secret, timeout=3, reconnect=True, sleepwait=20)
            for t in case['subs']:
                cl.subscribe(unjbytes(t).decode())
            cl.run(on_msg, on_err)
            env.trace.append('return')
            outcome = 'return'
        except ScriptEnd:
            outcome = 'end'
        except Exception as e:  # noqa
            env.trace.append('crash')
            outcome = 'crash:%s' % type(e).__name__
    finally:
        hc.socket.getaddrinfo = real_gai
        hc.time.sleep = real_sleep
    return env, outcome


def canon(trace):
    """hash list as coq/ClientRun.v canon_lev (runs of SUBSCRIBE sends are order-insensitive: set iteration)"""
    out, run = [], None
    for e in trace:
        if e.startswith('S') and not e.startswith('sendfail') and not e.startswith('sleep'):
            run = ((run if run is not None else 7) + _ad(e)) & 0xffffffff
        else:
            if run is not None:
                out.append(run)
                run = None
            out.append(_ad(e))
    if run is not None:
        out.append(run)
    return out


def expr(case, fuel):
    def r(x):
        if x[0] == 'data':
            return 'CData %s' % coq_segs(unjbytes(x[1]))
        return {'timeout': 'CTimeout', 'eof': 'CEof', 'err': 'CErr'}[x[0]]
    b = lambda v: 'true' if v else 'false'  # noqa
    sa = 'None' if case.get('stop_after') is None else 'Some %d%%nat' % case['stop_after']
    return 'run_legacy [%s] [%s] [%s] [%s] (%s) %d' % (
        '; '.join(b(x) for x in case['conn']), '; '.join(r(x) for x in case['recv']), '; '.join(b(x) for x in case['send']),
        '; '.join(coq_bytes(unjbytes(t)) for t in case['subs']), sa, fuel)


def gen_case(rng):
    """connect outcomes x handshake variants (INFO whole / split across recvs / other opcode / garbage / timeout / EOF) x
    run traffic (publishes, errors, junk, timeouts, EOF, errors) x send failures x stop() from the callback"""
    from wire import cut
    conn, recv, send, nonces = [], [], [], []
    nconn = rng.choice([1, 2, 3, 4])
    for c in range(nconn):
        while rng.random() < 0.25:
            conn.append(False)
        conn.append(True)
        nonce = bytes(rng.randrange(256) for _ in range(4))
        nonces.append(nonce)
        info = P.msginfo(rng.choice(['hp', 'bröker']), nonce)
        r = rng.random()
        if r < 0.6:
            first = info
        elif r < 0.72:
            first = info[:rng.randrange(1, len(info))]             # OP_INFO split across two reads: the handshake fails
        elif r < 0.8:
            first = info + P.msgpublish('a', 'c1', b'early')       # more than OP_INFO in the first read
        elif r < 0.86:
            first = P.msgerror('go away')
        elif r < 0.9:
            first = bytes(rng.randrange(256) for _ in range(rng.randint(1, 9)))
        else:
            first = None
        if first is None:
            recv.append([rng.choice(['timeout', 'eof', 'err'])])
            continue
        recv.append(['data', jbytes(first)])
        if first is not info and not first.startswith(info):
            continue
        frames = []
        for _ in range(rng.choice([0, 1, 2, 4])):
            q = rng.random()
            if q < 0.7:
                frames.append(P.msgpublish(rng.choice(['a', 'ü']), rng.choice(['c1', 'c2']), bytes(rng.randrange(256) for _ in range(rng.randint(0, 9)))))
            elif q < 0.85:
                frames.append(P.msgerror(rng.choice(['accessfail', 'bad'])))
            elif q < 0.92:
                frames.append(P.msginfo('again', b'abcd'))
            else:
                frames.append(struct.pack('!iB', 3, 9) + b'x')
        data = b''.join(frames)
        for ch in cut(rng, data) if data else []:
            if not ch:
                continue                # recv() returning b'' IS end-of-file for a blocking socket
            recv.append(['data', jbytes(ch)])
            if rng.random() < 0.15:
                recv.append(['timeout'])
        recv.append([rng.choice(['eof', 'err', 'eof'])])
    subs = rng.sample(['c1', 'c2', 'ü/x'], rng.randint(0, 3))
    if rng.random() < 0.12:
        send = [rng.random() < 0.7 for _ in range(rng.randint(1, 4))]
        subs = subs[:1]
    stop_after = rng.choice([None, None, 1, 2, 3])
    return dict(conn=conn, recv=recv, send=send, subs=[jbytes(t.encode()) for t in subs], stop_after=stop_after,
                nonces=[jbytes(n) for n in nonces + [b'abcd']])


import struct  # noqa


def fuel(case):
    """enough steps of coq/LegacyClient.v lstep for the whole script (each answer is consumed by one step; a connection
    costs a bounded number of bookkeeping steps on top)"""
    return (len(case['conn']) + len(case['recv'])) * (len(case['subs']) + 6) + 20
