"""Driver for the real broker (hpfeeds.broker.server.Server + connection.Connection) on simulated
transports inside a hand-stepped virtual-time asyncio loop; generators of histories; rendering of
cases as Gallina expressions for coq/BrokerRun.v.

A case (JSON-able):
  dict(name=<jbytes>, db=[[ident_j, None | [secret_j, [pub_j..] | None, [sub_j..] | None]]], async_=bool,
       events=[['C', q, nonce_j] | ['D', q, chunk_j] | ['E', q] | ['L', q] | ['R', q, 'row'|'none'|'raise', row?]
               | ['PW', q] | ['RW', q] | ['T', n] | ['S', ident_j, None | row]])   (S: the credential store's entry for ident is replaced / removed)
"""
import asyncio
import hashlib
import os
import re
import struct

import envshim  # noqa  (must come before hpfeeds.broker)
from common import fp, jbytes, unjbytes, coq_bytes, coq_segs
from vloop import VLoop, Watchdog, Hang

import hpfeeds.protocol as P
from hpfeeds.broker import prometheus
from hpfeeds.broker.connection import Connection
from hpfeeds.broker.server import Server


# ------------------------------------------------------------------------------------------------
# simulated transport: asyncio's selector-transport contract, adversarial about the closing window
# ------------------------------------------------------------------------------------------------
ASPECTS = 'DWFRGAB'


class SimTransport:
    def __init__(self, q):
        self.q = q
        self.closing = False
        self.lost = False
        self.aborted = False
        self.rpaused = False
        self.wpaused = False
        self.out = bytearray()
        self.writes = []          # (event index, bytes) for the oracles
        self.closed_at = None
        self.now = None

    def get_extra_info(self, k, default=None):
        if k == 'peername':
            return ('127.0.0.1', 10000 + self.q)
        return default

    def write(self, d):
        if self.lost or self.aborted:
            return                      # asyncio drops writes once _conn_lost is set
        self.out.extend(d)              # accepted also after close(): the send buffer may be non-empty
        self.writes.append(bytes(d))

    def close(self):
        if not self.closing:
            self.closing = True
            self.closed_at = self.now() if self.now else None

    def is_closing(self):
        return self.closing

    def pause_reading(self):
        if self.closing or self.rpaused:
            return
        self.rpaused = True

    def resume_reading(self):
        if self.closing or not self.rpaused:
            return
        self.rpaused = False

    def set_write_buffer_limits(self, high=None, low=None):
        pass

    def get_write_buffer_size(self):
        # above the high-water mark between pause_writing and resume_writing (that is what asyncio's flow control
        # means), and a closed transport whose buffer was not drained keeps it until the loss is reported
        return 70000 if (self.wpaused and not self.lost) else 0

    def abort(self):
        self.aborted = True
        self.close()

    def can_read(self):
        return not self.closing and not self.rpaused and not self.lost


class FutStore:
    """credential store whose answers the driver completes (asynchronous) or that answers at once"""

    def __init__(self, db, async_, loop):
        self.db = db
        self.async_ = async_
        self.loop = loop
        self.cur = None                 # connection index being served (set by the driver)
        self.pending = {}               # q -> [future]

    def get_authkey(self, ident):
        if self.async_:
            f = self.loop.create_future()
            self.pending.setdefault(self.cur, []).append(f)
            return f
        return self.db.get(ident)

    async def start(self):
        pass


def samples(metric):
    """(name, labels, value) triples whatever the prometheus_client version"""
    out = []
    for m in metric.collect():
        for smp in m.samples:
            if isinstance(smp, tuple):
                out.append((smp[0], smp[1], smp[2]))
            else:
                out.append((smp.name, smp.labels, smp.value))
    return out


def split_frames(data):
    """independent frame splitter for what the broker wrote"""
    out, off = [], 0
    while len(data) - off >= 5:
        ml, op = struct.unpack('!iB', data[off:off + 5])
        if ml < 5 or len(data) - off < ml:
            break
        out.append((op, bytes(data[off + 5:off + ml])))
        off += ml
    return out, bytes(data[off:])


def show_wframe(op, body):
    if op == P.OP_ERROR:
        return 'E'
    if op == P.OP_INFO:
        n = body[0]
        return 'I%s/%s' % (fp(body[1:1 + n]), fp(body[1 + n:]))
    if op == P.OP_PUBLISH:
        n = body[0]
        i, rest = body[1:1 + n], body[1 + n:]
        m = rest[0]
        return 'P%s/%s/%s' % (fp(i), fp(rest[1:1 + m]), fp(rest[1 + m:]))
    return 'U%d:%s' % (op, fp(body))


def tostr(b):
    return bytes(b).decode('utf-8')


def mkrow(ident, row):
    if row is None:
        return None
    secret, pub, sub = row
    d = dict(secret=tostr(secret), owner='o')
    if pub is not None:
        d['pubchans'] = [tostr(c) for c in pub]
    if sub is not None:
        d['subchans'] = [tostr(c) for c in sub]
    return d


class Driver:
    def __init__(self, case):
        self.case = case
        self.loop = VLoop()
        asyncio.set_event_loop(self.loop)
        prometheus.reset()
        db = {}
        for ij, row in case['db']:
            ident = tostr(unjbytes(ij))
            db[ident] = mkrow(ident, None if row is None else
                              (unjbytes(row[0]), None if row[1] is None else [unjbytes(c) for c in row[1]],
                               None if row[2] is None else [unjbytes(c) for c in row[2]]))
        self.store = FutStore(db, case.get('async_', False), self.loop)
        self.server = Server(auth=self.store, name=tostr(unjbytes(case['name'])))
        self.conns = {}
        self.order = []
        self.trace = []           # per event: dict for the oracles
        self.problems = []        # hangs, nonce misuse

    # -- one event ------------------------------------------------------------------------------
    def apply(self, ev):
        k = ev[0]
        rec = dict(ev=ev, delivered=True, raised=None, errors_before=len(self.loop.errors), time_before=self.loop.time())
        if k == 'S':
            # the credential store changes between two callbacks (rotation of a secret, removal, other channel lists):
            # a NEW row object, as a reload of the JSON / sqlite / memory store would produce
            ident = tostr(unjbytes(ev[1]))
            row = ev[2]
            if row is None:
                self.store.db.pop(ident, None)
            else:
                self.store.db[ident] = mkrow(ident, (unjbytes(row[0]), None if row[1] is None else [unjbytes(c) for c in row[1]],
                                                     None if row[2] is None else [unjbytes(c) for c in row[2]]))
            self._idle(rec, 0)
            rec['loop_errors'] = len(self.loop.errors)
            rec['state'] = self.show_state()
            rec['asp'] = self.aspects()
            rec['snap'] = self.snapshot()
            rec['gauges'] = self.gauges()
            rec['time'] = self.loop.time()
            self.trace.append(rec)
            return rec
        if ev[0] != 'T' and ev[1] in self.conns:
            rec['pending_before'] = len(self.store.pending.get(ev[1]) or [])
        q = ev[1] if k != 'T' else None
        if k == 'C':
            if q in self.conns:
                rec['delivered'] = False
            else:
                nonce = unjbytes(ev[2])
                calls = []
                real = os.urandom

                def fake(n):
                    calls.append(n)
                    return nonce
                os.urandom = fake
                try:
                    c = Connection(self.server)
                finally:
                    os.urandom = real
                if calls != [4] or bytes(c.authrand) != nonce:
                    self.problems.append('connection %d: nonce not drawn as os.urandom(4) (calls=%r)' % (q, calls))
                t = SimTransport(q)
                t.now = self.loop.time
                self.conns[q] = (c, t)
                self.order.append(q)
                self.store.cur = q
                self._call(rec, c.connection_made, t)
        elif q not in self.conns:
            rec['delivered'] = False
        else:
            c, t = self.conns[q]
            self.store.cur = q
            if k == 'D':
                if t.can_read():
                    self._call(rec, c.data_received, unjbytes(ev[2]))
                    if rec['raised']:
                        t.abort()
                else:
                    rec['delivered'] = False
            elif k == 'E':
                if t.can_read():
                    r = self._call(rec, c.eof_received)
                    if rec['raised']:
                        t.abort()
                    elif not r:
                        t.close()
                else:
                    rec['delivered'] = False
            elif k == 'L':
                if not t.lost:
                    t.close()
                    self._call(rec, c.connection_lost, None)   # an exception here only reaches the loop's handler
                    t.lost = True
                else:
                    rec['delivered'] = False
            elif k == 'R':
                futs = self.store.pending.get(q) or []
                if futs and futs[0].done():
                    # the broker itself cancelled the lookup it had asked the store for: nothing to complete
                    futs.pop(0)
                    rec['delivered'] = False
                    rec['cancelled_by_broker'] = True
                elif futs:
                    f = futs.pop(0)
                    if ev[2] == 'raise':
                        f.set_exception(RuntimeError('lookup failed'))
                    elif ev[2] == 'none':
                        f.set_result(None)
                    else:
                        row = ev[3]
                        f.set_result(mkrow(None, (unjbytes(row[0]), None if row[1] is None else [unjbytes(x) for x in row[1]],
                                                  None if row[2] is None else [unjbytes(x) for x in row[2]])))
                else:
                    rec['delivered'] = False
            elif k == 'PW':
                if not t.lost and not t.wpaused:
                    t.wpaused = True
                    self._call(rec, c.pause_writing)
                else:
                    rec['delivered'] = False
            elif k == 'RW':
                if not t.lost and t.wpaused:
                    t.wpaused = False
                    self._call(rec, c.resume_writing)
                else:
                    rec['delivered'] = False
            elif k == 'RWPW':
                # the buffer drains and fills again within one pass of the event loop
                if not t.lost:
                    if t.wpaused:
                        self._call(rec, c.resume_writing)
                    t.wpaused = True
                    self._call(rec, c.pause_writing)
                else:
                    rec['delivered'] = False
        if k == 'T':
            for _ in range(ev[1]):
                self._idle(rec, 1.0)
        else:
            self._idle(rec, 0)
        rec['loop_errors'] = len(self.loop.errors)
        if ev[0] != 'T' and ev[1] in self.conns:
            rec['pending_after'] = len(self.store.pending.get(ev[1]) or [])
        rec['state'] = self.show_state()
        rec['asp'] = self.aspects()
        rec['snap'] = self.snapshot()
        rec['gauges'] = self.gauges()
        rec['time'] = self.loop.time()
        self.trace.append(rec)
        return rec

    def _call(self, rec, fn, *a):
        try:
            with Watchdog(20.0):
                return self.loop.call(fn, *a)
        except Hang as e:
            rec['raised'] = 'Hang'
            self.problems.append('event %r: %s' % (rec['ev'][:2], e))
        except Exception as e:  # noqa
            rec['raised'] = '%s: %s' % (type(e).__name__, e)
        return None

    def _idle(self, rec, dt):
        try:
            with Watchdog(20.0):
                if dt:
                    self.loop.advance(dt)
                else:
                    self.loop.idle()
        except Hang as e:
            rec['raised'] = 'Hang'
            self.problems.append('event %r: %s' % (rec['ev'][:2], e))

    # -- observation ----------------------------------------------------------------------------
    def frames_of(self, q):
        return split_frames(self.conns[q][1].out)[0]

    def show_conn(self, q):
        c, t = self.conns[q]
        ak = '-' if c.ak is None else fp(c.ak.encode('utf-8'))
        act = ';'.join(fp(x.encode('utf-8')) for x in c.active_subscriptions)
        return '%d:%d:%d%d%d:%s:%d:%d:{%s}' % (
            q, len(self.frames_of(q)), t.closing, t.rpaused, c in self.server.connections, ak,
            len(self.store.pending.get(q) or []), len(c.unpacker.buf), act)

    def show_state(self):
        idx = {id(c): q for q, (c, t) in self.conns.items()}
        reg = []
        for chan, lst in self.server.subscriptions.items():
            if lst:
                reg.append('%s=%s' % (fp(chan.encode('utf-8')), ','.join(str(idx.get(id(x), -1)) for x in lst)))
        subs = []
        for name, labels, value in samples(prometheus.SUBSCRIPTIONS):
            subs.append('%s/%s=%d' % (fp(labels['ident'].encode('utf-8')), fp(labels['chan'].encode('utf-8')), int(value)))
        lost = 0
        for name, labels, value in samples(prometheus.CONNECTION_LOST):
            if not name.endswith('_created'):
                lost += int(value)
        g = '%d,%d,%d,{%s}' % (int(prometheus.CLIENT_CONNECTIONS._value.get()), int(prometheus.CONNECTION_MADE._value.get()),
                               lost, ';'.join(subs))
        return '%s|R{%s}|G%s' % (' '.join(self.show_conn(q) for q in self.order), ';'.join(reg), g)

    def snapshot(self):
        """structured view for the oracles"""
        snap = {}
        for q in self.order:
            c, t = self.conns[q]
            snap[q] = dict(nframes=len(self.frames_of(q)), closing=t.closing, lost=t.lost, aborted=t.aborted,
                           rpaused=t.rpaused, open=c in self.server.connections, ak=c.ak,
                           active=sorted(c.active_subscriptions),
                           registered=sorted(ch for ch, lst in self.server.subscriptions.items() if any(x is c for x in lst)),
                           closed_at=t.closed_at,
                           store_pending=sum(1 for fs in self.store.pending.values() for f in fs if not f.done()))
        return snap

    def gauges(self):
        subs = {}
        for n, l, v in samples(prometheus.SUBSCRIPTIONS):
            subs[(l['ident'], l['chan'])] = int(v)
        lost = sum(int(v) for n, l, v in samples(prometheus.CONNECTION_LOST) if not n.endswith('_created'))
        return dict(conn=int(prometheus.CLIENT_CONNECTIONS._value.get()), made=int(prometheus.CONNECTION_MADE._value.get()),
                    lost=lost, subs=subs)

    def show_outs(self):
        return ['%d=[%s]' % (q, ','.join(show_wframe(o, b) for o, b in self.frames_of(q))) for q in self.order]

    def aspects(self):
        """the seven aspect strings of coq/BrokerRun.v (D W F R G A B), set-like parts hashed commutatively"""
        def per(f):
            return ' '.join('%d:%s' % (q, f(q, *self.conns[q])) for q in self.order)
        frames = {q: self.frames_of(q) for q in self.order}
        D = per(lambda q, c, t: ','.join(show_wframe(o, b) for o, b in frames[q] if o == P.OP_PUBLISH))
        W = per(lambda q, c, t: ','.join(show_wframe(o, b) for o, b in frames[q]))
        F = per(lambda q, c, t: '%d%d' % (t.closing, c in self.server.connections))
        idx = {id(c): q for q, (c, t) in self.conns.items()}
        reg = []
        for chan, lst in self.server.subscriptions.items():
            if lst:
                reg.append('%s=%d' % (fp(chan.encode('utf-8')), hmembers([idx.get(id(x), 10 ** 6) for x in lst])))
        R = per(lambda q, c, t: '{%d}' % hset(fp(x.encode('utf-8')) for x in c.active_subscriptions)) + '|R{%d}' % hset(reg)
        subs = ['%s/%s=%d' % (fp(l['ident'].encode('utf-8')), fp(l['chan'].encode('utf-8')), int(v))
                for n, l, v in samples(prometheus.SUBSCRIPTIONS)]
        lost = sum(int(v) for n, l, v in samples(prometheus.CONNECTION_LOST) if not n.endswith('_created'))
        G = '%d,%d,%d,{%d}' % (int(prometheus.CLIENT_CONNECTIONS._value.get()), int(prometheus.CONNECTION_MADE._value.get()),
                               lost, hset(subs))
        A = per(lambda q, c, t: '-' if c.ak is None else fp(c.ak.encode('utf-8')))
        B = per(lambda q, c, t: '%d:%d:%d' % (t.rpaused, len(self.store.pending.get(q) or []), len(c.unpacker.buf)))
        return [D, W, F, R, G, A, B]

    def run(self):
        try:
            for ev in self.case['events']:
                self.apply(ev)
            obs = [r['state'] for r in self.trace] + ['$'] + self.show_outs()
        finally:
            self.loop.shutdown()
            asyncio.set_event_loop(None)
        return obs


def drive(case):
    """-> (per-event list of 7 aspect fingerprints, driver)"""
    d = Driver(case)
    d.run()
    return [[_ad(x) for x in r['asp']] for r in d.trace], d


def reshape(flat):
    """the model prints 7 numbers per event in one flat list"""
    return [flat[i:i + 7] for i in range(0, len(flat), 7)]


def first_diff(impl, model, aspects=ASPECTS):
    """-> (event index, aspect letter) of the first difference within the chosen aspects, or None"""
    if len(impl) != len(model):
        return (min(len(impl), len(model)), '#')
    for k, (a, b) in enumerate(zip(impl, model)):
        for j, letter in enumerate(ASPECTS):
            if letter in aspects and a[j] != b[j]:
                return (k, letter)
    return None


# canonical form: order inside {...} is immaterial (sets / dict order); registry member lists sorted
def canon(obs):
    if isinstance(obs, list):
        return [canon(x) for x in obs]

    def fix(m):
        items = [x for x in m.group(1).split(';') if x]
        out = []
        for it in items:
            if '=' in it and re.match(r'^[0-9.]+=[-0-9,]*$', it):
                k, v = it.split('=')
                v = ','.join(sorted(v.split(','), key=lambda z: int(z) if z else 0))
                it = k + '=' + v
            out.append(it)
        return '{' + ';'.join(sorted(out)) + '}'
    return re.sub(r'\{([^{}]*)\}', fix, obs)


def _ad(x):
    import zlib
    return zlib.adler32(x.encode('latin-1')) & 0xffffffff


def hset(items):
    return sum(_ad(x) for x in items) & 0xffffffff


def hmembers(lst):
    return sum((q + 1) * (q + 1) * 2654435761 for q in lst) & 0xffffffff




# ------------------------------------------------------------------------------------------------
# Gallina rendering
# ------------------------------------------------------------------------------------------------
def coq_row(row):
    if row is None:
        return 'None'
    s, p, sb = row
    lst = lambda l: '[' + '; '.join(coq_bytes(unjbytes(c)) for c in (l or [])) + ']'  # noqa
    return 'Some (%s, %s, %s)' % (coq_bytes(unjbytes(s)), lst(p), lst(sb))


def coq_event(ev):
    k = ev[0]
    if k == 'C':
        return 'CConnect %d %s' % (ev[1], coq_bytes(unjbytes(ev[2])))
    if k == 'D':
        return 'CData %d %s' % (ev[1], coq_segs(unjbytes(ev[2])))
    if k == 'E':
        return 'CPeerClosed %d' % ev[1]
    if k == 'L':
        return 'CLost %d' % ev[1]
    if k == 'R':
        if ev[2] == 'raise':
            return 'CDoneRaise %d' % ev[1]
        if ev[2] == 'none':
            return 'CDoneNone %d' % ev[1]
        s, p, sb = ev[3]
        lst = lambda l: '[' + '; '.join(coq_bytes(unjbytes(c)) for c in (l or [])) + ']'  # noqa
        return 'CDoneRow %d %s %s %s' % (ev[1], coq_bytes(unjbytes(s)), lst(p), lst(sb))
    if k == 'PW':
        return 'CPauseW %d' % ev[1]
    if k == 'RW':
        return 'CResumeW %d' % ev[1]
    if k == 'RWPW':
        return 'CResumePause %d' % ev[1]
    if k == 'T':
        return 'CTick %d' % ev[1]
    if k == 'S':
        return 'CStore %s (%s)' % (coq_bytes(unjbytes(ev[1])), coq_row(ev[2]))
    raise ValueError(ev)


def expr_case(case, full=False):
    db = '[' + '; '.join('(%s, %s)' % (coq_bytes(unjbytes(i)), coq_row(r)) for i, r in case['db']) + ']'
    evs = '[' + '; '.join(coq_event(e) for e in case['events']) + ']'
    return '%s %s %s %s %s' % ('run_broker_full' if full else 'run_broker', coq_bytes(unjbytes(case['name'])), db,
                                       'true' if case.get('async_') else 'false', evs)


# ------------------------------------------------------------------------------------------------
# generators
# ------------------------------------------------------------------------------------------------
CHANS = ['x', 'y', 'xx', 'x/é', '', 'X', 'z']
DB_TABLES = [
    # ident -> (secret, pubchans, subchans); None list = key missing from the row
    {'alice': ('s3cret', ['x', 'y'], ['x', 'y', 'x/é']),
     'bob': ('hunter2', ['x'], ['y', 'x']),
     'carol': ('c', [], ['x']),
     'ALICE': ('other', ['X'], ['X']),
     'ali': ('s3cret', ['z'], ['z']),
     'sensor': ('sens0r', ['x', 'z'], ['y']),
     '': ('empty', ['x'], ['x', '']),
     'dave': ('dé', None, None),
     'ghost': None},
    {'a': ('k', ['x', 'xx', ''], ['x', 'xx', '']),
     'b': ('k', ['x'], ['x']),
     'ü': ('pä', ['y'], ['y', 'x']),
     # a secret with whitespace at its edges is a secret like any other: its digest is over exactly these bytes
     # (and its stripped form is the secret of 'a' and 'b')
     'pad': (' k\n', ['x'], ['x', 'y'])},
]


def jdb(table):
    out = []
    for ident, row in table.items():
        if row is None:
            out.append([jbytes(ident.encode()), None])
        else:
            s, p, sb = row
            out.append([jbytes(ident.encode()), [jbytes(s.encode()),
                                                 None if p is None else [jbytes(c.encode()) for c in p],
                                                 None if sb is None else [jbytes(c.encode()) for c in sb]]])
    return out


def digest(nonce, secret):
    return hashlib.sha1(bytes(nonce) + secret.encode('utf-8')).digest()


def auth_frame(ident, dg):
    return P.msghdr(P.OP_AUTH, P.strpack8(ident) + dg)


def gen_payload(rng):
    k = rng.random()
    if k < 0.15:
        return b''
    if k < 0.85:
        return bytes(rng.randrange(256) for _ in range(rng.randint(1, 24)))
    return bytes([rng.randrange(256)]) * rng.randint(48, 400)


class Script:
    """frame-level script of one client connection"""

    def __init__(self, rng, table, q, nonce, role='mixed', other_nonce=None):
        self.rng = rng
        self.table = table
        self.q = q
        self.nonce = nonce
        self.other_nonce = other_nonce or b'\x00\x00\x00\x00'
        self.frames = []          # (kind, bytes)
        self.ident = None
        self.role = role
        self.reauth = 0.0

    def known(self):
        return [i for i, r in self.table.items() if r is not None]

    def add_auth(self, good=True):
        rng = self.rng
        ident = rng.choice(self.known())
        secret = self.table[ident][0]
        dg = digest(self.nonce, secret)
        if good:
            self.ident = ident
            self.frames.append(('auth-ok', auth_frame(ident, dg)))
            return
        k = rng.choice(['wrong-secret', 'other-nonce', 'prefix', 'empty', '19', '21', 'other-ident', 'unknown', 'missing',
                        'no-nonce', 'swapped'] + (['stripped'] * 4 if secret.strip() != secret else []))
        if k == 'wrong-secret':
            dg = digest(self.nonce, secret + 'x')
        elif k == 'other-nonce':
            dg = digest(self.other_nonce, secret)
        elif k == 'prefix':
            dg = dg[:rng.choice([1, 10, 19])]
        elif k == 'empty':
            dg = b''
        elif k == '19':
            dg = dg[:19]
        elif k == '21':
            dg = dg + bytes([rng.randrange(256)])
        elif k == 'other-ident':
            others = [i for i in self.known() if i != ident and self.table[i][0] != secret]
            if others:
                dg = digest(self.nonce, self.table[rng.choice(others)][0])
            else:
                dg = digest(self.nonce, secret + 'y')
        elif k == 'unknown':
            ident = rng.choice(['nobody', 'alic', 'Alice', 'alice ', 'ghost'])
        elif k == 'missing':
            ident = 'ghost' if 'ghost' in self.table else 'nobody'
        elif k == 'no-nonce':
            dg = hashlib.sha1(secret.encode()).digest()
        elif k == 'swapped':
            dg = hashlib.sha1(secret.encode() + self.nonce).digest()
        elif k == 'stripped':
            dg = digest(self.nonce, secret.strip())
        self.frames.append(('auth-' + k, auth_frame(ident, dg)))

    def add_op(self):
        rng = self.rng
        ident = self.ident if self.ident is not None else rng.choice(self.known())
        row = self.table.get(ident) or ('', [], [])
        pubs = row[1] or []
        subs = row[2] or []
        k = rng.random()
        adversarial = self.role != 'benign'
        if self.reauth and rng.random() < self.reauth:
            # a second, valid OP_AUTH under (usually) another identity: the broker accepts it and keeps the subscriptions
            self.add_auth(True)
            return
        if not adversarial:
            # a well-behaved client only asks for what it is allowed to
            if k < 0.30 and not subs:
                k = 0.5
            if 0.30 <= k < 0.45 and not subs:
                k = 0.5
            if k >= 0.45 and not pubs:
                if not subs:
                    return
                k = 0.1
        if adversarial and rng.random() < 0.12:
            # cross-use of the two lists: subscribe where only publishing is allowed, publish where only subscribing is -
            # right after having used the channel the permitted way
            only_pub = [c for c in pubs if c not in subs]
            only_sub = [c for c in subs if c not in pubs]
            if only_pub and (not only_sub or rng.random() < 0.5):
                c = rng.choice(only_pub)
                self.frames.append(('pub', P.msgpublish(ident, c, gen_payload(rng))))
                self.frames.append(('sub', P.msgsubscribe(ident, c)))
                return
            if only_sub:
                c = rng.choice(only_sub)
                self.frames.append(('sub', P.msgsubscribe(ident, c)))
                self.frames.append(('pub', P.msgpublish(ident, c, gen_payload(rng))))
                return
        if k < 0.30:
            c = rng.choice(subs) if subs and (not adversarial or rng.random() < 0.85) else rng.choice(CHANS)
            self.frames.append(('sub', P.msgsubscribe(self.spoof(ident, 0.05 if adversarial else 0), c)))
        elif k < 0.45:
            c = rng.choice(subs) if subs and (not adversarial or rng.random() < 0.7) else rng.choice(CHANS)
            self.frames.append(('unsub', P.msgunsubscribe(ident, c)))
        elif k < 0.85 or not adversarial:
            c = rng.choice(pubs) if pubs and (not adversarial or rng.random() < 0.85) else rng.choice(CHANS)
            self.frames.append(('pub', P.msgpublish(self.spoof(ident, 0.08 if adversarial else 0), c, gen_payload(rng))))
        else:
            self.add_junk()

    def spoof(self, ident, p):
        rng = self.rng
        if rng.random() >= p:
            return ident
        return rng.choice([i for i in self.table] + [ident.upper(), ident[:-1], ident + ' ', ''])

    def add_junk(self):
        rng = self.rng
        k = rng.choice(['err', 'info', 'badop', 'toobig', 'small', 'neg', 'emptybody', 'badutf', 'trunc', 'random', 'reauth',
                        'impersonate', 'impersonate'])
        if k == 'impersonate':
            # a failed AUTH naming another existing identity, immediately followed (same chunk, usually) by requests
            # in that identity's name on channels of the connection's own and of the victim's lists
            me = self.ident if self.ident is not None else rng.choice(self.known())
            others = [i for i in self.known() if i != me] or [me]
            victim = rng.choice(others)
            vrow = self.table[victim]
            mrow = self.table.get(me) or ('', [], [])
            dg = digest(self.nonce, vrow[0] + rng.choice(['x', '']))[:rng.choice([20, 20, 19])]
            if dg == digest(self.nonce, vrow[0]):
                dg = dg[:19] + bytes([dg[19] ^ 1])
            burst = auth_frame(victim, dg)
            for _ in range(rng.randint(1, 3)):
                kind = rng.random()
                chans = (mrow[1] or []) + (vrow[1] or []) + (vrow[2] or []) + ['x']
                c = rng.choice(chans)
                if kind < 0.6:
                    burst += P.msgpublish(victim, c, gen_payload(rng))
                else:
                    burst += P.msgsubscribe(victim, c)
            self.frames.append(('junk-impersonate', burst))
            return
        if k == 'err':
            f = P.msgerror('boo')
        elif k == 'info':
            f = P.msginfo('x', b'1234')
        elif k == 'badop':
            f = struct.pack('!iB', 6, rng.choice([6, 7, 255])) + b'z'
        elif k == 'toobig':
            f = struct.pack('!iB', rng.choice([P.MAXBUF + 6, 2 ** 31 - 1, 282]), rng.choice([1, 2, 3, 4])) + b'zz'
        elif k == 'small':
            f = struct.pack('!iB', rng.choice([0, 1, 4]), rng.randrange(6)) + b'abc'
        elif k == 'neg':
            f = struct.pack('!iB', rng.choice([-1, -6, -2 ** 31]), rng.randrange(6)) + b'abc'
        elif k == 'emptybody':
            f = P.msghdr(rng.choice([2, 3, 4, 5]), b'')
        elif k == 'badutf':
            op = rng.choice([3, 4, 5])
            f = P.msghdr(op, b'\x02\xff\xfe' + b'x') if rng.random() < 0.5 else P.msghdr(op, b'\x01a' + b'\xc3')
        elif k == 'trunc':
            f = P.msghdr(3, b'\x05ab')         # length byte larger than what follows; second string missing
        elif k == 'random':
            f = bytes(rng.randrange(256) for _ in range(rng.randint(1, 14)))
        else:
            self.add_auth(good=rng.random() < 0.6)
            return
        self.frames.append(('junk-' + k, f))

    def stream(self):
        return b''.join(f for _, f in self.frames)


def gen_history(rng, nconn=None, async_=False, profile='mixed', table=None, nops=None, faults=None, chunking=None, reauth=0.0,
                scenario=None):
    """-> case dict and per-connection scripts.
    profile: 'benign' (only valid traffic, no faults), 'mixed' (mostly valid, some adversarial connections and
    faults), 'hostile' (mostly adversarial)."""
    from wire import cut
    if scenario == 'reauth_leave':
        return gen_reauth_leave(rng, async_=async_)
    if scenario == 'reauth_stale':
        return gen_reauth_stale(rng, async_=async_)
    if scenario == 'store_change':
        return gen_store_change(rng)
    if scenario == 'same_ident_inflight':
        return gen_same_ident_inflight(rng)
    table = table if table is not None else rng.choice(DB_TABLES)
    nconn = nconn or rng.choice([2, 2, 3, 3, 4, 5])
    name = rng.choice(['hpfeeds', 'b', 'bröker'])
    scripts = []
    nonces = [bytes(rng.randrange(256) for _ in range(4)) for _ in range(nconn)]
    p_adv = {'benign': 0.0, 'mixed': 0.25, 'hostile': 0.7}[profile]
    for q in range(nconn):
        role = 'adversarial' if rng.random() < p_adv else 'benign'
        sc = Script(rng, table, q, nonces[q], role, other_nonce=nonces[(q + 1) % nconn])
        sc.reauth = reauth
        k = rng.random()
        if role == 'benign' or k < 0.6:
            sc.add_auth(True)
        elif k < 0.9:
            sc.add_auth(False)
            if rng.random() < 0.5:
                sc.add_auth(True)
        else:
            sc.add_junk()
        for _ in range(nops if nops is not None else rng.choice([2, 3, 5, 8, 12])):
            sc.add_op()
        scripts.append(sc)
    # chunk and interleave
    queues = []
    for sc in scripts:
        data = sc.stream()
        mode = chunking or rng.choice(['one', 'frames', 'frames', 'rand', 'rand', 'header', 'two', 'bytes' if len(data) < 120 else 'rand'])
        if mode == 'frames':
            chunks = [f for _, f in sc.frames]
        elif mode == 'bursts':
            # pipelining: several whole frames per read (what a client that does not wait for answers produces)
            chunks, fr = [], [f for _, f in sc.frames]
            while fr:
                n = rng.choice([1, 2, 2, 3, 4])
                chunks.append(b''.join(fr[:n]))
                fr = fr[n:]
        else:
            chunks = cut(rng, data, mode)
        queues.append([['D', sc.q, jbytes(c)] for c in chunks])
    events = []
    started = []
    p_fault = faults if faults is not None else {'benign': 0.0, 'mixed': 0.04, 'hostile': 0.12}[profile]
    pend = {}        # async: lookups the generator expects to be pending, per connection
    while any(queues):
        q = rng.choice([i for i in range(nconn) if queues[i]])
        if q not in started:
            events.append(['C', q, jbytes(nonces[q])])
            started.append(q)
            continue
        events.append(queues[q].pop(0))
        if async_:
            if rng.random() < 0.7:
                events.append(gen_lookup(rng, table, q, scripts[q].ident))
            if rng.random() < 0.1:
                events.append(gen_lookup(rng, table, rng.choice(started), None))
        if rng.random() < p_fault:
            v = rng.choice(started)
            events.append(rng.choice([['L', v], ['E', v], ['PW', v], ['RW', v], ['T', rng.choice([1, 30, 59, 60, 61])],
                                      ['PW', v], ['T', 60], ['RWPW', v]]))
    if async_:
        for v in started:
            for _ in range(rng.randint(0, 2)):
                events.append(gen_lookup(rng, table, v, scripts[v].ident))
    if profile != 'benign':
        for _ in range(rng.randint(0, 3)):
            v = rng.choice(started or [0])
            events.append(rng.choice([['L', v], ['E', v], ['T', 60]]))
    case = dict(name=jbytes(name.encode()), db=jdb(table), async_=async_, events=events)
    return case, scripts


def gen_reauth_leave(rng, async_=False):
    """directed history: a connection subscribes under one identity, authenticates again under another whose permissions
    differ, (un)subscribes some more and then goes away; afterwards others publish on every channel it ever held while a
    live subscriber is listening.  Everything is permitted traffic."""
    from wire import cut
    table = DB_TABLES[0]
    name = rng.choice(['hpfeeds', 'b'])
    nonces = [bytes(rng.randrange(256) for _ in range(4)) for _ in range(3)]
    first, second = rng.choice([('ali', 'carol'), ('alice', 'ali'), ('bob', 'ali'), ('alice', 'carol'), ('carol', 'ali'), ('ali', 'bob')])

    def auth(q, ident):
        return auth_frame(ident, digest(nonces[q], table[ident][0]))
    leaver = [auth(0, first)]
    held = []
    for c in rng.sample(table[first][2], rng.randint(1, len(table[first][2]))):
        leaver.append(P.msgsubscribe(first, c))
        held.append(c)
    leaver.append(auth(0, second))
    for c in rng.sample(table[second][2], rng.randint(0, len(table[second][2]))):
        leaver.append(P.msgsubscribe(second, c))
        held.append(c)
    stay = rng.random() < 0.4
    if stay and held:
        # it stays connected and gives up some of what it holds - preferably channels the NEW identity could not
        # subscribe to itself: an UNSUBSCRIBE is honoured whatever the current permissions are
        stale = [c for c in held if c not in (table[second][2] or [])]
        for c in (rng.sample(stale, rng.randint(1, len(stale))) if stale else []) + ([rng.choice(held)] if rng.random() < 0.5 else []):
            leaver.append(P.msgunsubscribe(second, c))
        if rng.random() < 0.3:
            leaver.append(P.msgsubscribe(second, rng.choice(table[second][2])) if table[second][2] else P.msgunsubscribe(second, 'nope'))
    elif rng.random() < 0.3 and held:
        leaver.append(P.msgunsubscribe(second, rng.choice(held)))
    # a listener and a publisher for every channel the leaver ever held
    chans = sorted(set(held))
    pubs = []        # (ident, chan)
    for c in chans:
        who = [i for i, r in table.items() if r and r[1] and c in r[1]]
        if who:
            pubs.append((rng.choice(who), c))
    listen = []
    for c in chans:
        who = [i for i, r in table.items() if r and r[2] and c in r[2]]
        if who:
            listen.append((rng.choice(who), c))
    events = [['C', 0, jbytes(nonces[0])], ['C', 1, jbytes(nonces[1])], ['C', 2, jbytes(nonces[2])]]
    mode = rng.choice(['frames', 'frames', 'one', 'rand'])
    lch = leaver if mode == 'frames' else cut(rng, b''.join(leaver), mode)
    for ch in lch:
        events.append(['D', 0, jbytes(ch)])
    cur = None
    for ident, c in listen:
        if ident != cur:
            events.append(['D', 1, jbytes(auth(1, ident))])
            cur = ident
        events.append(['D', 1, jbytes(P.msgsubscribe(ident, c))])
    if async_:
        for q in (0, 0, 1, 1, 1):
            events.append(gen_lookup(rng, table, q, None))
    if not stay:
        events.append(rng.choice([['L', 0], ['L', 0], ['E', 0]]))
        if events[-1][0] == 'E' and rng.random() < 0.7:
            events.append(['L', 0])
    cur = None
    for _ in range(rng.randint(1, 2)):
        for ident, c in pubs:
            if ident != cur:
                events.append(['D', 2, jbytes(auth(2, ident))])
                if async_:
                    events.append(gen_lookup(rng, table, 2, ident))
                cur = ident
            events.append(['D', 2, jbytes(P.msgpublish(ident, c, gen_payload(rng)))])
    case = dict(name=jbytes(name.encode()), db=jdb(table), async_=async_, events=events)

    class R:
        def __init__(self, q):
            self.q, self.role = q, 'benign'
    return case, [R(0), R(1), R(2)]


def gen_reauth_stale(rng, async_=False):
    """directed history: a connection uses a permission of identity A (publishes / subscribes where A may), authenticates
    again as B, and then asks for the same thing although B may not: the request must be judged under B.  A listener
    holds the channel so that a wrongly accepted publish becomes visible."""
    from wire import cut
    table = DB_TABLES[0]
    name = rng.choice(['hpfeeds', 'b'])
    nonces = [bytes(rng.randrange(256) for _ in range(4)) for _ in range(2)]
    pairs = []
    for a, ra in table.items():
        for b, rb in table.items():
            if not ra or not rb or a == b or ra[1] is None:
                continue
            # b's row may lack its channel lists altogether (the key is missing): it is then granted nothing
            dp = [c for c in ra[1] if c not in (rb[1] or [])]
            ds = [c for c in ra[2] if c not in (rb[2] or [])]
            if dp or ds:
                pairs.append((a, b, dp, ds))
    a, b, dp, ds = rng.choice(pairs)

    def auth(q, ident):
        return auth_frame(ident, digest(nonces[q], table[ident][0]))
    kind = rng.choice([k for k, d in (('pub', dp), ('sub', ds)) if d])
    chan = rng.choice(dp if kind == 'pub' else ds)
    # a listener for that channel (any identity that may subscribe to it)
    who = [i for i, r in table.items() if r and r[2] and chan in r[2]]
    events = [['C', 0, jbytes(nonces[0])], ['C', 1, jbytes(nonces[1])]]
    if who:
        l = rng.choice(who)
        events += [['D', 1, jbytes(auth(1, l))], ['D', 1, jbytes(P.msgsubscribe(l, chan))]]
    frames = [auth(0, a)]
    for _ in range(rng.randint(1, 3)):
        frames.append(P.msgpublish(a, chan, gen_payload(rng)) if kind == 'pub' else P.msgsubscribe(a, chan))
        if kind == 'sub' and rng.random() < 0.5:
            frames.append(P.msgunsubscribe(a, chan))
    frames.append(auth(0, b))
    for c in rng.sample(table[b][2] or [], rng.randint(0, len(table[b][2] or []))):
        frames.append(P.msgsubscribe(b, c))
    frames.append(P.msgpublish(b, chan, gen_payload(rng)) if kind == 'pub' else P.msgsubscribe(b, chan))
    mode = rng.choice(['frames', 'frames', 'frames', 'rand', 'one'])
    for ch in (frames if mode == 'frames' else cut(rng, b''.join(frames), mode)):
        events.append(['D', 0, jbytes(ch)])
        if async_:
            events.append(gen_lookup(rng, table, 0, None))
    if kind == 'sub':
        # if the forbidden subscription was (wrongly) registered, a publish shows it
        pw = [i for i, r in table.items() if r and r[1] and chan in r[1]]
        if pw:
            i = rng.choice(pw)
            events += [['D', 1, jbytes(auth(1, i))], ['D', 1, jbytes(P.msgpublish(i, chan, gen_payload(rng)))]]
    case = dict(name=jbytes(name.encode()), db=jdb(table), async_=async_, events=events)

    class R:
        def __init__(self, q):
            self.q, self.role = q, 'adversarial' if q == 0 else 'benign'
    return case, [R(0), R(1)]


def gen_store_change(rng):
    """directed history (synchronous store): identities authenticate and act, then the store's entry for one of them is
    replaced (secret rotated, channel lists changed) or removed, and further connections present the OLD and the NEW
    secret and use the old and the new permissions; connections authenticated before the change keep acting under the
    row they authenticated with.  A listener holds the channels so that wrongly accepted requests become visible."""
    table = dict(DB_TABLES[0])
    name = rng.choice(['hpfeeds', 'b'])
    nq = 5
    nonces = [bytes(rng.randrange(256) for _ in range(4)) for _ in range(nq)]
    who = rng.choice(['alice', 'bob', 'ali', 'carol'])
    old = table[who]
    kind = rng.choice(['rotate', 'rotate', 'remove', 'chans', 'rotate+chans'])
    if kind == 'remove':
        new = None
    else:
        secret = old[0] + '!' if 'rotate' in kind else old[0]
        pub, sub = list(old[1]), list(old[2])
        if 'chans' in kind:
            pub = [c for c in ['x', 'y', 'z', 'X'] if rng.random() < 0.5]
            sub = [c for c in ['x', 'y', 'z', 'X'] if rng.random() < 0.5]
        new = (secret, pub, sub)
    events = [['C', q, jbytes(nonces[q])] for q in range(nq)]
    lst = rng.choice(['alice', 'bob'])                 # listener, never changed unless it is `who`
    if lst == who:
        lst = 'alice' if who != 'alice' else 'bob'

    def auth(q, ident, secret):
        return auth_frame(ident, digest(nonces[q], secret))

    def ops(ident, row, n):
        out = []
        for _ in range(n):
            c = rng.choice(['x', 'y', 'z', 'X'])
            out.append(rng.choice([P.msgpublish(ident, c, gen_payload(rng)), P.msgsubscribe(ident, c), P.msgsubscribe(ident, c),
                                   P.msgunsubscribe(ident, c)]))
        return out
    events.append(['D', 1, jbytes(auth(1, lst, table[lst][0]))])
    for c in table[lst][2]:
        events.append(['D', 1, jbytes(P.msgsubscribe(lst, c))])
    # before the change: connection 0 authenticates as `who` with the current secret and acts where it may
    events.append(['D', 0, jbytes(auth(0, who, old[0]))])
    for c in rng.sample(old[2], rng.randint(0, len(old[2]))):
        events.append(['D', 0, jbytes(P.msgsubscribe(who, c))])
    for c in rng.sample(old[1], rng.randint(0, len(old[1]))):
        events.append(['D', 0, jbytes(P.msgpublish(who, c, gen_payload(rng)))])
    # the change
    events.append(['S', jbytes(who.encode()), None if new is None else
                   [jbytes(new[0].encode()), [jbytes(c.encode()) for c in new[1]], [jbytes(c.encode()) for c in new[2]]]])
    # after it: old secret on 2, new secret (if any) on 3, connection 0 goes on under its old row, 4 = publisher for every channel
    burst = rng.random() < 0.5
    fr2 = [auth(2, who, old[0])] + ops(who, old, rng.randint(1, 3))
    events += [['D', 2, jbytes(b''.join(fr2))]] if burst else [['D', 2, jbytes(f)] for f in fr2]
    if new is not None:
        fr3 = [auth(3, who, new[0])] + ops(who, new, rng.randint(1, 4))
        events += [['D', 3, jbytes(b''.join(fr3))]] if rng.random() < 0.5 else [['D', 3, jbytes(f)] for f in fr3]
    for f in ops(who, old, rng.randint(0, 2)):
        events.append(['D', 0, jbytes(f)])
    pubr = rng.choice(['alice', 'bob'] if who not in ('alice',) else ['bob', 'ALICE'])
    if table.get(pubr) and pubr != who:
        events.append(['D', 4, jbytes(auth(4, pubr, table[pubr][0]))])
        for c in table[pubr][1]:
            events.append(['D', 4, jbytes(P.msgpublish(pubr, c, gen_payload(rng)))])
    if rng.random() < 0.3:
        # and back again: the original entry is restored; the old secret works again on a fresh connection only
        events.append(['S', jbytes(who.encode()), [jbytes(old[0].encode()), [jbytes(c.encode()) for c in old[1]],
                                                   [jbytes(c.encode()) for c in old[2]]]])
    case = dict(name=jbytes(name.encode()), db=jdb(table), async_=False, events=events)

    class R:
        def __init__(self, q):
            self.q, self.role = q, 'adversarial' if q in (2, 3, 0) else 'benign'
    return case, [R(q) for q in range(nq)]


def gen_same_ident_inflight(rng):
    """directed history (asynchronous store): several connections send OP_AUTH for the SAME ident, each with requests
    pipelined behind it, while the lookups are in flight; some of them go away before the verdict; the lookups complete
    in a random order relative to everything else; a listener holds the channels."""
    table = DB_TABLES[0]
    name = 'hpfeeds'
    n = rng.choice([2, 3, 3, 4])
    nonces = [bytes(rng.randrange(256) for _ in range(4)) for _ in range(n + 1)]
    who = rng.choice(['alice', 'bob', 'ali'])
    row = table[who]
    L = n                                   # listener index
    lst = 'alice' if who != 'alice' else 'bob'
    events = [['C', q, jbytes(nonces[q])] for q in range(n + 1)]
    events.append(['D', L, jbytes(auth_frame(lst, digest(nonces[L], table[lst][0])))])
    events.append(gen_lookup(rng, table, L, lst))
    for c in table[lst][2]:
        events.append(['D', L, jbytes(P.msgsubscribe(lst, c))])
    todo = []
    for q in range(n):
        fr = [auth_frame(who, digest(nonces[q], row[0]))]
        for _ in range(rng.randint(1, 3)):
            c = rng.choice(row[1] + row[2])
            fr.append(rng.choice([P.msgpublish(who, c, gen_payload(rng)), P.msgsubscribe(who, c)]))
        if rng.random() < 0.5:
            events.append(['D', q, jbytes(b''.join(fr))])
        else:
            k = rng.randint(1, len(fr))
            events.append(['D', q, jbytes(b''.join(fr[:k]))])
            if fr[k:]:
                todo.append(['D', q, jbytes(b''.join(fr[k:]))])      # arrives while reading is paused: not delivered
        todo.append(['R', q, 'row', [jbytes(row[0].encode()), [jbytes(c.encode()) for c in row[1]], [jbytes(c.encode()) for c in row[2]]]]
                    if rng.random() < 0.8 else rng.choice([['R', q, 'none'], ['R', q, 'raise']]))
        if rng.random() < 0.4:
            todo.append(rng.choice([['L', q], ['L', q], ['E', q]]))
    rng.shuffle(todo)
    events += todo
    # afterwards the survivors publish once more, and whatever arrived while paused is delivered now
    for q in range(n):
        c = rng.choice(row[1])
        events.append(['D', q, jbytes(P.msgpublish(who, c, gen_payload(rng)))])
        if rng.random() < 0.3:
            events.append(gen_lookup(rng, table, q, who))
    # ... and some authenticate AGAIN (the same ident, or another one) with requests pipelined behind that second OP_AUTH;
    # the verdict arrives later and they go on
    rowj = [jbytes(row[0].encode()), [jbytes(c.encode()) for c in row[1]], [jbytes(c.encode()) for c in row[2]]]
    for q in range(n):
        if rng.random() < 0.6:
            c = rng.choice(row[1])
            fr = [auth_frame(who, digest(nonces[q], row[0])), P.msgpublish(who, c, gen_payload(rng))]
            if rng.random() < 0.5:
                fr.append(P.msgsubscribe(who, rng.choice(row[2])))
            events.append(['D', q, jbytes(b''.join(fr))])
            if rng.random() < 0.4:
                events.append(['D', L, jbytes(P.msgpublish(lst, rng.choice(table[lst][1]), gen_payload(rng)))])
            events.append(['R', q, 'row', rowj])
            events.append(['D', q, jbytes(P.msgpublish(who, c, gen_payload(rng)))])
    case = dict(name=jbytes(name.encode()), db=jdb(table), async_=True, events=events)

    class R:
        def __init__(self, q):
            self.q, self.role = q, 'benign'
    return case, [R(q) for q in range(n + 1)]


def gen_lookup(rng, table, q, ident=None):
    k = rng.random()
    if k < 0.85:
        if ident is None or table.get(ident) is None or rng.random() < 0.1:
            ident = rng.choice([i for i, r in table.items() if r is not None])
        s, p, sb = table[ident]
        return ['R', q, 'row', [jbytes(s.encode()), [jbytes(c.encode()) for c in (p or [])], [jbytes(c.encode()) for c in (sb or [])]]]
    if k < 0.93:
        return ['R', q, 'none']
    return ['R', q, 'raise']
