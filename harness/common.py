"""Shared infrastructure for the checks: building the Coq development, compiling a property file and
reading its Print Assumptions output, running generated case files through coqc (vm_compute), writing
evidence and replay files, printing verdict lines.

Python 3.12 (/venv/bin/python).  Nothing here imports hpfeeds; drivers do, with PYTHONPATH=/repo.
"""
import fcntl
import hashlib
import json
import os
import random
import re
import shutil
import subprocess
import sys
import time
import zlib

VERIF = os.path.dirname(os.path.dirname(os.path.abspath(__file__)))
COQ = os.path.join(VERIF, 'coq')
REPO = os.environ.get('VERIF_REPO', '/repo')
WORKROOT = os.path.join(VERIF, '.work')
REPLAY = os.path.join(VERIF, 'replay')
EVIDENCE = os.path.join(VERIF, 'evidence')
NPROC = min(16, os.cpu_count() or 4)

ALLOWED_AXIOMS = set()      # nothing: every property theorem must be closed under the global context

TRUSTED_BASE = [
    'Coq 8.16.1 kernel (coqc), including the vm_compute bytecode VM used to run the model; native_compute not used',
    'no axioms declared; every property theorem prints "Closed under the global context" (captured on each run), except the '
    '*_src_* theorems of the broker properties (C01-C04, C08-C10, C14, C15, C19), which rely on the standard library axiom '
    'FunctionalExtensionality.functional_extensionality_dep and on nothing else (checked on each run)',
    'hand-written Gallina model of the anchored Python code (coq/*.v); agreement with /repo is tested by the '
    'correspondence check on generated inputs, not proved',
    'harness/genparams.py (reads wire constants from /repo into coq/Params.v on every run)',
    'the Python correspondence harness (drivers, simulated transports/loops, generators, comparison)',
    'CPython str <-> UTF-8 identification; hashlib.sha1 vs. Gallina SHA-1 compared on every run',
]


def log(*a):
    print(*a, file=sys.stderr, flush=True)


# ------------------------------------------------------------------------------------------------
# building
# ------------------------------------------------------------------------------------------------
def _run(cmd, cwd=None, timeout=1800, env=None):
    t0 = time.time()
    try:
        r = subprocess.run(cmd, cwd=cwd, env=env, capture_output=True, text=True, timeout=timeout)
        return r.returncode, r.stdout, r.stderr, time.time() - t0
    except subprocess.TimeoutExpired as e:
        return 124, (e.stdout or b'').decode('utf8', 'replace') if isinstance(e.stdout, bytes) else (e.stdout or ''), \
            'TIMEOUT after %ss' % timeout, time.time() - t0


def ensure_built(clean=False):
    """Regenerate Params.v from /repo, then (re)build the development under a lock.
    Returns (ok, log_text)."""
    os.makedirs(WORKROOT, exist_ok=True)
    lock = open(os.path.join(WORKROOT, 'build.lock'), 'w')
    fcntl.flock(lock, fcntl.LOCK_EX)
    try:
        rc, out, err, _ = _run(['/venv/bin/python', os.path.join(VERIF, 'harness', 'genparams.py')], timeout=120)
        if rc != 0:
            return False, 'genparams failed:\n' + out + err
        # translate hpfeeds/protocol.py into coq/ProtoGen.v; when the source has left the translatable fragment the
        # generated file is removed, so that everything that depends on it (C05-C07 source-level theorems) stops building
        rc, out, err, _ = _run(['/venv/bin/python', os.path.join(VERIF, 'harness', 'pytrans.py')], timeout=120)
        trans_note = ''
        if rc != 0:
            trans_note = 'pytrans failed: ' + (out + err)[-600:]
            for fn in ('ProtoGen.v', 'ProtoGen.vo', 'ProtoGenEq.vo', 'ProtoGenProps.vo'):
                try:
                    os.unlink(os.path.join(COQ, fn))
                except OSError:
                    pass
        # the three client protocol classes -> coq/ProtoClsGen.v (C16); same fail-closed rule
        rc2, out2, err2, _ = _run(['/venv/bin/python', os.path.join(VERIF, 'harness', 'pytrans2.py')], timeout=120)
        if rc2 != 0:
            trans_note += ' pytrans2 failed: ' + (out2 + err2)[-600:]
            for fn in ('ProtoClsGen.v', 'ProtoClsGen.vo', 'ProtoClsEq.vo'):
                try:
                    os.unlink(os.path.join(COQ, fn))
                except OSError:
                    pass
        # the broker's decision code (Server.subscribe/unsubscribe/publish, Connection.on_*/authenticate/connection_lost/
        # connection_made/message_received, BaseProtocol.message_received) -> coq/BrokerGen.v; same fail-closed rule (the *_src_* theorems of C01-C04, C08-C10, C14, C15, C19)
        rc3, out3, err3, _ = _run(['/venv/bin/python', os.path.join(VERIF, 'harness', 'pytrans3.py')], timeout=120)
        if rc3 != 0:
            trans_note += ' pytrans3 failed: ' + (out3 + err3)[-600:]
            for fn in ('BrokerGen.v', 'BrokerGen.vo', 'BrokerGenEq.vo', 'BrokerGenRun.vo', 'BrokerGenProps.vo'):
                try:
                    os.unlink(os.path.join(COQ, fn))
                except OSError:
                    pass
        # hpfeeds/broker/auth/json.py (Authenticator.load / get_authkey) -> coq/StoreGen.v (C17, C18); same fail-closed rule
        rc4, out4, err4, _ = _run(['/venv/bin/python', os.path.join(VERIF, 'harness', 'pytrans4.py')], timeout=120)
        if rc4 != 0:
            trans_note += ' pytrans4 failed: ' + (out4 + err4)[-600:]
            for fn in ('StoreGen.v', 'StoreGen.vo', 'StoreGenEq.vo'):
                try:
                    os.unlink(os.path.join(COQ, fn))
                except OSError:
                    pass
        # the write path of hpfeeds/blocking/reactor.py -> coq/ReactorGen.v (C20); same fail-closed rule
        rc5, out5, err5, _ = _run(['/venv/bin/python', os.path.join(VERIF, 'harness', 'pytrans5.py')], timeout=120)
        if rc5 != 0:
            trans_note += ' pytrans5 failed: ' + (out5 + err5)[-600:]
            for fn in ('ReactorGen.v', 'ReactorGen.vo', 'ReactorGenEq.vo'):
                try:
                    os.unlink(os.path.join(COQ, fn))
                except OSError:
                    pass
        # the synchronous methods of hpfeeds/asyncio/client.py and hpfeeds/twisted/service.py -> coq/AioGen.v (C11-C13); same fail-closed rule
        rc6, out6, err6, _ = _run(['/venv/bin/python', os.path.join(VERIF, 'harness', 'pytrans6.py')], timeout=120)
        if rc6 != 0:
            trans_note += ' pytrans6 failed: ' + (out6 + err6)[-600:]
            for fn in ('AioGen.v', 'AioGen.vo', 'AioGenEq.vo', 'TwGenEq.vo'):
                try:
                    os.unlink(os.path.join(COQ, fn))
                except OSError:
                    pass
        # the application-facing methods of hpfeeds/blocking/session.py -> coq/BlkGen.v (C11, C12); same fail-closed rule
        rc7, out7, err7, _ = _run(['/venv/bin/python', os.path.join(VERIF, 'harness', 'pytrans7.py')], timeout=120)
        if rc7 != 0:
            trans_note += ' pytrans7 failed: ' + (out7 + err7)[-600:]
            for fn in ('BlkGen.v', 'BlkGen.vo', 'BlkGenEq.vo'):
                try:
                    os.unlink(os.path.join(COQ, fn))
                except OSError:
                    pass
        mk = os.path.join(COQ, 'Makefile')
        stale = (not os.path.exists(mk)) or os.path.getmtime(mk) < os.path.getmtime(os.path.join(COQ, '_CoqProject'))
        if clean or stale:
            rc, out, err, _ = _run(['coq_makefile', '-f', '_CoqProject', '-o', 'Makefile'], cwd=COQ, timeout=120)
            if rc != 0:
                return False, 'coq_makefile failed:\n' + out + err
        if clean:
            _run(['make', 'clean'], cwd=COQ, timeout=300)
        rc, out, err, dt = _run(['timeout', '3000', 'make', '-k', '-j%d' % NPROC], cwd=COQ, timeout=3100)
        if rc != 0:
            return False, '%s\nmake failed (%.0fs):\n%s\n%s' % (trans_note, dt, out[-4000:], err[-6000:])
        return True, 'make ok (%.1fs)' % dt
    finally:
        fcntl.flock(lock, fcntl.LOCK_UN)
        lock.close()


FORBIDDEN = re.compile(r'\b(Admitted|admit|Axiom|Axioms|Parameter|Parameters|Conjecture|Conjectures|Hypothesis|'
                       r'Hypotheses|Variable|Variables|Unset\s+Guard|bypass_check|Admit\s+Obligations|'
                       r'type-in-type|impredicative-set)\b')


def scan_forbidden():
    """Grep the development for anything that would declare an axiom or switch off a kernel check.
    `Variable`/`Hypothesis` are allowed only inside a Section (checked textually)."""
    bad = []
    for root, _, files in os.walk(COQ):
        for fn in files:
            if not fn.endswith('.v'):
                continue
            path = os.path.join(root, fn)
            depth = 0
            txt = open(path).read()
            txt = re.sub(r'\(\*.*?\*\)', lambda m: ' ' * len(m.group(0)), txt, flags=re.S)   # strip comments
            for ln, line in enumerate(txt.split('\n'), 1):
                if re.match(r'\s*Section\b', line):
                    depth += 1
                if re.match(r'\s*End\b', line) and depth > 0:
                    depth -= 1
                m = FORBIDDEN.search(line)
                if m:
                    w = m.group(1)
                    if w in ('Variable', 'Variables', 'Hypothesis', 'Hypotheses') and depth > 0:
                        continue
                    bad.append('%s:%d: %s' % (os.path.relpath(path, VERIF), ln, line.strip()))
    for fn in ('_CoqProject',):
        t = open(os.path.join(COQ, fn)).read()
        if 'type-in-type' in t or 'impredicative-set' in t:
            bad.append('%s: forbidden flag' % fn)
    return bad


FUNEXT_OK = re.compile(r'^C(01|02|03|04|08|09|10|14|15|19)_src_')


def compile_property(pid, workdir):
    """Compile coq/Properties/<pid>.v from scratch (output outside the tree) and parse what it prints.
    Returns dict(ok, theorems=[names], assumptions={name: text}, closed=bool, log)."""
    src = os.path.join(COQ, 'Properties', pid + '.v')
    out_vo = os.path.join(workdir, pid + '.vo')
    rc, out, err, dt = _run(['timeout', '900', 'coqc', '-Q', COQ, 'HP', '-o', out_vo, src], timeout=1000)
    text = open(src).read()
    text_nc = re.sub(r'\(\*.*?\*\)', '', text, flags=re.S)
    theorems = re.findall(r'^\s*Theorem\s+(\w+)', text_nc, flags=re.M)
    printed = re.findall(r'^\s*Print Assumptions\s+(\w+)\s*\.', text_nc, flags=re.M)
    res = dict(ok=(rc == 0), theorems=theorems, printed=printed, assumptions={}, closed=False,
               log=(out + err)[-4000:], wall_s=dt,
               cmd='coqc -Q coq HP coq/Properties/%s.v' % pid)
    if rc != 0:
        return res
    # coqc prints one block per Print Assumptions, in order
    blocks = []
    cur = None
    for line in out.split('\n'):
        if line.startswith('Closed under the global context'):
            blocks.append('Closed under the global context')
            cur = None
        elif line.startswith('Axioms:'):
            cur = ['Axioms:']
            blocks.append(cur)
        elif cur is not None and line.strip():
            cur.append(line.rstrip())
    blocks = [b if isinstance(b, str) else '\n'.join(b) for b in blocks]
    for name, b in zip(printed, blocks):
        res['assumptions'][name] = b
    def acceptable(name, b):
        if b == 'Closed under the global context':
            return True
        # the theorems about the code as translated from the Python source (BrokerGenEq.v) may rely on the standard
        # library's functional extensionality, and on nothing else
        if FUNEXT_OK.match(name):
            lines = [ln for ln in b.split('\n')[1:] if ln.strip()]
            heads = [ln for ln in lines if not ln.startswith(' ')]
            return bool(heads) and all(h.split(':')[0].strip().split('.')[-1] == 'functional_extensionality_dep' for h in heads)
        return False
    res['closed'] = (len(blocks) == len(printed) and set(printed) >= set(theorems)
                     and all(acceptable(n, b) for n, b in zip(printed, blocks)))
    return res


def coqchk_property(pid, workdir):
    """thorough tier: re-check the compiled property file and everything it depends on with the independent checker;
    -o prints the axioms and unsafe features the whole closure relies on"""
    rc, out, err, dt = _run(['timeout', '1500', 'coqchk', '-silent', '-o', '-Q', COQ, 'HP', '-R', workdir, '', pid],
                            cwd=workdir, timeout=1600)
    text = out + err
    summary = {}
    for key in ('Axioms', 'Constants/Inductives relying on type-in-type', 'Constants/Inductives relying on unsafe (co)fixpoints',
                'Inductives whose positivity is assumed'):
        m = re.search(r'\* ' + re.escape(key) + r':\s*(.*?)\n\s*\n', text, flags=re.S)
        summary[key] = m.group(1).strip() if m else None
    def fine(key, v):
        if v == '<none>':
            return True
        # the broker property files restate their theorems for the code translated from the Python source (BrokerGenEq.v),
        # which uses the standard library's functional extensionality - and nothing else
        if key == 'Axioms' and v is not None and re.match(r'^C(01|02|03|04|08|09|10|14|15|19)$', pid):
            names = [x.strip() for x in v.split('\n') if x.strip()]
            return all('functional_extensionality_dep' in x for x in names)
        return False
    ok = rc == 0 and all(fine(k, v) for k, v in summary.items())
    return dict(ok=ok, rc=rc, wall_s=round(dt, 1), summary=summary, log=text[-1500:] if not ok else '',
                cmd='coqchk -silent -o -Q coq HP -R <workdir> "" %s' % pid)


# ------------------------------------------------------------------------------------------------
# running the model: generated case files evaluated by vm_compute inside coqc
# ------------------------------------------------------------------------------------------------
def coq_bytes(b):
    return '[' + ';'.join('x%02x' % x for x in b) + ']'


def coq_segs(b, minrun=48):
    """Run-length encode a byte string as a Coq `list seg` literal."""
    b = bytes(b)
    segs = []
    i = 0
    n = len(b)
    lit = bytearray()
    while i < n:
        j = i
        while j < n and b[j] == b[i]:
            j += 1
        if j - i >= minrun:
            if lit:
                segs.append('Lit ' + coq_bytes(lit))
                lit = bytearray()
            segs.append('Rep %d%%N x%02x' % (j - i, b[i]))
        else:
            lit.extend(b[i:j])
        i = j
    if lit:
        segs.append('Lit ' + coq_bytes(lit))
    return '[' + '; '.join(segs) + ']'


def coq_z(n):
    return '(%d)' % n if n < 0 else '%d' % n


HEADER = '''From Coq Require Import ZArith NArith List String.
From Coq Require Import Strings.Byte.
From HP Require Import %s.
Import ListNotations.
Open Scope Z_scope.
Set Printing Width 100000000.
Set Printing Depth 100000000.
'''

_RES = re.compile(r'^\s*= "(.*)"%string\s*$')
_RESL = re.compile(r'^\s*= \[(.*)\](%list)?\s*$')
_STR = re.compile(r'"([^"]*)"%string')


def parse_result(line):
    """a printed `string` -> str; a printed `list string` -> list of str; else None"""
    m = _RES.match(line)
    if m:
        return m.group(1)
    m = _RESL.match(line)
    if m:
        body = m.group(1)
        if '%string' in body:
            return _STR.findall(body)
        if body.strip() == '':
            return []
        return [int(x) for x in re.findall(r'(\d+)(?:%N)?', body)]
    return None


def run_model(exprs, imports, workdir, tag='cases', shard_bytes=120000, shard_max=400, timeout=1500):
    """Evaluate each Gallina expression (of type string) with vm_compute; returns the list of result
    strings (None where coqc failed for that shard).  Shards run in parallel."""
    shards = []
    cur, size = [], 0
    for idx, e in enumerate(exprs):
        if cur and (size + len(e) > shard_bytes or len(cur) >= shard_max):
            shards.append(cur)
            cur, size = [], 0
        cur.append((idx, e))
        size += len(e)
    if cur:
        shards.append(cur)
    procs = []
    results = [None] * len(exprs)
    errors = []
    running = []

    def start(k, shard):
        path = os.path.join(workdir, '%s_%d.v' % (tag, k))
        with open(path, 'w') as f:
            f.write(HEADER % imports)
            for _, e in shard:
                f.write('Eval vm_compute in (%s).\n' % e)
        p = subprocess.Popen(['sh', '-c', 'ulimit -s 4000000 2>/dev/null; exec timeout %d coqc -Q %s HP -o %s %s'
                              % (timeout, COQ, path + 'o', path)],
                             stdout=subprocess.PIPE, stderr=subprocess.PIPE, text=True)
        return (p, shard, path)

    pending = list(enumerate(shards))
    while pending or running:
        while pending and len(running) < NPROC:
            k, shard = pending.pop(0)
            running.append(start(k, shard))
        p, shard, path = running.pop(0)
        out, err = p.communicate()
        if p.returncode != 0:
            errors.append('%s: rc=%s %s' % (path, p.returncode, err[-2000:]))
            continue
        vals = []
        for line in out.split('\n'):
            v = parse_result(line)
            if v is not None:
                vals.append(v)
        if len(vals) != len(shard):
            errors.append('%s: expected %d results, got %d' % (path, len(shard), len(vals)))
            continue
        for (idx, _), v in zip(shard, vals):
            results[idx] = v
    return results, errors


# ------------------------------------------------------------------------------------------------
# fingerprints (same text the Coq side prints)
# ------------------------------------------------------------------------------------------------
def fp(b):
    b = bytes(b)
    return '%d.%d' % (len(b), zlib.adler32(b) & 0xffffffff)


# ------------------------------------------------------------------------------------------------
# results
# ------------------------------------------------------------------------------------------------
def known_findings():
    p = os.path.join(VERIF, 'known_findings.json')
    if not os.path.exists(p):
        return []
    return json.load(open(p)).get('findings', [])


def write_replay(pid, payload):
    os.makedirs(REPLAY, exist_ok=True)
    blob = json.dumps(payload, sort_keys=True, default=repr)
    h = hashlib.sha1(blob.encode()).hexdigest()[:12]
    path = os.path.join(REPLAY, '%s-%s.json' % (pid, h))
    with open(path, 'w') as f:
        json.dump(payload, f, indent=1, sort_keys=True, default=repr)
    return path


def write_evidence(pid, ev):
    os.makedirs(EVIDENCE, exist_ok=True)
    path = os.path.join(EVIDENCE, pid + '.json')
    tmp = path + '.tmp.%d' % os.getpid()
    with open(tmp, 'w') as f:
        json.dump(ev, f, indent=1, sort_keys=True, default=repr)
    os.replace(tmp, path)
    return path


class Work:
    def __init__(self, pid):
        self.dir = os.path.join(WORKROOT, '%s.%d' % (pid, os.getpid()))

    def __enter__(self):
        os.makedirs(self.dir, exist_ok=True)
        return self.dir

    def __exit__(self, *a):
        if not os.environ.get('VERIF_KEEP'):
            shutil.rmtree(self.dir, ignore_errors=True)


def mkrng(seed, salt=''):
    return random.Random('%s/%s' % (seed, salt))


def correspond(ctx, res, cases, imports, tag='cases', compare=None, sample=None, **kw):
    """cases: list of dicts with keys
         input   – JSON-able description (goes into samples / replay files)
         expr    – Gallina expression of type string computing the model's observation
         impl    – the implementation's observation (same text format)
         oracle  – None, or a description of how the IMPLEMENTATION violates the property on this case
         sig     – signature for distinct-nontrivial counting (None = trivial)
         fsig    – signature of the failure (for known-findings matching)
    Fills res."""
    res.evaluations += len(cases)
    for c in cases:
        if c.get('sig') is not None:
            res.signatures.add(c['sig'])
        if c.get('oracle'):
            res.failures.append(dict(signature=c.get('fsig') or c['oracle'], what=c['oracle'], case=c['input']))
    if len(res.samples) < 6:
        for c in cases[:: max(1, len(cases) // 6)]:
            if len(res.samples) < 6:
                s = sample(c) if sample else dict(input=c['input'], observed=c['impl'][:300])
                res.samples.append(s)
    if ctx.impl_only:
        return
    exprs = [c['expr'] for c in cases]
    out, errs = run_model(exprs, imports, ctx.workdir, tag=tag, **kw)
    res.model_errors.extend(errs)
    for c, m in zip(cases, out):
        if m is None:
            continue
        if compare is not None:
            diff = compare(c, m)
            if diff:
                res.disagreements.append(dict(case=c['input'], where=diff))
        elif m != c['impl']:
            res.disagreements.append(dict(case=c['input'], impl=c['impl'][:2000], model=m[:2000]))


def jbytes(b, minrun=48):
    """JSON-able, loss-free, compact rendering of a byte string (run-length encoded)."""
    b = bytes(b)
    out, i, n, lit = [], 0, len(b), bytearray()
    while i < n:
        j = i
        while j < n and b[j] == b[i]:
            j += 1
        if j - i >= minrun:
            if lit:
                out.append(bytes(lit).hex())
                lit = bytearray()
            out.append([j - i, b[i]])
        else:
            lit.extend(b[i:j])
        i = j
    if lit or not out:
        out.append(bytes(lit).hex())
    return out


def unjbytes(j):
    out = bytearray()
    for s in j:
        if isinstance(s, str):
            out.extend(bytes.fromhex(s))
        else:
            out.extend(bytes([s[1]]) * s[0])
    return bytes(out)
