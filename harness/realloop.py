"""Thorough tier: replay well-behaved histories through the REAL asyncio machinery - a real event loop, a real TCP
server on 127.0.0.1 with hpfeeds.broker Connection objects as protocols, real client sockets - and compare, per
connection, the frames the broker sent with what the simulated-transport driver (harness/broker.py, the thing the Coq
model is tied to) observed for the same history.  This cross-checks SimTransport's rendering of the asyncio transport
contract on the paths where no connection is closed."""
import asyncio
import os

import envshim  # noqa
from common import unjbytes
import broker as B

from hpfeeds.broker.server import Server
from hpfeeds.broker.connection import Connection


async def _replay(case, timeout=5.0, patience=1):
    loop = asyncio.get_running_loop()
    B.prometheus.reset()
    db = {}
    for ij, row in case['db']:
        ident = B.tostr(unjbytes(ij))
        db[ident] = B.mkrow(ident, None if row is None else
                            (unjbytes(row[0]), None if row[1] is None else [unjbytes(c) for c in row[1]],
                             None if row[2] is None else [unjbytes(c) for c in row[2]]))
    store = B.FutStore(db, False, loop)
    server = Server(auth=store, name=B.tostr(unjbytes(case['name'])))
    next_nonce = []

    def factory():
        nonce = next_nonce.pop(0)
        real = os.urandom
        os.urandom = lambda n: nonce
        try:
            return Connection(server)
        finally:
            os.urandom = real
    srv = await loop.create_server(factory, '127.0.0.1', 0)
    port = srv.sockets[0].getsockname()[1]
    conns = {}
    got = {}

    async def pump(q, reader):
        try:
            while True:
                d = await reader.read(65536)
                if not d:
                    break
                got[q].extend(d)
        except Exception:
            pass
    tasks = []

    async def settle(quiet_turns):
        quiet, last = 0, -1
        for _ in range(400 * patience):
            await asyncio.sleep(0.002)
            tot = sum(len(b) for b in got.values())
            quiet = quiet + 1 if tot == last else 0
            last = tot
            if quiet >= quiet_turns:
                return
    try:
        for ev in case['events']:
            k, q = ev[0], ev[1]
            if k == 'C':
                if q in conns:
                    continue
                next_nonce.append(unjbytes(ev[2]))
                reader, writer = await asyncio.wait_for(asyncio.open_connection('127.0.0.1', port), timeout)
                conns[q] = (reader, writer)
                got[q] = bytearray()
                tasks.append(asyncio.ensure_future(pump(q, reader)))
            elif k == 'D' and q in conns:
                conns[q][1].write(unjbytes(ev[2]))
                await conns[q][1].drain()
            else:
                continue
            # let the broker (same loop) take the bytes and the clients take its answers: wait until nothing has
            # arrived anywhere for a few consecutive turns of the loop
            await settle(4 * patience)
        await settle(12 * patience)
    finally:
        for reader, writer in conns.values():
            writer.close()
        await asyncio.sleep(0.02)
        for t in tasks:
            t.cancel()
        srv.close()
        await srv.wait_closed()
    return {q: B.split_frames(bytes(b))[0] for q, b in got.items()}


def replay(case, patience=1):
    loop = asyncio.new_event_loop()
    asyncio.set_event_loop(loop)
    try:
        return loop.run_until_complete(_replay(case, patience=patience))
    finally:
        try:
            loop.run_until_complete(loop.shutdown_asyncgens())
        except Exception:
            pass
        loop.close()
        asyncio.set_event_loop(None)


def compare(case):
    """-> None, or a description of the first difference between the real loop and the simulated driver"""
    obs, d = B.drive(case)
    first = _diff(replay(case), d)
    if first is None:
        return None
    # timing, not logic? ask again with five times the patience before saying anything
    return _diff(replay(case, patience=5), d)


def _diff(real, d):
    for q in d.order:
        sim = d.frames_of(q)
        r = real.get(q, [])
        if [(o, bytes(b)) for o, b in sim] != [(o, bytes(b)) for o, b in r]:
            n = next((i for i, (a, b) in enumerate(zip(sim, r)) if (a[0], bytes(a[1])) != (b[0], bytes(b[1]))), min(len(sim), len(r)))
            return ('connection %d: over a real asyncio TCP transport the broker sent %d frame(s), the simulated transport saw %d; '
                    'first difference at frame %d (real %r, simulated %r)'
                    % (q, len(r), len(sim), n, r[n:n + 1] and (r[n][0], len(r[n][1])), sim[n:n + 1] and (sim[n][0], len(sim[n][1]))))
    return None


if __name__ == '__main__':
    import sys
    import common
    n = int(sys.argv[1]) if len(sys.argv) > 1 else 20
    bad = 0
    for k in range(n):
        rng = common.mkrng(7, 'real%d' % k)
        case, _ = B.gen_history(rng, profile='benign', chunking=rng.choice(['frames', 'bursts', 'rand']), nops=8, reauth=0.05)
        r = compare(case)
        if r:
            bad += 1
            print(k, r)
    print('histories', n, 'differences', bad)
