#!/venv/bin/python
"""pytrans4.py — fail-closed translator of hpfeeds/broker/auth/json.py (Authenticator.load, Authenticator.get_authkey),
hpfeeds/broker/auth/memory.py (Authenticator.get_authkey), hpfeeds/broker/auth/multi.py (Authenticator.get_authkey) and
hpfeeds/broker/auth/env.py (get_key, get_list, Authenticator.get_authkey) and hpfeeds/broker/auth/sqlite.py (get_authkey) - the
last two matched against the shapes the functions have
to Gallina (coq/StoreGen.v), in the layer of coq/PyStore.v.  coq/StoreGenEq.v proves the translated methods equal to
Stores.load / Stores.json_get, the functions the C17/C18 theorems are about.

Fragment: `try: with open(self.path, ..) as fp: NAME = json.load(fp)  except Exception: ...; return` (a match on the
method's extra argument `parsed`); `if <cond>: ...; return`; `for a, b in X.items():`; `for a in (<string constants>):`;
`self.db = NAME`; `NAME = self.db.get(x, None)`; `return None` / `return` / `return dict(secret=.., ident=.., pubchans=..,
subchans=.., owner=..)`; conditions: `not isinstance(x, dict|list)`, `a not in x`, `not x`; expressions: names, string
constants, `x[a]`.  logger.* calls are skipped.  memory.py: `NAME = self.creds.get(x, None)`, `if not NAME: return`, `NAME = dict(NAME)`,
`NAME['ident'] = x`, `return NAME`.  multi.py: `for m in self.stack: NAME = m.get_authkey(x); if NAME: return NAME`, `return None`.
Anything else aborts the translation (exit 2).
"""
import ast
import os
import sys

REPO = os.environ.get('VERIF_REPO', '/repo')
HERE = os.path.dirname(os.path.abspath(__file__))
OUT = os.environ.get('PYTRANS4_OUT', os.path.join(HERE, '..', 'coq', 'StoreGen.v'))
SRC = 'hpfeeds/broker/auth/json.py'


class Unsupported(Exception):
    def __init__(self, node, why):
        where = SRC if isinstance(node, ast.AST) else 'hpfeeds/broker/auth'
        super().__init__('%s:%s: %s: %s' % (where, getattr(node, 'lineno', '?'), why,
                                            ast.dump(node)[:200] if isinstance(node, ast.AST) else node))


def is_name(e, n=None):
    return isinstance(e, ast.Name) and (n is None or e.id == n)


def is_attr(e, a=None):
    return isinstance(e, ast.Attribute) and (a is None or e.attr == a)


def coq_str(s):
    if not all(32 <= ord(c) < 127 and c != '"' for c in s):
        raise Unsupported(s, 'string constant outside printable ASCII')
    return '(B "%s")' % s


class Fn:
    def __init__(self, name, rtype):
        self.name = name
        self.rtype = rtype          # 'unit' (load) / 'cred' (get_authkey)
        self.env = {}               # name -> kind: json / optjson / str
        self.loggers = {'logger'}

    # expressions: (kind, term, may_raise) ; a term that may raise is an `option`
    def expr(self, e):
        if isinstance(e, ast.Name):
            if e.id in self.env:
                return self.env[e.id], e.id, False
            raise Unsupported(e, 'unknown name')
        if isinstance(e, ast.Constant) and isinstance(e.value, str):
            return 'str', coq_str(e.value), False
        if isinstance(e, ast.Subscript):
            k, v, r = self.expr(e.value)
            k2, a, r2 = self.expr(e.slice)
            if r or r2 or k2 != 'str' or k not in ('json', 'truthy-json'):
                raise Unsupported(e, 'subscript')
            return 'json', '(py_subscript %s %s)' % (v, a), True
        raise Unsupported(e, 'expression')

    def cond(self, e):
        """-> term : SM bool"""
        if isinstance(e, ast.UnaryOp) and isinstance(e.op, ast.Not):
            x = e.operand
            if isinstance(x, ast.Call) and is_name(x.func, 'isinstance') and len(x.args) == 2 and is_name(x.args[1]) \
                    and x.args[1].id in ('dict', 'list') and not x.keywords:
                k, v, r = self.expr(x.args[0])
                if k != 'json':
                    raise Unsupported(e, 'isinstance of a %s' % k)
                f = 'is_dict' if x.args[1].id == 'dict' else 'is_list'
                if r:
                    return '(bindS (liftS %s) (fun t_v => pureS (negb (%s t_v))))' % (v, f)
                return '(pureS (negb (%s %s)))' % (f, v)
            k, v, r = self.expr(x)
            if k == 'optjson' and not r:
                return '(pureS (negb (py_truthy %s)))' % v
            raise Unsupported(e, 'not of a %s' % k)
        if isinstance(e, ast.Compare) and len(e.ops) == 1 and isinstance(e.ops[0], ast.NotIn):
            k1, a, r1 = self.expr(e.left)
            k2, v, r2 = self.expr(e.comparators[0])
            if (k1, k2) != ('str', 'json') or r1 or r2:
                raise Unsupported(e, 'membership')
            return '(bindS (liftS (py_in %s %s)) (fun t_b => pureS (negb t_b)))' % (a, v)
        raise Unsupported(e, 'condition')

    def is_log(self, s):
        return (isinstance(s, ast.Expr) and isinstance(s.value, ast.Call) and is_attr(s.value.func)
                and is_name(s.value.func.value) and s.value.func.value.id in self.loggers)

    def terminates(self, stmts):
        return bool(stmts) and isinstance(stmts[-1], ast.Return)

    def block(self, stmts):
        if not stmts:
            return 'fallS'
        s, rest = stmts[0], stmts[1:]
        if self.is_log(s) or (isinstance(s, ast.Expr) and isinstance(s.value, ast.Constant)):
            return self.block(rest)
        if isinstance(s, ast.Return):
            if rest:
                raise Unsupported(s, 'code after return')
            v = s.value
            if v is None or (isinstance(v, ast.Constant) and v.value is None):
                return '(returnS %s)' % ('tt' if self.rtype == 'unit' else 'None')
            if (self.rtype == 'cred' and isinstance(v, ast.Call) and is_name(v.func, 'dict') and not v.args
                    and sorted(k.arg for k in v.keywords) == ['ident', 'owner', 'pubchans', 'secret', 'subchans']):
                kw = {k.arg: k.value for k in v.keywords}
                if not (is_name(kw['ident']) and self.env.get(kw['ident'].id) == 'str'):
                    raise Unsupported(s, 'ident= of the answer')
                parts = {}
                for f in ('secret', 'pubchans', 'subchans', 'owner'):
                    x = kw[f]
                    # FIELD=res["FIELD"]
                    if not (isinstance(x, ast.Subscript) and isinstance(x.slice, ast.Constant) and x.slice.value == f):
                        raise Unsupported(s, 'field %s of the answer is not <row>[%r]' % (f, f))
                    k, t, r = self.expr(x)
                    parts[f] = t
                body = '(returnS (Some (mk_authkey t_s t_p t_u t_o)))'
                # evaluation order of keyword arguments = source order
                order = [k.arg for k in v.keywords if k.arg != 'ident']
                names = {'secret': 't_s', 'pubchans': 't_p', 'subchans': 't_u', 'owner': 't_o'}
                for f in reversed(order):
                    body = '(bindS (liftS %s) (fun %s => %s))' % (parts[f], names[f], body)
                return body
            raise Unsupported(s, 'return value')
        if isinstance(s, ast.Try):
            # try: with open(self.path, "r") as fp: db = json.load(fp)   except Exception: ...; return
            ok = (len(s.body) == 1 and isinstance(s.body[0], ast.With) and len(s.body[0].items) == 1 and not s.orelse
                  and not s.finalbody and len(s.handlers) == 1 and is_name(s.handlers[0].type, 'Exception')
                  and self.terminates([x for x in s.handlers[0].body if not self.is_log(x)] or s.handlers[0].body)
                  and self.rtype == 'unit')
            if ok:
                w = s.body[0]
                it = w.items[0]
                ce = it.context_expr
                ok = (isinstance(ce, ast.Call) and is_name(ce.func, 'open') and ce.args and is_attr(ce.args[0], 'path')
                      and is_name(ce.args[0].value, 'self') and is_name(it.optional_vars) and len(w.body) == 1
                      and isinstance(w.body[0], ast.Assign) and len(w.body[0].targets) == 1 and is_name(w.body[0].targets[0])
                      and isinstance(w.body[0].value, ast.Call) and is_attr(w.body[0].value.func, 'load')
                      and is_name(w.body[0].value.func.value, 'json') and len(w.body[0].value.args) == 1
                      and is_name(w.body[0].value.args[0], it.optional_vars.id) and not w.body[0].value.keywords)
            if not ok:
                raise Unsupported(s, 'try shape')
            nm = s.body[0].body[0].targets[0].id
            h = self.block(s.handlers[0].body)
            self.env[nm] = 'json'
            return '(fun t_db => match parsed with None => %s t_db | Some %s => %s t_db end)' % (h, nm, self.block(rest))
        if isinstance(s, ast.If):
            if s.orelse or not self.terminates([x for x in s.body if not self.is_log(x)]):
                raise Unsupported(s, 'if shape')
            c = self.cond(s.test)
            then = self.block(s.body)
            # `if not res: return None` : from here on res is a (truthy) value
            t = s.test
            if isinstance(t, ast.UnaryOp) and isinstance(t.op, ast.Not) and is_name(t.operand) and self.env.get(t.operand.id) == 'optjson':
                nm = t.operand.id
                self.env[nm + '_v'] = 'truthy-json'
                saved = self.env[nm]
                self.env[nm] = 'truthy-json'
                els = self.block(rest)
                self.env[nm] = saved
                return ('(ifS %s %s (match %s with Some %s_some => (fun %s => %s) %s_some | None => raiseS end))'
                        % (c, then, nm, nm, nm, els, nm))
            return '(ifS %s\n   %s\n   %s)' % (c, then, self.block(rest))
        if isinstance(s, ast.For):
            if s.orelse:
                raise Unsupported(s, 'for-else')
            it = s.iter
            if (isinstance(it, ast.Call) and is_attr(it.func, 'items') and not it.args and isinstance(s.target, ast.Tuple)
                    and len(s.target.elts) == 2 and all(is_name(x) for x in s.target.elts)):
                k, v, r = self.expr(it.func.value)
                if k != 'json' or r:
                    raise Unsupported(s, 'items() of a %s' % k)
                a, b = s.target.elts[0].id, s.target.elts[1].id
                saved = dict(self.env)
                self.env[a] = 'str'
                self.env[b] = 'json'
                body = self.block(s.body)
                self.env = saved
                return ("(seqS (bindS (liftS (py_items %s)) (fun t_items => forS t_items (fun '(%s, %s) => %s)))\n   %s)"
                        % (v, a, b, body, self.block(rest)))
            if isinstance(it, ast.Tuple) and all(isinstance(x, ast.Constant) and isinstance(x.value, str) for x in it.elts) \
                    and is_name(s.target):
                saved = dict(self.env)
                self.env[s.target.id] = 'str'
                body = self.block(s.body)
                self.env = saved
                return '(seqS (forS [%s] (fun %s => %s))\n   %s)' % ('; '.join(coq_str(x.value) for x in it.elts), s.target.id,
                                                                  body, self.block(rest))
            raise Unsupported(s, 'for shape')
        if isinstance(s, ast.Assign) and len(s.targets) == 1:
            tg, v = s.targets[0], s.value
            if is_attr(tg, 'db') and is_name(tg.value, 'self') and self.rtype == 'unit':
                k, t, r = self.expr(v)
                if k != 'json' or r:
                    raise Unsupported(s, 'self.db = <%s>' % k)
                return '(seqS (set_db %s)\n   %s)' % (t, self.block(rest))
            # res = self.db.get(ident, None)
            if (is_name(tg) and isinstance(v, ast.Call) and is_attr(v.func, 'get') and is_attr(v.func.value, 'db')
                    and is_name(v.func.value.value, 'self') and len(v.args) == 2 and isinstance(v.args[1], ast.Constant)
                    and v.args[1].value is None and not v.keywords):
                k, a, r = self.expr(v.args[0])
                if k != 'str' or r:
                    raise Unsupported(s, 'get key')
                self.env[tg.id] = 'optjson'
                return '(bindS get_db (fun t_tab => (fun %s => %s) (jassoc %s t_tab)))' % (tg.id, self.block(rest), a)
        raise Unsupported(s, 'statement')


def simple_method(path, cls_name, meth):
    tree = ast.parse(open(os.path.join(REPO, path)).read())
    cls = [s for s in tree.body if isinstance(s, ast.ClassDef) and s.name == cls_name]
    if len(cls) != 1:
        raise Unsupported(tree, 'class %s in %s' % (cls_name, path))
    fds = [m for m in cls[0].body if isinstance(m, ast.FunctionDef) and m.name == meth]
    if len(fds) != 1 or fds[0].decorator_list or len(fds[0].args.args) != 2 or fds[0].args.defaults:
        raise Unsupported(cls[0], '%s.%s' % (cls_name, meth))
    body = [x for x in fds[0].body if not (isinstance(x, ast.Expr) and isinstance(x.value, ast.Constant))]
    return fds[0].args.args[1].arg, body


def is_none_return(s):
    return isinstance(s, ast.Return) and (s.value is None or (isinstance(s.value, ast.Constant) and s.value.value is None))


def memory_get_authkey():
    """memory.Authenticator.get_authkey over self.creds : list (bytes * option cred) (None = any falsy entry)"""
    path = 'hpfeeds/broker/auth/memory.py'
    ident, body = simple_method(path, 'Authenticator', 'get_authkey')
    out = []
    var = None
    stage = 0
    for s in body:
        if (stage == 0 and isinstance(s, ast.Assign) and len(s.targets) == 1 and is_name(s.targets[0]) and isinstance(s.value, ast.Call)
                and is_attr(s.value.func, 'get') and is_attr(s.value.func.value, 'creds') and is_name(s.value.func.value.value, 'self')
                and len(s.value.args) == 2 and is_name(s.value.args[0], ident) and isinstance(s.value.args[1], ast.Constant)
                and s.value.args[1].value is None and not s.value.keywords):
            var = s.targets[0].id
            stage = 1
        elif (stage == 1 and isinstance(s, ast.If) and not s.orelse and isinstance(s.test, ast.UnaryOp) and isinstance(s.test.op, ast.Not)
              and is_name(s.test.operand, var) and len(s.body) == 1 and is_none_return(s.body[0])):
            stage = 2
        elif (stage == 2 and isinstance(s, ast.Assign) and len(s.targets) == 1 and is_name(s.targets[0], var) and isinstance(s.value, ast.Call)
              and is_name(s.value.func, 'dict') and len(s.value.args) == 1 and is_name(s.value.args[0], var) and not s.value.keywords):
            stage = 3                   # a copy: the configured mapping itself is not handed out
        elif (stage == 3 and isinstance(s, ast.Assign) and len(s.targets) == 1 and isinstance(s.targets[0], ast.Subscript)
              and is_name(s.targets[0].value, var) and isinstance(s.targets[0].slice, ast.Constant) and s.targets[0].slice.value == 'ident'
              and is_name(s.value, ident)):
            stage = 4                   # the answer names the identity asked for (not part of the model's record)
        elif stage == 4 and isinstance(s, ast.Return) and is_name(s.value, var):
            stage = 5
        else:
            raise Unsupported(s, 'memory.get_authkey statement (stage %d)' % stage)
    if stage != 5:
        raise Unsupported(path, 'memory.get_authkey is incomplete')
    return ('(* %s: Authenticator.get_authkey *)\n'
            'Definition Memory_get_authkey (creds : list (bytes * option cred)) (%s : bytes) : option cred :=\n'
            '  let %s := mem_dict_get creds %s in\n'
            '  if negb (cred_truthy %s) then None else\n'
            '  let %s := cred_copy %s in\n'
            '  let %s := cred_set_ident %s %s in\n'
            '  %s.' % (path, ident, var, ident, var, var, var, var, var, ident, var))


def multi_get_authkey():
    """multi.Authenticator.get_authkey over self.stack : list (bytes -> option cred)"""
    path = 'hpfeeds/broker/auth/multi.py'
    ident, body = simple_method(path, 'Authenticator', 'get_authkey')
    ok = False
    if len(body) == 2 and isinstance(body[0], ast.For) and is_none_return(body[1]):
        fr = body[0]
        if (is_name(fr.target) and is_attr(fr.iter, 'stack') and is_name(fr.iter.value, 'self') and not fr.orelse and len(fr.body) == 2):
            a, i = fr.body
            m = fr.target.id
            if (isinstance(a, ast.Assign) and len(a.targets) == 1 and is_name(a.targets[0]) and isinstance(a.value, ast.Call)
                    and is_attr(a.value.func, 'get_authkey') and is_name(a.value.func.value, m) and len(a.value.args) == 1
                    and is_name(a.value.args[0], ident) and not a.value.keywords):
                r = a.targets[0].id
                if (isinstance(i, ast.If) and not i.orelse and is_name(i.test, r) and len(i.body) == 1 and isinstance(i.body[0], ast.Return)
                        and is_name(i.body[0].value, r)):
                    ok = True
    if not ok:
        raise Unsupported(path, 'multi.get_authkey shape')
    return ('(* %s: Authenticator.get_authkey *)\n'
            'Definition Multi_get_authkey (stack : list (bytes -> option cred)) (%s : bytes) : option cred :=\n'
            '  match for_first stack (fun %s => let %s := %s %s in if cred_truthy %s then Some %s else None) with\n'
            '  | Some t_r => t_r | None => None end.'
            % (path, ident, m, r, m, ident, r, r))


def env_store():
    """env.py: module functions get_key / get_list and Authenticator.get_authkey, over the environment as a list of pairs and
    str.upper as the parameter `upper`"""
    path = 'hpfeeds/broker/auth/env.py'
    tree = ast.parse(open(os.path.join(REPO, path)).read())
    fns = {s.name: s for s in tree.body if isinstance(s, ast.FunctionDef)}
    if not any(isinstance(s, ast.Import) and any(a.name == 'os' for a in s.names) for s in tree.body):
        raise Unsupported(path, 'import os')
    out = []
    # get_key(ident, value, default=None)
    g = fns.get('get_key')
    if g is None or [a.arg for a in g.args.args] != ['ident', 'value', 'default'] or len(g.args.defaults) != 1 \
            or not (isinstance(g.args.defaults[0], ast.Constant) and g.args.defaults[0].value is None):
        raise Unsupported(path, 'get_key signature')
    body = [x for x in g.body if not (isinstance(x, ast.Expr) and isinstance(x.value, ast.Constant))]

    def is_upper(s, n):
        return (isinstance(s, ast.Assign) and len(s.targets) == 1 and is_name(s.targets[0], n) and isinstance(s.value, ast.Call)
                and is_attr(s.value.func, 'upper') and is_name(s.value.func.value, n) and not s.value.args)
    ok = (len(body) == 4 and is_upper(body[0], 'ident') and is_upper(body[1], 'value')
          and isinstance(body[2], ast.Assign) and is_name(body[2].targets[0], 'key') and isinstance(body[2].value, ast.Call)
          and is_attr(body[2].value.func, 'join') and isinstance(body[2].value.func.value, ast.Constant)
          and isinstance(body[2].value.func.value.value, str) and len(body[2].value.args) == 1
          and isinstance(body[2].value.args[0], ast.Tuple)
          and isinstance(body[3], ast.Return) and isinstance(body[3].value, ast.Call) and is_attr(body[3].value.func, 'get')
          and is_attr(body[3].value.func.value, 'environ') and is_name(body[3].value.func.value.value, 'os')
          and [a.id for a in body[3].value.args if is_name(a)] == ['key', 'default'])
    if not ok:
        raise Unsupported(g, 'get_key body')
    parts = []
    for x in body[2].value.args[0].elts:
        if isinstance(x, ast.Constant) and isinstance(x.value, str):
            parts.append(coq_str(x.value))
        elif is_name(x) and x.id in ('ident', 'value'):
            parts.append(x.id)
        else:
            raise Unsupported(x, 'join element')
    out.append('(* %s: get_key; os.environ = env, str.upper = upper *)\n'
               'Definition Env_get_key (upper : bytes -> bytes) (env : list (bytes * bytes)) (ident value : bytes) (default : option bytes) : option bytes :=\n'
               '  let ident := upper ident in\n  let value := upper value in\n'
               '  let key := py_join %s [%s] in\n  env_dict_get env key default.'
               % (path, coq_str(body[2].value.func.value.value), '; '.join(parts)))
    # get_list(ident, value): [item for item in get_key(ident, value, '').split(',') if item]
    g = fns.get('get_list')
    if g is None or [a.arg for a in g.args.args] != ['ident', 'value'] or g.args.defaults:
        raise Unsupported(path, 'get_list signature')
    body = [x for x in g.body if not (isinstance(x, ast.Expr) and isinstance(x.value, ast.Constant))]
    ok = False
    if len(body) == 1 and isinstance(body[0], ast.Return) and isinstance(body[0].value, ast.ListComp):
        lc = body[0].value
        if len(lc.generators) == 1 and is_name(lc.elt) and is_name(lc.generators[0].target, lc.elt.id) and not lc.generators[0].is_async:
            gen = lc.generators[0]
            it = gen.iter
            if (len(gen.ifs) == 1 and is_name(gen.ifs[0], lc.elt.id) and isinstance(it, ast.Call) and is_attr(it.func, 'split')
                    and len(it.args) == 1 and isinstance(it.args[0], ast.Constant) and it.args[0].value == ',' and isinstance(it.func.value, ast.Call)
                    and is_name(it.func.value.func, 'get_key') and len(it.func.value.args) == 3
                    and [a.id for a in it.func.value.args[:2] if is_name(a)] == ['ident', 'value']
                    and isinstance(it.func.value.args[2], ast.Constant) and it.func.value.args[2].value == ''):
                ok = True
    if not ok:
        raise Unsupported(g, 'get_list body')
    out.append('(* %s: get_list *)\n'
               'Definition Env_get_list (upper : bytes -> bytes) (env : list (bytes * bytes)) (ident value : bytes) : list bytes :=\n'
               '  filter str_truthy (py_split_comma (opt_str (Env_get_key upper env ident value (Some [])))).' % path)
    # Authenticator.get_authkey
    ident, body = simple_method(path, 'Authenticator', 'get_authkey')
    ok = False
    if len(body) == 3 and isinstance(body[0], ast.Assign) and is_name(body[0].targets[0]) and isinstance(body[2], ast.Return) \
            and isinstance(body[2].value, ast.Dict):
        sec = body[0].targets[0].id
        v = body[0].value
        c1 = (isinstance(v, ast.Call) and is_name(v.func, 'get_key') and len(v.args) == 2 and is_name(v.args[0], ident)
              and isinstance(v.args[1], ast.Constant) and v.args[1].value == 'secret' and not v.keywords)
        i = body[1]
        c2 = (isinstance(i, ast.If) and not i.orelse and isinstance(i.test, ast.UnaryOp) and isinstance(i.test.op, ast.Not)
              and is_name(i.test.operand, sec) and len(i.body) == 1 and is_none_return(i.body[0]))
        d = body[2].value
        keys = [k.value for k in d.keys if isinstance(k, ast.Constant)]
        fields = dict(zip(keys, d.values))
        c3 = sorted(keys) == ['ident', 'owner', 'pubchans', 'secret', 'subchans'] and len(keys) == len(d.keys)
        if c1 and c2 and c3:
            o = fields['owner']
            co = (isinstance(o, ast.Call) and is_name(o.func, 'get_key') and len(o.args) == 3 and is_name(o.args[0], ident)
                  and isinstance(o.args[1], ast.Constant) and o.args[1].value == 'owner' and is_name(o.args[2], ident))

            def lst(x, nm):
                return (isinstance(x, ast.Call) and is_name(x.func, 'get_list') and len(x.args) == 2 and is_name(x.args[0], ident)
                        and isinstance(x.args[1], ast.Constant) and x.args[1].value == nm)
            ok = (co and is_name(fields['ident'], ident) and is_name(fields['secret'], sec)
                  and lst(fields['pubchans'], 'pubchans') and lst(fields['subchans'], 'subchans'))
    if not ok:
        raise Unsupported(path, 'env get_authkey shape')
    out.append('(* %s: Authenticator.get_authkey *)\n'
               'Definition Env_get_authkey (upper : bytes -> bytes) (env : list (bytes * bytes)) (%s : bytes) : option cred :=\n'
               '  let %s := Env_get_key upper env %s (B "secret") None in\n'
               '  if negb (optstr_truthy %s) then None else\n'
               '  Some (mkcred (opt_str %s) (opt_str (Env_get_key upper env %s (B "owner") (Some %s)))\n'
               '               (Env_get_list upper env %s (B "pubchans")) (Env_get_list upper env %s (B "subchans"))).'
               % (path, ident, sec, ident, sec, sec, ident, ident, ident, ident))
    return out


def sqlite_store():
    """sqlite.py: Authenticator.get_authkey, matched against its shape.  SQL is read as: `select * from authkeys where ident=?`
    with the bound parameter (ident,) and fetchone() = the first row, in rowid order, whose ident column EQUALS the parameter;
    the columns come in the order of the `create table authkeys` statement of check_db"""
    import re
    path = 'hpfeeds/broker/auth/sqlite.py'
    src = open(os.path.join(REPO, path)).read()
    ident, body = simple_method(path, 'Authenticator', 'get_authkey')
    # column order of the table
    m = re.search(r'create table authkeys \(([^)]*)\)', ' '.join(src.split()))
    if not m:
        raise Unsupported(path, 'create table authkeys')
    cols = [c.strip().split()[0] for c in m.group(1).split(',')]
    if cols != ['id', 'owner', 'ident', 'secret', 'pubchans', 'subchans']:
        raise Unsupported(path, 'columns of authkeys: %r' % cols)
    ok = False
    if len(body) == 7 and isinstance(body[0], ast.Assign) and isinstance(body[1], ast.Try):
        cur = body[0].targets[0].id if is_name(body[0].targets[0]) else None
        c0 = (isinstance(body[0].value, ast.Call) and is_attr(body[0].value.func, 'cursor') and is_attr(body[0].value.func.value, 'sql')
              and is_name(body[0].value.func.value.value, 'self'))
        tr = body[1]
        q = tr.body[0].value if len(tr.body) == 2 and isinstance(tr.body[0], ast.Expr) else None
        c1 = (isinstance(q, ast.Call) and is_attr(q.func, 'execute') and is_name(q.func.value, cur) and len(q.args) == 2
              and isinstance(q.args[0], ast.Constant) and q.args[0].value == 'select * from authkeys where ident=?'
              and isinstance(q.args[1], ast.Tuple) and len(q.args[1].elts) == 1 and is_name(q.args[1].elts[0], ident))
        f = tr.body[1] if len(tr.body) == 2 else None
        c2 = (isinstance(f, ast.Assign) and is_name(f.targets[0]) and isinstance(f.value, ast.Call) and is_attr(f.value.func, 'fetchone')
              and is_name(f.value.func.value, cur) and not f.value.args)
        res = f.targets[0].id if c2 else None
        c3 = (len(tr.handlers) == 1 and is_name(tr.handlers[0].type, 'Exception') and is_none_return(tr.handlers[0].body[-1])
              and len(tr.finalbody) == 1 and not tr.orelse)
        i = body[2]
        c4 = (isinstance(i, ast.If) and not i.orelse and isinstance(i.test, ast.UnaryOp) and isinstance(i.test.op, ast.Not)
              and is_name(i.test.operand, res) and len(i.body) == 1 and is_none_return(i.body[0]))
        u = body[3]
        names = [x.id for x in u.targets[0].elts] if (isinstance(u, ast.Assign) and isinstance(u.targets[0], ast.Tuple)
                                                      and all(is_name(x) for x in u.targets[0].elts)) else []
        c5 = len(names) == 6 and is_name(u.value, res) and names[1:] == ['owner', ident, 'secret', 'pubchans', 'subchans']

        def loads(s, nm):
            return (isinstance(s, ast.Assign) and is_name(s.targets[0], nm) and isinstance(s.value, ast.Call) and is_attr(s.value.func, 'loads')
                    and is_name(s.value.func.value, 'json') and len(s.value.args) == 1 and is_name(s.value.args[0], nm))
        c6 = loads(body[4], 'pubchans') and loads(body[5], 'subchans')
        r = body[6]
        c7 = (isinstance(r, ast.Return) and isinstance(r.value, ast.Call) and is_name(r.value.func, 'dict') and not r.value.args
              and sorted(k.arg for k in r.value.keywords) == ['ident', 'owner', 'pubchans', 'secret', 'subchans']
              and all(is_name(k.value, k.arg if k.arg != 'ident' else ident) for k in r.value.keywords))
        ok = c0 and c1 and c2 and c3 and c4 and c5 and c6 and c7
    if not ok:
        raise Unsupported(path, 'sqlite get_authkey shape')
    return ('(* %s: Authenticator.get_authkey; rows = the authkeys table in rowid order, channel lists already json.loads-ed *)\n'
            'Definition Sqlite_get_authkey (rows : list sqlrow) (%s : bytes) : option cred :=\n'
            '  match sql_select_where_ident_eq rows %s with\n'
            '  | None => None\n'
            '  | Some t_row => Some (mkcred (s_secret t_row) (s_owner t_row) (s_pub t_row) (s_sub t_row))\n'
            '  end.' % (path, ident, ident))


def main():
    try:
        tree = ast.parse(open(os.path.join(REPO, SRC)).read())
        cls = [s for s in tree.body if isinstance(s, ast.ClassDef) and s.name == 'Authenticator']
        if len(cls) != 1:
            raise Unsupported(tree, 'class Authenticator')
        if not any(isinstance(s, ast.Assign) and is_name(s.targets[0], 'logger') for s in tree.body):
            raise Unsupported(tree, 'module-level logger')
        defs = []
        for name, rtype in (('load', 'unit'), ('get_authkey', 'cred')):
            fds = [m for m in cls[0].body if isinstance(m, ast.FunctionDef) and m.name == name]
            if len(fds) != 1 or fds[0].decorator_list:
                raise Unsupported(cls[0], 'method %s' % name)
            fd = fds[0]
            params = [a.arg for a in fd.args.args]
            f = Fn(name, rtype)
            if name == 'load':
                if params != ['self']:
                    raise Unsupported(fd, 'parameters')
                body = f.block(fd.body)
                defs.append('(* %s: Authenticator.load; parsed = what json.load(open(self.path)) returned, None = it raised *)\n'
                            'Definition Authenticator_load (parsed : option json) : SM unit :=\n  fnS tt %s.' % (SRC, body))
            else:
                if len(params) != 2:
                    raise Unsupported(fd, 'parameters')
                f.env[params[1]] = 'str'
                body = f.block(fd.body)
                defs.append('(* %s: Authenticator.get_authkey *)\nDefinition Authenticator_get_authkey (%s : bytes) : SM (option cred) :=\n'
                            '  fnS None %s.' % (SRC, params[1], body))
        defs.append(memory_get_authkey())
        defs.append(multi_get_authkey())
        defs.extend(env_store())
        defs.append(sqlite_store())
        txt = ('(* GENERATED by harness/pytrans4.py from %s - do not edit *)\n'
               'From Coq Require Import List Bool String.\nFrom Coq Require Import Strings.Byte.\n'
               'From HP Require Import Bytes Stores PyStore.\nImport ListNotations.\nOpen Scope string_scope.\n\n'
               % os.path.join(REPO, SRC)) + '\n\n'.join(defs) + '\n'
    except (Unsupported, OSError, SyntaxError) as e:
        sys.stderr.write('pytrans4: cannot translate: %s\n' % e)
        return 2
    old = open(OUT).read() if os.path.exists(OUT) else None
    if old != txt:
        tmp = OUT + '.tmp.%d' % os.getpid()
        open(tmp, 'w').write(txt)
        os.replace(tmp, OUT)
        print('StoreGen.v rewritten')
    return 0


if __name__ == '__main__':
    sys.exit(main())
