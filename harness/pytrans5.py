#!/venv/bin/python
"""pytrans5.py — fail-closed translator of the write path of hpfeeds/blocking/reactor.py (Reactor.write,
Reactor._socket_write_ready, Reactor._outbox_read_ready) and of the primitive steps of Queue.put / Queue.get
(hpfeeds/blocking/queue.py) to Gallina (coq/ReactorGen.v), in the layer of coq/PyReactor.v.
coq/ReactorGenEq.v proves the translated methods equal to the steps of the model (Reactor.v) the C20 theorems are about.

What sock.send / get_nowait do on a given call is an oracle argument (`so`, `go`) of the translated method.
Fragment: logging.* (skipped); `try: X = self.sock.send(self._buffer)` / `try: self._buffer += self._outbox.get_nowait()`
with `except socket.error as e:` (tests `e.args[0] == errno.NAME`, `return True/False`, bare `raise`) and
`except queue.Empty:`; `if X == 0:`; `self._connection_lost(..)`; `self._buffer = self._buffer[X:]`; `return True/False`;
`self._socket_write_ready()`; `self._outbox.put_nowait(data)`.  Anything else aborts the translation (exit 2).
"""
import ast
import os
import sys

REPO = os.environ.get('VERIF_REPO', '/repo')
HERE = os.path.dirname(os.path.abspath(__file__))
OUT = os.environ.get('PYTRANS5_OUT', os.path.join(HERE, '..', 'coq', 'ReactorGen.v'))
SRC = 'hpfeeds/blocking/reactor.py'
ERRNO = {'EAGAIN': 'EAGAIN', 'EWOULDBLOCK': 'EWOULDBLOCK'}


class Unsupported(Exception):
    def __init__(self, node, why):
        super().__init__('%s:%s: %s: %s' % (SRC, getattr(node, 'lineno', '?'), why,
                                            ast.dump(node)[:200] if isinstance(node, ast.AST) else node))


def is_name(e, n=None):
    return isinstance(e, ast.Name) and (n is None or e.id == n)


def is_attr(e, a=None):
    return isinstance(e, ast.Attribute) and (a is None or e.attr == a)


def self_attr(e, a):
    return is_attr(e, a) and is_name(e.value, 'self')


class Fn:
    def __init__(self, name, params):
        self.name = name
        self.nats = set()          # locals holding what send() returned
        self.bytes = set(params)   # parameters: frames
        self.uses = set()          # oracles used: 'so', 'go'
        self.err = None

    def terminates(self, stmts):
        stmts = [s for s in stmts if not self.is_log(s)]
        return bool(stmts) and isinstance(stmts[-1], (ast.Return, ast.Raise))

    @staticmethod
    def is_log(s):
        return (isinstance(s, ast.Expr) and isinstance(s.value, ast.Call) and is_attr(s.value.func)
                and is_name(s.value.func.value, 'logging'))

    def ret(self, s):
        v = s.value
        if v is None or (isinstance(v, ast.Constant) and v.value is None):
            return '(preturn None)'
        if isinstance(v, ast.Constant) and v.value is True:
            return '(preturn (Some true))'
        if isinstance(v, ast.Constant) and v.value is False:
            return '(preturn (Some false))'
        raise Unsupported(s, 'return value')

    def handler_sock(self, h, fall):
        """except socket.error as e: <tests on e.args[0]> ; `fall` = what runs when the handler falls off its end"""
        if not (is_attr(h.type, 'error') and is_name(h.type.value, 'socket') and h.name):
            raise Unsupported(h, 'handler type')
        e = h.name

        def blk(stmts):
            if not stmts:
                return fall
            s, rest = stmts[0], stmts[1:]
            if self.is_log(s):
                return blk(rest)
            if isinstance(s, ast.Raise) and s.exc is None and not rest:
                return '(praise_sock %s)' % e
            if isinstance(s, ast.Return) and not rest:
                return self.ret(s)
            if (isinstance(s, ast.If) and not s.orelse and isinstance(s.test, ast.Compare) and len(s.test.ops) == 1
                    and isinstance(s.test.ops[0], ast.Eq) and isinstance(s.test.left, ast.Subscript)
                    and is_attr(s.test.left.value, 'args') and is_name(s.test.left.value.value, e)
                    and isinstance(s.test.left.slice, ast.Constant) and s.test.left.slice.value == 0
                    and is_attr(s.test.comparators[0]) and is_name(s.test.comparators[0].value, 'errno')
                    and s.test.comparators[0].attr in ERRNO and len(s.body) == 1 and isinstance(s.body[0], ast.Return)):
                return '(pif (errkind_eqb %s %s) %s %s)' % (e, ERRNO[s.test.comparators[0].attr], self.ret(s.body[0]), blk(rest))
            raise Unsupported(s, 'statement in the socket.error handler')
        falls = not self.terminates(h.body)
        return '(fun %s => %s)' % (e, blk(h.body)), falls

    def block(self, stmts):
        if not stmts:
            return 'pfall'
        s, rest = stmts[0], stmts[1:]
        if self.is_log(s) or (isinstance(s, ast.Expr) and isinstance(s.value, ast.Constant)):
            return self.block(rest)
        if isinstance(s, ast.Return):
            if rest:
                raise Unsupported(s, 'code after return')
            return self.ret(s)
        if isinstance(s, ast.Try):
            if s.orelse or s.finalbody or len(s.body) != 1 or not 1 <= len(s.handlers) <= 2:
                raise Unsupported(s, 'try shape')
            b = s.body[0]
            # the guarded call and what is done with its value
            if (isinstance(b, ast.Assign) and len(b.targets) == 1 and is_name(b.targets[0]) and isinstance(b.value, ast.Call)
                    and is_attr(b.value.func, 'send') and self_attr(b.value.func.value, 'sock') and len(b.value.args) == 1
                    and self_attr(b.value.args[0], '_buffer') and not b.value.keywords):
                self.uses.add('so')
                var = b.targets[0].id
                call = '(fun s => sock_send so (buffer (rs s)) s)'
                kind = 'nat'
                after = None
            elif (isinstance(b, ast.AugAssign) and isinstance(b.op, ast.Add) and self_attr(b.target, '_buffer')
                  and isinstance(b.value, ast.Call) and is_attr(b.value.func, 'get_nowait') and self_attr(b.value.func.value, '_outbox')
                  and not b.value.args and not b.value.keywords):
                self.uses.add('go')
                var = 't_item'
                call = '(outbox_get go)'
                kind = 'bytes'
                after = '(peff (fun r => set_buffer (buffer r ++ t_item) r))'
            else:
                raise Unsupported(s, 'guarded statement')
            hs, he = None, 'None'
            falls = False
            for h in s.handlers:
                if is_attr(h.type, 'error'):
                    if hs is not None:
                        raise Unsupported(h, 'two socket.error handlers')
                    hs, f = self.handler_sock(h, 'pfall')
                    falls = falls or f
                elif is_attr(h.type, 'Empty') and is_name(h.type.value, 'queue') and not h.name:
                    body = [x for x in h.body if not self.is_log(x)]
                    if len(body) != 1 or not isinstance(body[0], ast.Return):
                        raise Unsupported(h, 'queue.Empty handler')
                    he = '(Some %s)' % self.ret(body[0])
                else:
                    raise Unsupported(h, 'handler type')
            if hs is None:
                raise Unsupported(s, 'no socket.error handler')
            if kind == 'nat':
                self.nats.add(var)
            if falls:
                # a handler can fall off its end: the statements after the try run then too, and must not use the value
                k = after if after else 'pfall'
                for n in ast.walk(ast.Module(body=rest, type_ignores=[])):
                    if is_name(n, var):
                        raise Unsupported(s, 'value of the guarded call used after a handler that falls through')
                return '(pseq (ptry_bind %s %s %s (fun %s => %s))\n   %s)' % (call, hs, he, var, k, self.block(rest))
            k = self.block(rest) if after is None else '(pseq %s %s)' % (after, self.block(rest))
            return '(ptry_bind %s %s %s (fun %s => %s))' % (call, hs, he, var, k)
        if isinstance(s, ast.If):
            t = s.test
            if (isinstance(t, ast.Compare) and len(t.ops) == 1 and isinstance(t.ops[0], ast.Eq) and is_name(t.left) and t.left.id in self.nats
                    and isinstance(t.comparators[0], ast.Constant) and t.comparators[0].value == 0 and not s.orelse
                    and self.terminates(s.body)):
                return '(pif (Nat.eqb %s 0) %s\n   %s)' % (t.left.id, self.block(s.body), self.block(rest))
            raise Unsupported(s, 'if')
        if isinstance(s, ast.Assign) and len(s.targets) == 1 and self_attr(s.targets[0], '_buffer'):
            v = s.value
            if (isinstance(v, ast.Subscript) and self_attr(v.value, '_buffer') and isinstance(v.slice, ast.Slice) and v.slice.upper is None
                    and v.slice.step is None and is_name(v.slice.lower) and v.slice.lower.id in self.nats):
                return '(pseq (peff (fun r => set_buffer (skipn %s (buffer r)) r))\n   %s)' % (v.slice.lower.id, self.block(rest))
            raise Unsupported(s, 'assignment to self._buffer')
        if isinstance(s, ast.Expr) and isinstance(s.value, ast.Call) and not s.value.keywords:
            c = s.value
            if self_attr(c.func, '_connection_lost') and len(c.args) == 1 and isinstance(c.args[0], ast.Constant):
                return '(pseq p_conn_lost\n   %s)' % self.block(rest)
            if self_attr(c.func, '_socket_write_ready') and not c.args and self.name != '_socket_write_ready':
                self.uses.add('so')
                return '(pseq (pcall (Reactor_socket_write_ready so))\n   %s)' % self.block(rest)
            if (is_attr(c.func, 'put_nowait') and self_attr(c.func.value, '_outbox') and len(c.args) == 1 and is_name(c.args[0])
                    and c.args[0].id in self.bytes):
                return '(pseq (peff (p_put %s))\n   %s)' % (c.args[0].id, self.block(rest))
        raise Unsupported(s, 'statement')


def queue_steps():
    """hpfeeds/blocking/queue.py: Queue.put / Queue.get as the sequences of the model's primitive steps (Reactor.qev), in the
    source's order: the superclass put / get, and one wake-up byte sent / received on the socket pair"""
    path = 'hpfeeds/blocking/queue.py'
    tree = ast.parse(open(os.path.join(REPO, path)).read())
    cls = [s for s in tree.body if isinstance(s, ast.ClassDef) and s.name == 'Queue']
    if len(cls) != 1:
        raise Unsupported(path, 'class Queue')

    def sup(c, name, args):
        return (isinstance(c, ast.Call) and is_attr(c.func, name) and isinstance(c.func.value, ast.Call) and is_name(c.func.value.func, 'super')
                and [a.id for a in c.args if is_name(a)] == args and len(c.args) == len(args) and not c.keywords)
    out = {}
    for m in cls[0].body:
        if not isinstance(m, ast.FunctionDef) or m.name not in ('put', 'get'):
            continue
        if m.decorator_list:
            raise Unsupported(m, 'decorated')
        params = [a.arg for a in m.args.args][1:]
        body = [x for x in m.body if not (isinstance(x, ast.Expr) and isinstance(x.value, ast.Constant))]
        steps = []
        for s in body:
            if m.name == 'put' and isinstance(s, ast.Expr) and sup(s.value, 'put', params):
                steps.append('PutItem item')
            elif (m.name == 'put' and isinstance(s, ast.Expr) and isinstance(s.value, ast.Call) and is_attr(s.value.func, 'send')
                  and self_attr(s.value.func.value, '_putsocket') and len(s.value.args) == 1 and isinstance(s.value.args[0], ast.Constant)
                  and isinstance(s.value.args[0].value, bytes) and len(s.value.args[0].value) == 1):
                steps.append('PutWake')
            elif (m.name == 'get' and isinstance(s, ast.Expr) and isinstance(s.value, ast.Call) and is_attr(s.value.func, 'recv')
                  and self_attr(s.value.func.value, '_getsocket') and len(s.value.args) == 1 and isinstance(s.value.args[0], ast.Constant)
                  and s.value.args[0].value == 1):
                steps.append('GetWake')
            elif m.name == 'get' and isinstance(s, ast.Return) and sup(s.value, 'get', params[:1]):
                steps.append('GetItem')
            else:
                raise Unsupported(s, 'statement of Queue.%s' % m.name)
        if m.name == 'put' and (not params or params[0] != 'item'):
            raise Unsupported(m, 'parameters of put')
        out[m.name] = steps
    if set(out) != {'put', 'get'}:
        raise Unsupported(path, 'Queue.put / Queue.get')
    return ['(* %s: Queue.put - its primitive steps, in order *)\nDefinition Queue_put (item : nat) : list qev := [%s].' % (path, '; '.join(out['put'])),
            '(* %s: Queue.get - its primitive steps, in order *)\nDefinition Queue_get : list qev := [%s].' % (path, '; '.join(out['get']))]


def main():
    try:
        tree = ast.parse(open(os.path.join(REPO, SRC)).read())
        cls = [s for s in tree.body if isinstance(s, ast.ClassDef) and s.name == 'Reactor']
        if len(cls) != 1:
            raise Unsupported(tree, 'class Reactor')
        imports = set()
        for s in tree.body:
            if isinstance(s, ast.Import):
                imports |= {a.asname or a.name for a in s.names}
            elif isinstance(s, ast.ImportFrom) and s.module is None and s.level == 1:
                imports |= {a.asname or a.name for a in s.names}
        if not {'errno', 'socket', 'logging', 'queue'} <= imports:
            raise Unsupported(tree, 'imports')
        defs = []
        for name in ('write', '_socket_write_ready', '_outbox_read_ready'):
            fds = [m for m in cls[0].body if isinstance(m, ast.FunctionDef) and m.name == name]
            if len(fds) != 1 or fds[0].decorator_list or fds[0].args.defaults or fds[0].args.vararg or fds[0].args.kwarg:
                raise Unsupported(cls[0], 'method %s' % name)
            fd = fds[0]
            params = [a.arg for a in fd.args.args][1:]
            f = Fn(name, params)
            body = f.block(fd.body)
            binders = ''.join(' (%s : %s)' % (o, t) for o, t in (('go', 'getout'), ('so', 'sendout')) if o in f.uses)
            binders += ''.join(' (%s : bytes)' % p for p in params)
            defs.append('(* %s: Reactor.%s *)\nDefinition Reactor_%s%s : PM (option bool) :=\n  pfn %s.'
                        % (SRC, name, name.lstrip('_'), binders, body))
        defs.extend(queue_steps())
        txt = ('(* GENERATED by harness/pytrans5.py from %s - do not edit *)\n'
               'From Coq Require Import List Bool Arith.\nFrom HP Require Import Bytes Reactor PyReactor.\nImport ListNotations.\n\n'
               % os.path.join(REPO, SRC)) + '\n\n'.join(defs) + '\n'
    except (Unsupported, OSError, SyntaxError) as e:
        sys.stderr.write('pytrans5: cannot translate: %s\n' % e)
        return 2
    old = open(OUT).read() if os.path.exists(OUT) else None
    if old != txt:
        tmp = OUT + '.tmp.%d' % os.getpid()
        open(tmp, 'w').write(txt)
        os.replace(tmp, OUT)
        print('ReactorGen.v rewritten')
    return 0


if __name__ == '__main__':
    sys.exit(main())
