#!/venv/bin/python
"""pytrans5.py — fail-closed translator of the write path of hpfeeds/blocking/reactor.py (Reactor.write,
Reactor._socket_write_ready, Reactor._outbox_read_ready) and of the primitive steps of Queue.put / Queue.get
(hpfeeds/blocking/queue.py) to Gallina (coq/ReactorGen.v), in the layer of coq/PyReactor.v.
coq/ReactorGenEq.v proves the translated methods equal to the steps of the model (Reactor.v) the C20 theorems are about.

What sock.send / get_nowait do on a given call is an oracle argument (`so`, `go`) of the translated method.
Fragment: logging.* (skipped); `try: X = self.sock.send(self._buffer)` / `try: self._buffer += self._outbox.get_nowait()`
with `except socket.error as e:` (tests `e.args[0] == errno.NAME`, `return True/False`, bare `raise`) and
`except queue.Empty:`; `if X == 0:`; `self._connection_lost(..)`; `self._buffer = self._buffer[X:]`; `return True/False`;
`self._socket_write_ready()`; `self._outbox.put_nowait(data)`.  Anything else aborts the translation (exit 2).
"""
import ast
import os
import sys

REPO = os.environ.get('VERIF_REPO', '/repo')
HERE = os.path.dirname(os.path.abspath(__file__))
OUT = os.environ.get('PYTRANS5_OUT', os.path.join(HERE, '..', 'coq', 'ReactorGen.v'))
SRC = 'hpfeeds/blocking/reactor.py'
ERRNO = {'EAGAIN': 'EAGAIN', 'EWOULDBLOCK': 'EWOULDBLOCK'}


class Unsupported(Exception):
    def __init__(self, node, why):
        super().__init__('%s:%s: %s: %s' % (SRC, getattr(node, 'lineno', '?'), why,
                                            ast.dump(node)[:200] if isinstance(node, ast.AST) else node))


def is_name(e, n=None):
    return isinstance(e, ast.Name) and (n is None or e.id == n)


def is_attr(e, a=None):
    return isinstance(e, ast.Attribute) and (a is None or e.attr == a)


def self_attr(e, a):
    return is_attr(e, a) and is_name(e.value, 'self')


class Fn:
    def __init__(self, name, params):
        self.name = name
        self.nats = set()          # locals holding what send() returned
        self.bytes = set(params)   # parameters: frames
        self.uses = set()          # oracles used: 'so', 'go'
        self.err = None

    def terminates(self, stmts):
        stmts = [s for s in stmts if not self.is_log(s)]
        return bool(stmts) and isinstance(stmts[-1], (ast.Return, ast.Raise))

    @staticmethod
    def is_log(s):
        return (isinstance(s, ast.Expr) and isinstance(s.value, ast.Call) and is_attr(s.value.func)
                and is_name(s.value.func.value, 'logging'))

    def ret(self, s):
        v = s.value
        if v is None or (isinstance(v, ast.Constant) and v.value is None):
            return '(preturn None)'
        if isinstance(v, ast.Constant) and v.value is True:
            return '(preturn (Some true))'
        if isinstance(v, ast.Constant) and v.value is False:
            return '(preturn (Some false))'
        raise Unsupported(s, 'return value')

    def handler_sock(self, h, fall):
        """except socket.error as e: <tests on e.args[0]> ; `fall` = what runs when the handler falls off its end"""
        if not (is_attr(h.type, 'error') and is_name(h.type.value, 'socket') and h.name):
            raise Unsupported(h, 'handler type')
        e = h.name

        def blk(stmts):
            if not stmts:
                return fall
            s, rest = stmts[0], stmts[1:]
            if self.is_log(s):
                return blk(rest)
            if isinstance(s, ast.Raise) and s.exc is None and not rest:
                return '(praise_sock %s)' % e
            if isinstance(s, ast.Return) and not rest:
                return self.ret(s)
            if (isinstance(s, ast.If) and not s.orelse and isinstance(s.test, ast.Compare) and len(s.test.ops) == 1
                    and isinstance(s.test.ops[0], ast.Eq) and isinstance(s.test.left, ast.Subscript)
                    and is_attr(s.test.left.value, 'args') and is_name(s.test.left.value.value, e)
                    and isinstance(s.test.left.slice, ast.Constant) and s.test.left.slice.value == 0
                    and is_attr(s.test.comparators[0]) and is_name(s.test.comparators[0].value, 'errno')
                    and s.test.comparators[0].attr in ERRNO and len(s.body) == 1 and isinstance(s.body[0], ast.Return)):
                return '(pif (errkind_eqb %s %s) %s %s)' % (e, ERRNO[s.test.comparators[0].attr], self.ret(s.body[0]), blk(rest))
            raise Unsupported(s, 'statement in the socket.error handler')
        falls = not self.terminates(h.body)
        return '(fun %s => %s)' % (e, blk(h.body)), falls

    def block(self, stmts):
        if not stmts:
            return 'pfall'
        s, rest = stmts[0], stmts[1:]
        if self.is_log(s) or (isinstance(s, ast.Expr) and isinstance(s.value, ast.Constant)):
            return self.block(rest)
        if isinstance(s, ast.Return):
            if rest:
                raise Unsupported(s, 'code after return')
            return self.ret(s)
        if isinstance(s, ast.Try):
            if s.orelse or s.finalbody or len(s.body) != 1 or not 1 <= len(s.handlers) <= 2:
                raise Unsupported(s, 'try shape')
            b = s.body[0]
            # the guarded call and what is done with its value
            if (isinstance(b, ast.Assign) and len(b.targets) == 1 and is_name(b.targets[0]) and isinstance(b.value, ast.Call)
                    and is_attr(b.value.func, 'send') and self_attr(b.value.func.value, 'sock') and len(b.value.args) == 1
                    and self_attr(b.value.args[0], '_buffer') and not b.value.keywords):
                self.uses.add('so')
                var = b.targets[0].id
                call = '(fun s => sock_send so (buffer (rs s)) s)'
                kind = 'nat'
                after = None
            elif (isinstance(b, ast.AugAssign) and isinstance(b.op, ast.Add) and self_attr(b.target, '_buffer')
                  and isinstance(b.value, ast.Call) and is_attr(b.value.func, 'get_nowait') and self_attr(b.value.func.value, '_outbox')
                  and not b.value.args and not b.value.keywords):
                self.uses.add('go')
                var = 't_item'
                call = '(outbox_get go)'
                kind = 'bytes'
                after = '(peff (fun r => set_buffer (buffer r ++ t_item) r))'
            else:
                raise Unsupported(s, 'guarded statement')
            hs, he = None, 'None'
            falls = False
            for h in s.handlers:
                if is_attr(h.type, 'error'):
                    if hs is not None:
                        raise Unsupported(h, 'two socket.error handlers')
                    hs, f = self.handler_sock(h, 'pfall')
                    falls = falls or f
                elif is_attr(h.type, 'Empty') and is_name(h.type.value, 'queue') and not h.name:
                    body = [x for x in h.body if not self.is_log(x)]
                    if len(body) != 1 or not isinstance(body[0], ast.Return):
                        raise Unsupported(h, 'queue.Empty handler')
                    he = '(Some %s)' % self.ret(body[0])
                else:
                    raise Unsupported(h, 'handler type')
            if hs is None:
                raise Unsupported(s, 'no socket.error handler')
            if kind == 'nat':
                self.nats.add(var)
            if falls:
                # a handler can fall off its end: the statements after the try run then too, and must not use the value
                k = after if after else 'pfall'
                for n in ast.walk(ast.Module(body=rest, type_ignores=[])):
                    if is_name(n, var):
                        raise Unsupported(s, 'value of the guarded call used after a handler that falls through')
                return '(pseq (ptry_bind %s %s %s (fun %s => %s))\n   %s)' % (call, hs, he, var, k, self.block(rest))
            k = self.block(rest) if after is None else '(pseq %s %s)' % (after, self.block(rest))
            return '(ptry_bind %s %s %s (fun %s => %s))' % (call, hs, he, var, k)
        if isinstance(s, ast.If):
            t = s.test
            if (isinstance(t, ast.Compare) and len(t.ops) == 1 and isinstance(t.ops[0], ast.Eq) and is_name(t.left) and t.left.id in self.nats
                    and isinstance(t.comparators[0], ast.Constant) and t.comparators[0].value == 0 and not s.orelse
                    and self.terminates(s.body)):
                return '(pif (Nat.eqb %s 0) %s\n   %s)' % (t.left.id, self.block(s.body), self.block(rest))
            raise Unsupported(s, 'if')
        if isinstance(s, ast.Assign) and len(s.targets) == 1 and self_attr(s.targets[0], '_buffer'):
            v = s.value
            if (isinstance(v, ast.Subscript) and self_attr(v.value, '_buffer') and isinstance(v.slice, ast.Slice) and v.slice.upper is None
                    and v.slice.step is None and is_name(v.slice.lower) and v.slice.lower.id in self.nats):
                return '(pseq (peff (fun r => set_buffer (skipn %s (buffer r)) r))\n   %s)' % (v.slice.lower.id, self.block(rest))
            raise Unsupported(s, 'assignment to self._buffer')
        if isinstance(s, ast.Expr) and isinstance(s.value, ast.Call) and not s.value.keywords:
            c = s.value
            if self_attr(c.func, '_connection_lost') and len(c.args) == 1 and isinstance(c.args[0], ast.Constant):
                return '(pseq p_conn_lost\n   %s)' % self.block(rest)
            if self_attr(c.func, '_socket_write_ready') and not c.args and self.name != '_socket_write_ready':
                self.uses.add('so')
                return '(pseq (pcall (Reactor_socket_write_ready so))\n   %s)' % self.block(rest)
            if (is_attr(c.func, 'put_nowait') and self_attr(c.func.value, '_outbox') and len(c.args) == 1 and is_name(c.args[0])
                    and c.args[0].id in self.bytes):
                return '(pseq (peff (p_put %s))\n   %s)' % (c.args[0].id, self.block(rest))
        raise Unsupported(s, 'statement')


def select_pass(cls):
    """Reactor._select: which descriptors are polled, and what is called for each one select() reports, in the source's order.
    Descriptor lists are pairs (has the socket, has the outbox); select.select is an oracle `sel` intersected with what was
    asked for; `if X in r and not self.m(): return` calls m only when X was reported (short-circuit `and`)."""
    fds = [m for m in cls.body if isinstance(m, ast.FunctionDef) and m.name == '_select']
    if len(fds) != 1 or fds[0].decorator_list or len(fds[0].args.args) != 1:
        raise Unsupported(cls, '_select')
    body = [x for x in fds[0].body if not Fn.is_log(x) and not (isinstance(x, ast.Expr) and isinstance(x.value, ast.Constant))]

    def fd(e):
        if self_attr(e, 'sock'):
            return 'sock'
        if self_attr(e, '_outbox'):
            return 'outbox'
        raise Unsupported(e, 'descriptor')

    def lit(e):
        if not isinstance(e, ast.List):
            raise Unsupported(e, 'descriptor list')
        have = [fd(x) for x in e.elts]
        return '(%s, %s)' % ('true' if 'sock' in have else 'false', 'true' if 'outbox' in have else 'false')
    if len(body) != 7:
        raise Unsupported(fds[0], '_select has %d statements' % len(body))
    a, b, c, d = body[0], body[1], body[2], body[3]
    names = {}
    for s in (a, b):
        if not (isinstance(s, ast.Assign) and len(s.targets) == 1 and is_name(s.targets[0])):
            raise Unsupported(s, 'descriptor list assignment')
        names[s.targets[0].id] = lit(s.value)
    if set(names) != {'want_read', 'want_write'}:
        raise Unsupported(fds[0], 'want_read / want_write')

    def app(s):
        if not (isinstance(s, ast.Expr) and isinstance(s.value, ast.Call) and is_attr(s.value.func, 'append') and is_name(s.value.func.value)
                and s.value.func.value.id in names and len(s.value.args) == 1):
            raise Unsupported(s, 'append')
        return s.value.func.value.id, fd(s.value.args[0])
    if not (isinstance(c, ast.If) and self_attr(c.test, '_buffer') and len(c.body) == 1 and len(c.orelse) == 1):
        raise Unsupported(c, 'if self._buffer')
    t1, f1 = app(c.body[0])
    t2, f2 = app(c.orelse[0])

    def upd(target, f):
        wr = 'fd_add_%s want_read' % f if target == 'want_read' else 'want_read'
        ww = 'fd_add_%s want_write' % f if target == 'want_write' else 'want_write'
        return '(%s, %s)' % (wr, ww)
    if not (isinstance(d, ast.Assign) and isinstance(d.targets[0], ast.Tuple) and [x.id for x in d.targets[0].elts if is_name(x)] == ['r', 'w', 'x']
            and isinstance(d.value, ast.Call) and is_attr(d.value.func, 'select') and is_name(d.value.func.value, 'select')
            and len(d.value.args) == 3 and is_name(d.value.args[0], 'want_read') and is_name(d.value.args[1], 'want_write')
            and isinstance(d.value.args[2], ast.List) and not d.value.args[2].elts and not d.value.keywords):
        raise Unsupported(d, 'select.select call')
    calls = []
    for s in body[4:]:
        t = s.test if isinstance(s, ast.If) else None
        if not (isinstance(t, ast.BoolOp) and isinstance(t.op, ast.And) and len(t.values) == 2 and not s.orelse and len(s.body) == 1
                and isinstance(s.body[0], ast.Return) and s.body[0].value is None):
            raise Unsupported(s, 'dispatch statement')
        m, n = t.values
        if not (isinstance(m, ast.Compare) and len(m.ops) == 1 and isinstance(m.ops[0], ast.In) and is_name(m.comparators[0])
                and m.comparators[0].id in ('r', 'w') and isinstance(n, ast.UnaryOp) and isinstance(n.op, ast.Not)
                and isinstance(n.operand, ast.Call) and is_attr(n.operand.func) and is_name(n.operand.func.value, 'self') and not n.operand.args):
            raise Unsupported(s, 'dispatch condition')
        which = fd(m.left)
        proj = ('fst ' if which == 'sock' else 'snd ') + m.comparators[0].id
        meth = n.operand.func.attr
        call = {'_socket_read_ready': 'rr', '_outbox_read_ready': '(Reactor_outbox_read_ready go so)',
                '_socket_write_ready': '(Reactor_socket_write_ready so)'}.get(meth)
        if call is None:
            raise Unsupported(s, 'dispatch to %s' % meth)
        calls.append((proj, call))
    term = 'pfall'
    for proj, call in reversed(calls):
        term = '(pif_call (%s) %s %s)' % (proj, call, term)
    return ('(* %s: Reactor._select; sel = what select() reports, rr = self._socket_read_ready (the read path, not translated) *)\n'
            'Definition Reactor_select (sel : fdset * fdset) (rr : PM (option bool)) (go : getout) (so : sendout) : PM (option bool) :=\n'
            '  pfn (fun s =>\n'
            '    let want_read := %s in\n    let want_write := %s in\n'
            "    let '(want_read, want_write) := if negb (bytes_eqb (buffer (rs s)) []) then %s else %s in\n"
            '    let r := fd_inter want_read (fst sel) in\n    let w := fd_inter want_write (snd sel) in\n'
            '    %s s).' % (SRC, names['want_read'], names['want_write'], upd(t1, f1), upd(t2, f2), term))


def connect_fresh(cls):
    """Reactor._connect: what a new connection starts with.  Of its statements only `self._buffer = b''` and
    `self._outbox = queue.Queue()` touch the write path's state; the others (the connector call, socket options, building the
    protocol and calling its connection_made, when_connected.set()) are listed here and skipped.  Both assignments must be
    there, in a method that assigns nothing else to them."""
    fds = [m for m in cls.body if isinstance(m, ast.FunctionDef) and m.name == '_connect']
    if len(fds) != 1 or fds[0].decorator_list or len(fds[0].args.args) != 1:
        raise Unsupported(cls, '_connect')
    seen = []
    for s in ast.walk(fds[0]):
        if isinstance(s, (ast.Assign, ast.AugAssign)):
            tg = s.targets[0] if isinstance(s, ast.Assign) else s.target
            if self_attr(tg, '_buffer'):
                if not (isinstance(s, ast.Assign) and isinstance(s.value, ast.Constant) and s.value.value == b''):
                    raise Unsupported(s, 'assignment to self._buffer in _connect')
                seen.append('buffer')
            elif self_attr(tg, '_outbox'):
                v = s.value
                if not (isinstance(s, ast.Assign) and isinstance(v, ast.Call) and is_attr(v.func, 'Queue') and is_name(v.func.value, 'queue')
                        and not v.args and not v.keywords):
                    raise Unsupported(s, 'assignment to self._outbox in _connect')
                seen.append('outbox')
    if sorted(seen) != ['buffer', 'outbox']:
        raise Unsupported(fds[0], '_connect must start a connection with an empty buffer and a fresh outbox (found %r)' % seen)
    order = ' '.join('(set_%s [])' % x for x in seen)
    a, b = ['(set_%s [] ' % x for x in reversed(seen)]
    return ('(* %s: Reactor._connect - what a new connection starts with (a fresh, empty outbox; no unsent bytes) *)\n'
            'Definition Reactor_connect (r : rstate) : rstate := %s%sr)).' % (SRC, a, b))


def queue_steps():
    """hpfeeds/blocking/queue.py: Queue.put / Queue.get as the sequences of the model's primitive steps (Reactor.qev), in the
    source's order: the superclass put / get, and one wake-up byte sent / received on the socket pair"""
    path = 'hpfeeds/blocking/queue.py'
    tree = ast.parse(open(os.path.join(REPO, path)).read())
    cls = [s for s in tree.body if isinstance(s, ast.ClassDef) and s.name == 'Queue']
    if len(cls) != 1:
        raise Unsupported(path, 'class Queue')

    def sup(c, name, args):
        return (isinstance(c, ast.Call) and is_attr(c.func, name) and isinstance(c.func.value, ast.Call) and is_name(c.func.value.func, 'super')
                and [a.id for a in c.args if is_name(a)] == args and len(c.args) == len(args) and not c.keywords)
    out = {}
    for m in cls[0].body:
        if not isinstance(m, ast.FunctionDef) or m.name not in ('put', 'get'):
            continue
        if m.decorator_list:
            raise Unsupported(m, 'decorated')
        params = [a.arg for a in m.args.args][1:]
        body = [x for x in m.body if not (isinstance(x, ast.Expr) and isinstance(x.value, ast.Constant))]
        steps = []
        for s in body:
            if m.name == 'put' and isinstance(s, ast.Expr) and sup(s.value, 'put', params):
                steps.append('PutItem item')
            elif (m.name == 'put' and isinstance(s, ast.Expr) and isinstance(s.value, ast.Call) and is_attr(s.value.func, 'send')
                  and self_attr(s.value.func.value, '_putsocket') and len(s.value.args) == 1 and isinstance(s.value.args[0], ast.Constant)
                  and isinstance(s.value.args[0].value, bytes) and len(s.value.args[0].value) == 1):
                steps.append('PutWake')
            elif (m.name == 'get' and isinstance(s, ast.Expr) and isinstance(s.value, ast.Call) and is_attr(s.value.func, 'recv')
                  and self_attr(s.value.func.value, '_getsocket') and len(s.value.args) == 1 and isinstance(s.value.args[0], ast.Constant)
                  and s.value.args[0].value == 1):
                steps.append('GetWake')
            elif m.name == 'get' and isinstance(s, ast.Return) and sup(s.value, 'get', params[:1]):
                steps.append('GetItem')
            else:
                raise Unsupported(s, 'statement of Queue.%s' % m.name)
        if m.name == 'put' and (not params or params[0] != 'item'):
            raise Unsupported(m, 'parameters of put')
        out[m.name] = steps
    if set(out) != {'put', 'get'}:
        raise Unsupported(path, 'Queue.put / Queue.get')
    return ['(* %s: Queue.put - its primitive steps, in order *)\nDefinition Queue_put (item : nat) : list qev := [%s].' % (path, '; '.join(out['put'])),
            '(* %s: Queue.get - its primitive steps, in order *)\nDefinition Queue_get : list qev := [%s].' % (path, '; '.join(out['get']))]


def main():
    try:
        tree = ast.parse(open(os.path.join(REPO, SRC)).read())
        cls = [s for s in tree.body if isinstance(s, ast.ClassDef) and s.name == 'Reactor']
        if len(cls) != 1:
            raise Unsupported(tree, 'class Reactor')
        imports = set()
        for s in tree.body:
            if isinstance(s, ast.Import):
                imports |= {a.asname or a.name for a in s.names}
            elif isinstance(s, ast.ImportFrom) and s.module is None and s.level == 1:
                imports |= {a.asname or a.name for a in s.names}
        if not {'errno', 'socket', 'logging', 'queue'} <= imports:
            raise Unsupported(tree, 'imports')
        defs = []
        for name in ('write', '_socket_write_ready', '_outbox_read_ready'):
            fds = [m for m in cls[0].body if isinstance(m, ast.FunctionDef) and m.name == name]
            if len(fds) != 1 or fds[0].decorator_list or fds[0].args.defaults or fds[0].args.vararg or fds[0].args.kwarg:
                raise Unsupported(cls[0], 'method %s' % name)
            fd = fds[0]
            params = [a.arg for a in fd.args.args][1:]
            f = Fn(name, params)
            body = f.block(fd.body)
            binders = ''.join(' (%s : %s)' % (o, t) for o, t in (('go', 'getout'), ('so', 'sendout')) if o in f.uses)
            binders += ''.join(' (%s : bytes)' % p for p in params)
            defs.append('(* %s: Reactor.%s *)\nDefinition Reactor_%s%s : PM (option bool) :=\n  pfn %s.'
                        % (SRC, name, name.lstrip('_'), binders, body))
        defs.append(select_pass(cls[0]))
        defs.append(connect_fresh(cls[0]))
        defs.extend(queue_steps())
        txt = ('(* GENERATED by harness/pytrans5.py from %s - do not edit *)\n'
               'From Coq Require Import List Bool Arith.\nFrom HP Require Import Bytes Reactor PyReactor.\nImport ListNotations.\n\n'
               % os.path.join(REPO, SRC)) + '\n\n'.join(defs) + '\n'
    except (Unsupported, OSError, SyntaxError) as e:
        sys.stderr.write('pytrans5: cannot translate: %s\n' % e)
        return 2
    old = open(OUT).read() if os.path.exists(OUT) else None
    if old != txt:
        tmp = OUT + '.tmp.%d' % os.getpid()
        open(tmp, 'w').write(txt)
        os.replace(tmp, OUT)
        print('ReactorGen.v rewritten')
    return 0


if __name__ == '__main__':
    sys.exit(main())
