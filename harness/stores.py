"""Drivers, generators and oracles for the credential stores (C17) and the JSON reload (C18).

The real stores run on real sqlite files, real JSON files and the real process environment.
"""
import contextlib
import io
import json
import os
import zlib

import envshim  # noqa
from common import coq_bytes

from hpfeeds.broker.auth import env as env_store
from hpfeeds.broker.auth import json as json_store
from hpfeeds.broker.auth import memory as memory_store
from hpfeeds.broker.auth import multi as multi_store
from hpfeeds.broker.auth import sqlite as sqlite_store

M32 = 4294967296


def ad(b):
    return zlib.adler32(bytes(b)) & 0xffffffff


def u8(s):
    return s.encode('utf-8')


# ---- JSON AST shared with coq/Stores.v ---------------------------------------------------------------
def to_ast(o):
    if isinstance(o, dict):
        return ('O', [(u8(k), to_ast(v)) for k, v in o.items()])
    if isinstance(o, list):
        return ('A', [to_ast(v) for v in o])
    if isinstance(o, str):
        return ('S', u8(o))
    return ('S', u8(json.dumps(o)))      # numbers, true/false/null: their JSON text (strings: their raw text)


def jfp(a):
    k, v = a
    if k == 'S':
        return ad(v)
    if k == 'A':
        acc = 7
        for x in v:
            acc = (acc * 31 + jfp(x) + 1) % M32
        return acc
    acc = 11
    for key, x in v:
        acc = (acc * 37 + ad(key) * 3 + jfp(x) + 5) % M32
    return acc


def coq_json(a):
    k, v = a
    if k == 'S':
        return 'JAtom %s' % coq_bytes(v)
    if k == 'A':
        return 'JArr [%s]' % '; '.join(coq_json(x) for x in v)
    return 'JObj [%s]' % '; '.join('(%s, %s)' % (coq_bytes(key), coq_json(x)) for key, x in v)


def parse_like_the_store(text):
    """what json.load gives for this file content, or None when it raises (modelled library)"""
    if text is None:
        return None
    try:
        return json.load(io.StringIO(text))
    except Exception:
        return None


# ---- C18 -------------------------------------------------------------------------------------------
def drive_loads(path, contents):
    """contents: list of str | None (None = file missing).  -> list of fingerprints of auth.db after each load"""
    open(path, 'w').write('{}')
    a = json_store.Authenticator(path)
    out, dbs = [], []
    for text in contents:
        if text is None:
            if os.path.exists(path):
                os.remove(path)
        else:
            with open(path, 'w') as f:
                f.write(text)
        a.load()
        dbs.append(a.db)
        out.append(jfp(to_ast(a.db)))
    return out, dbs, a


def valid_table(o):
    if not isinstance(o, dict):
        return False
    for v in o.values():
        if not isinstance(v, dict):
            return False
        if not all(k in v for k in ('owner', 'secret', 'pubchans', 'subchans')):
            return False
        if not isinstance(v['pubchans'], list) or not isinstance(v['subchans'], list):
            return False
    return True


def oracle_c18(contents, dbs):
    """all-or-nothing, judged on the implementation alone"""
    cur = {}
    for k, (text, db) in enumerate(zip(contents, dbs)):
        o = parse_like_the_store(text)
        want = o if (o is not None and valid_table(o)) else cur
        if db != want:
            if o is not None and valid_table(o):
                return 'load %d: a valid user file was not adopted completely' % k
            if db == o:
                return 'load %d: an invalid user file replaced the loaded database' % k
            return 'load %d: the database is neither the new mapping nor the previous one' % k
        cur = db
    return None


def expr_loads(contents):
    items = []
    for text in contents:
        o = parse_like_the_store(text)
        items.append('None' if o is None else 'Some (%s)' % coq_json(to_ast(o)))
    return 'run_loads [] [%s]' % '; '.join(items)


# ---- C17 -------------------------------------------------------------------------------------------
def lfp(lst):
    acc = 13
    for x in lst:
        acc = (acc * 41 + ad(x) + 3) % M32
    return acc


def cfp(res):
    """fingerprint of a get_authkey answer (dict or None) — mirrors StoresRun.cfp"""
    if not res:
        return 0
    return (ad(u8(res['secret'])) * 7 + ad(u8(res['owner'])) * 11 + lfp([u8(c) for c in res['pubchans']]) * 13
            + lfp([u8(c) for c in res['subchans']]) * 17 + 1) % M32


class quiet:
    def __enter__(self):
        self.cm = contextlib.redirect_stdout(io.StringIO())
        self.cm.__enter__()

    def __exit__(self, *a):
        return self.cm.__exit__(*a)


def coq_cred(c):
    return 'mkcred %s %s [%s] [%s]' % (coq_bytes(u8(c['secret'])), coq_bytes(u8(c['owner'])),
                                       '; '.join(coq_bytes(u8(x)) for x in c['pubchans']),
                                       '; '.join(coq_bytes(u8(x)) for x in c['subchans']))


class Built:
    """a real store + the Gallina configuration that describes it"""

    def __init__(self, kind, real, coq, cleanup=None, env=None):
        self.kind, self.real, self.coq, self.cleanup, self.env = kind, real, coq, cleanup, env or {}


def build_memory(users):
    real = memory_store.Authenticator({i: (dict(c) if c is not None else None) for i, c in users.items()})
    coq = 'SMem [%s]' % '; '.join('(%s, %s)' % (coq_bytes(u8(i)), 'None' if c is None else 'Some (%s)' % coq_cred(c))
                                  for i, c in users.items())
    return Built('memory', real, coq)


def build_sqlite(users, path):
    if os.path.exists(path):
        os.remove(path)
    with quiet():
        real = sqlite_store.Authenticator(path)
    rows = []
    for i, c in users.items():
        if c is None:
            continue
        real.sql.execute('insert into authkeys (owner, ident, secret, pubchans, subchans) values (?, ?, ?, ?, ?)',
                         (c['owner'], i, c['secret'], json.dumps(c['pubchans']), json.dumps(c['subchans'])))
        rows.append('mksql %s %s %s [%s] [%s]' % (coq_bytes(u8(c['owner'])), coq_bytes(u8(i)), coq_bytes(u8(c['secret'])),
                                                   '; '.join(coq_bytes(u8(x)) for x in c['pubchans']),
                                                   '; '.join(coq_bytes(u8(x)) for x in c['subchans'])))
    real.sql.commit()
    return Built('sqlite', real, 'SSql [%s]' % '; '.join(rows), cleanup=lambda: (real.sql.close(), os.remove(path)))


def build_json(users, path, before=None):
    """the JSON store as configured by `users`; with `before`, the user file first held that table and was loaded, then it
    was rewritten with `users` and loaded again (what the inotify watcher does): what counts is the file as it is now"""
    def tab(us):
        return {i: dict(owner=c['owner'], secret=c['secret'], pubchans=c['pubchans'], subchans=c['subchans'])
                for i, c in us.items() if c is not None}
    table = tab(users)
    with open(path, 'w') as f:
        json.dump(tab(before) if before is not None else table, f)
    real = json_store.Authenticator(path)
    real.load()
    if before is not None:
        with open(path, 'w') as f:
            json.dump(table, f)
        real.load()
    k, ast = to_ast(table)
    return Built('json', real, 'SJson [%s]' % '; '.join('(%s, %s)' % (coq_bytes(key), coq_json(x)) for key, x in ast),
                 cleanup=lambda: os.remove(path))


def env_ok(ident):
    return ident != '' and '=' not in ident and '\x00' not in ident


def build_env(users, lookups):
    env = {}
    for i, c in users.items():
        if c is None or not env_ok(i):
            continue
        up = i.upper()
        env['HPFEEDS_%s_SECRET' % up] = c['secret']
        if c.get('owner_set', True):
            env['HPFEEDS_%s_OWNER' % up] = c['owner']
        if c.get('pub_set', True):
            env['HPFEEDS_%s_PUBCHANS' % up] = ','.join(c['pubchans'])
        if c.get('sub_set', True):
            env['HPFEEDS_%s_SUBCHANS' % up] = ','.join(c['subchans'])
    names = set(users) | set(lookups)
    uppers = '; '.join('(%s, %s)' % (coq_bytes(u8(n)), coq_bytes(u8(n.upper()))) for n in sorted(names))
    coq = 'SEnv [%s] [%s]' % ('; '.join('(%s, %s)' % (coq_bytes(u8(k)), coq_bytes(u8(v))) for k, v in env.items()), uppers)
    return Built('env', env_store.Authenticator(), coq, env=env)


def build_multi(members):
    real = multi_store.Authenticator()
    for m in members:
        real.add(m.real)
    env = {}
    for m in members:
        env.update(m.env)
    return Built('multi', real, 'SMulti [%s]' % '; '.join(m.coq for m in members),
                 cleanup=lambda: [m.cleanup() for m in members if m.cleanup], env=env)


def lookup_all(built, lookups):
    """-> (fingerprints, raw answers)"""
    from unittest import mock
    # only names this store's environment defines are visible
    clean = {k: v for k, v in os.environ.items() if not k.startswith('HPFEEDS_')}
    clean.update(built.env)
    with mock.patch.dict(os.environ, clean, clear=True):
        raw = []
        for i in lookups:
            try:
                with quiet():
                    raw.append(built.real.get_authkey(i))
            except Exception as e:  # noqa
                raw.append(dict(secret='!exception %s' % type(e).__name__, owner='', pubchans=[], subchans=[]))
    return [cfp(r) for r in raw], raw


def expected_answer(kind, users, ident, env_names=None):
    """what the property says the store must answer (independent of the Coq model)"""
    if kind == 'env':
        if not env_ok(ident):
            return 'skip'
        for i, c in users.items():
            if c is not None and env_ok(i) and i.upper() == ident.upper():
                return dict(secret=c['secret'],
                            pubchans=[x for x in (c['pubchans'] if c.get('pub_set', True) else []) if x],
                            subchans=[x for x in (c['subchans'] if c.get('sub_set', True) else []) if x])
        return None
    c = users.get(ident)
    if c is None:
        return None
    return dict(secret=c['secret'], owner=c['owner'], pubchans=list(c['pubchans']), subchans=list(c['subchans']))
