"""Driver for hpfeeds.twisted.ClientSessionService with a scripted endpoint, StringTransport and task.Clock."""
import functools
import zlib

import envshim  # noqa
from common import fp, jbytes, unjbytes, coq_bytes, coq_segs
from broker import split_frames
import aiosess

from twisted.internet import defer, task
from twisted.internet import address
from twisted.test import proto_helpers
from twisted.application.internet import ClientService as RealClientService

import hpfeeds.protocol as P
from hpfeeds.twisted import service as tws
from hpfeeds.twisted import protocol as twp

twp.log.err = lambda *a, **k: None       # protocolError logs to stderr; the drop itself is what is observed


class Endpoint:
    def __init__(self):
        self.attempts = []      # (factory, deferred)

    def connect(self, factory):
        d = defer.Deferred()
        self.attempts.append((factory, d))
        return d


class RecTransport(proto_helpers.StringTransport):
    """records every write; loseConnection only marks the transport closing (the driver reports the loss)"""

    def __init__(self):
        super().__init__()
        self.calls = bytearray()
        self.closing = False

    def write(self, data):
        self.calls.extend(data)

    def loseConnection(self):
        self.closing = True

    def abortConnection(self):
        self.closing = True


class TwDriver:
    def __init__(self, ident='ident', secret='secret'):
        self.clock = task.Clock()
        self.endpoint = Endpoint()
        old = tws.ClientService
        tws.ClientService = functools.partial(RealClientService, clock=self.clock)
        try:
            self.svc = tws.ClientSessionService(self.endpoint, ident, secret, retryPolicy=lambda attempt: 1.0)
        finally:
            tws.ClientService = old
        self.conns = []
        self.reads = []
        self.trace = []
        self.raised = 0
        self.stopped = None
        self.svc.startService()

    def pending(self):
        for f, d in self.endpoint.attempts:
            if not d.called:
                return f, d
        return None

    def apply(self, ev):
        k = ev[0]
        rec = dict(ev=ev, delivered=True, raised=None)
        try:
            if k == 'ok':
                pa = self.pending()
                if pa is None:
                    rec['delivered'] = False
                else:
                    f, d = pa
                    proto = f.buildProtocol(address.IPv4Address('TCP', '127.0.0.1', 10000))
                    t = RecTransport()
                    self.conns.append([proto, t, False])
                    proto.makeConnection(t)
                    d.callback(proto)
            elif k == 'refuse':
                pa = self.pending()
                if pa is None:
                    rec['delivered'] = False
                else:
                    pa[1].errback(Exception('connection refused'))
            elif k == 'adv':
                self.clock.advance(float(ev[1]))
            elif k == 'data':
                if ev[1] >= len(self.conns) or self.conns[ev[1]][1].closing or self.conns[ev[1]][2]:
                    rec['delivered'] = False
                else:
                    proto, t, lost = self.conns[ev[1]]
                    try:
                        proto.dataReceived(unjbytes(ev[2]))
                    except Exception as e:  # noqa
                        rec['raised'] = type(e).__name__
                        t.closing = True
            elif k == 'lost':
                if ev[1] >= len(self.conns) or self.conns[ev[1]][2]:
                    rec['delivered'] = False
                else:
                    proto, t, lost = self.conns[ev[1]]
                    self.conns[ev[1]][2] = True
                    t.closing = True
                    from twisted.python import failure
                    from twisted.internet import error
                    proto.connectionLost(failure.Failure(error.ConnectionDone()))
            elif k == 'sub':
                self.svc.subscribe(unjbytes(ev[1]).decode())
            elif k == 'unsub':
                self.svc.unsubscribe(unjbytes(ev[1]).decode())
            elif k == 'pub':
                self.svc.publish(unjbytes(ev[1]).decode(), unjbytes(ev[2]))
            elif k in ('read', 'next'):
                self.reads.append(self.svc.read())
            elif k == 'stop':
                self.stopped = self.svc.stopService()
            else:
                rec['delivered'] = False
        except Exception as e:  # noqa
            rec['raised'] = '%s: %s' % (type(e).__name__, e)
        if rec['raised']:
            self.raised += 1
        rec['obs'] = self.observe()
        rec['text'] = aiosess.show_obs(rec['obs'], self.raised)
        self.trace.append(rec)
        return rec

    def observe(self):
        cur = None
        for i, (p, t, lost) in enumerate(self.conns):
            if self.svc.protocol is not None and self.svc.protocol is getattr(p, '_protocol', p):
                cur = i
        got = []
        for d in self.reads:
            if d.called:
                got.append(d.result)
        return dict(attempts=len(self.conns), pending_attempt=False, proto=cur, subs=sorted(self.svc.subscriptions),
                    closing=False, when_connected=self.svc.whenConnected.called, close='none',
                    conns=[dict(frames=[aiosess.show_frame(o, b) for o, b in split_frames(t.calls)[0]], closing=t.closing, lost=lost)
                           for p, t, lost in self.conns],
                    delivered=[(i, c, bytes(d)) for (i, c, d) in got], waiting=sum(1 for d in self.reads if not d.called),
                    queued_items=list(self.svc.read_queue.pending), connect_calls=len(self.endpoint.attempts),
                    stopped=None if self.stopped is None else self.stopped.called)


def drive(events, ident='ident', secret='secret'):
    """-> (hashes, driver, the events as the glue saw them): whether and when ClientService connects is the
    assumed environment, so an 'ok' with no connection attempt outstanding is not part of the history"""
    d = TwDriver(ident, secret)
    hashes, seen = [], []
    for ev in events:
        rec = d.apply(ev)
        if ev[0] in ('ok', 'refuse', 'adv', 'stop') and (ev[0] != 'ok' or not rec['delivered']):
            d.trace.pop()
            continue
        seen.append(ev)
        hashes.append(zlib.adler32(rec['text'].encode('latin-1')) & 0xffffffff)
    return hashes, d, seen


def expr(events, ident='ident', secret='secret'):
    return 'run_tw %s %s [%s]' % (coq_bytes(ident.encode()), coq_bytes(secret.encode()), '; '.join(aiosess.coq_event(e) for e in events))


def gen_events(rng):
    """like aiosess.gen_events but at the glue's granularity: no loop turns, connections appear when ClientService made one"""
    ev = [e for e in aiosess.gen_events(rng, with_close=False) if e[0] not in ('idle', 'close')]
    out = []
    for e in ev:
        if e[0] == 'adv':
            out.append(['adv', 1])
        elif e[0] == 'ok':
            if rng.random() < 0.85:
                out.append(['adv', 1])      # ClientService retries after its policy's delay
            out.append(e)
        else:
            out.append(e)
    return out
