#!/venv/bin/python
"""pytrans3.py — fail-closed translator of the broker's decision code to Gallina (coq/BrokerGen.v).

  hpfeeds/broker/server.py       Server.subscribe / unsubscribe / publish
  hpfeeds/broker/connection.py   Connection.is_closing / connection_lost / on_publish / on_subscribe / on_unsubscribe /
                                 authenticate / on_auth / on_auth_result / message_received / connection_made /
                                 pause_writing (with the nested deadline coroutine: its delay and what it does on expiry) /
                                 resume_writing
  hpfeeds/asyncio/protocol.py    BaseProtocol.message_received (the dispatch on the opcode, handlers resolved along
                                 Connection -> BaseProtocol), process_pending (the frame loop), data_received

Each method becomes one Gallina definition in the monad of coq/PyBroker.v (a computation over the broker model's state);
coq/BrokerGenEq.v proves every one of them equal to the hand-written function of coq/Broker.v the theorems are about.
The translation is typed by a small table of parameter kinds (conn = a Connection object, text = str/bytes, opcode,
row = what get_authkey returned) and reads attributes the way coq/PyBroker.v's header lists.  Anything outside the
fragment - an unknown statement shape, attribute, metric, method, a `return` of anything but None/False/True - aborts the
translation (exit 2), the generated file is removed and everything that depends on it stops building.

Not modelled and therefore skipped (listed, not guessed): log.*, metrics other than CLIENT_CONNECTIONS /
CONNECTION_MADE / CONNECTION_LOST / SUBSCRIPTIONS (their label expressions are attribute reads that cannot raise),
self.uid, the MeteredSocket wrapping under `if hasattr(self.transport, ...)` (the transports of the harness have
neither attribute), transport.set_write_buffer_limits and the local it is computed from, the text passed to self.error().
Ghost: the model's log of accepted actions (alog) is appended at fixed places (GHOST below); no code reads it.
"""
import ast
import os
import sys

REPO = os.environ.get('VERIF_REPO', '/repo')
HERE = os.path.dirname(os.path.abspath(__file__))
OUT = os.environ.get('PYTRANS3_OUT', os.path.join(HERE, '..', 'coq', 'BrokerGen.v'))

METHODS = [            # (class, method, parameter kinds after self), in dependency order
    ('Server', 'subscribe', ['conn', 'text']),
    ('Server', 'unsubscribe', ['conn', 'text']),
    ('Connection', 'is_closing', []),
    ('Connection', 'connection_lost', ['ignored']),
    ('Server', 'publish', ['conn', 'text', 'text']),
    ('Connection', 'on_publish', ['text', 'text', 'text']),
    ('Connection', 'on_subscribe', ['text', 'text']),
    ('Connection', 'on_unsubscribe', ['text', 'text']),
    ('Connection', 'authenticate', ['text', 'text', 'lookup']),
    ('Connection', 'on_auth', ['text', 'text']),
    ('Connection', 'on_auth_result', ['lres', 'text', 'text']),
    ('BaseProtocol', 'message_received', ['opcode', 'text']),
    ('Connection', 'message_received', ['opcode', 'text']),
    ('BaseProtocol', 'process_pending', []),
    ('BaseProtocol', 'data_received', ['text']),
    ('Connection', 'data_received', ['text']),
    ('Connection', 'connection_made', ['transport-arg']),
    ('Connection', 'pause_writing', []),
    ('Connection', 'resume_writing', []),
]
COQTY = {'conn': 'nat', 'text': 'bytes', 'lookup': 'lookup', 'opcode': 'Z', 'ignored': None, 'lres': 'lres', 'transport-arg': None}
FILES = {'Server': 'hpfeeds/broker/server.py', 'Connection': 'hpfeeds/broker/connection.py',
         'BaseProtocol': 'hpfeeds/asyncio/protocol.py'}

MODELLED_METRICS = {'CLIENT_CONNECTIONS', 'CONNECTION_MADE', 'CONNECTION_LOST', 'SUBSCRIPTIONS'}
SKIPPED_METRICS = {'CONNECTION_ERROR', 'CONNECTION_READY', 'RECEIVE_PUBLISH_COUNT', 'RECEIVE_PUBLISH_SIZE',
                   'CLIENT_SEND_BUFFER_FILL', 'CLIENT_RECEIVE_BUFFER_FILL', 'CLIENT_SEND_BUFFER_DEADLINE_START',
                   'CLIENT_SEND_BUFFER_DEADLINE_RECOVER', 'CLIENT_SEND_BUFFER_DRAIN'}
SKIPPED_ATTR_ASSIGN = {'uid'}
SKIPPED_SETUP_ATTRS = {'peer', 'port'}
OPCODES = {'OP_ERROR': 'op_error', 'OP_INFO': 'op_info', 'OP_AUTH': 'op_auth', 'OP_PUBLISH': 'op_publish',
           'OP_SUBSCRIBE': 'op_subscribe', 'OP_UNSUBSCRIBE': 'op_unsubscribe'}
# ghost actions: (class.method) -> list of (anchor, action with the method's own parameter names)
GHOST = {
    'Server.publish': [('start', 'APub source (akl (conns s source)) chan data')],
    'Connection.on_subscribe': [('after-call:subscribe', 'ASub self chan')],
    'Connection.on_unsubscribe': [('after-call:unsubscribe', 'AUnsub self chan')],
    'Connection.connection_lost': [('end', 'AGone self')],
    'Connection.authenticate': [('after-assign:subchans', 'AAuth self ident akrow_row secret')],
    'Connection.connection_made': [('start', 'AConn self (nonce (conns s self))')],
}
READERS = {'readauth': 2, 'readpublish': 3, 'readsubscribe': 2, 'readunsubscribe': 2}     # reader -> number of fields
GHOST_PARAMS = {'Server.publish': ['source', 'chan', 'data'], 'Connection.on_subscribe': ['ident', 'chan'],
                'Connection.on_unsubscribe': ['ident', 'chan'], 'Connection.authenticate': ['ident', 'secret', 'akrow']}


class Unsupported(Exception):
    def __init__(self, node, why):
        line = getattr(node, 'lineno', '?')
        super().__init__('line %s: %s: %s' % (line, why, ast.dump(node)[:220] if isinstance(node, ast.AST) else node))


def is_name(e, n=None):
    return isinstance(e, ast.Name) and (n is None or e.id == n)


def is_attr(e, attr=None):
    return isinstance(e, ast.Attribute) and (attr is None or e.attr == attr)


class Fn:
    def __init__(self, tr, cls, name, params, kinds):
        self.tr = tr
        self.cls = cls
        self.name = name
        self.key = cls + '.' + name
        self.env = {}                       # python name -> (kind, coq term)
        if cls in ('Connection', 'BaseProtocol'):
            self.env['self'] = ('conn', 'self')
        for p, k in zip(params, kinds):
            if k != 'ignored':
                self.env[p] = (k, p)
        self.enqueued = 0
        self.counted = 0
        self.rows = {}                      # lookup name -> row variable, once `if not X: ... return` has been passed
        self.opaque = set()                 # locals whose value is not modelled
        self.ghost_used = set()

    # ------------------------------------------------------------------ expressions
    # returns (kind, term, guards): term may mention the current state `s`; guards = conns whose .server is dereferenced
    def expr(self, e):
        if isinstance(e, ast.Name):
            if e.id in self.opaque:
                raise Unsupported(e, 'use of a local that is not modelled')
            if e.id in self.env:
                k, t = self.env[e.id]
                return k, t, []
            if e.id in OPCODES and e.id in self.tr.imported[self.cls]:
                return 'opcode', OPCODES[e.id], []
            raise Unsupported(e, 'unknown name')
        if isinstance(e, ast.Constant):
            if e.value is True:
                return 'bool', 'true', []
            if e.value is False:
                return 'bool', 'false', []
            raise Unsupported(e, 'constant')
        if isinstance(e, ast.Attribute):
            if self.cls == 'Server' and is_name(e.value, 'self'):
                raise Unsupported(e, 'server attribute in expression position')
            k, x, g = self.expr(e.value)
            if k == 'conn':
                table = {'ak': ('optident', 'ak (conns s %s)'), 'pubchans': ('chanlist', 'pubchans (conns s %s)'),
                         'subchans': ('chanlist', 'subchans (conns s %s)'),
                         'active_subscriptions': ('chanlist', 'active (conns s %s)'),
                         'authrand': ('text', 'nonce (conns s %s)'),
                         '_lookups_pending': ('count', '(conns s %s)'),
                         '_deadline_timer': ('timer', 'timer_running (conns s %s)')}
                if e.attr in table:
                    kk, fmt = table[e.attr]
                    return kk, '(' + fmt % x + ')', g
                if e.attr == 'server':
                    return 'server', x, g + [x]
                if e.attr == 'transport':
                    return 'transport', x, g
            raise Unsupported(e, 'attribute')
        if isinstance(e, ast.Subscript):
            # self.subscriptions[chan] (Server) / X.server.subscriptions[chan]; akrow["secret"]
            v = e.value
            if is_attr(v, 'subscriptions'):
                g = self.server_of(v.value)
                k, c, g2 = self.expr(e.slice)
                if k != 'text':
                    raise Unsupported(e, 'subscriptions key')
                return 'connlist', '(subs s %s)' % c, g + g2
            if is_name(v) and v.id in self.rows and isinstance(e.slice, ast.Constant) and e.slice.value == 'secret':
                return 'text', '(r_secret %s)' % self.rows[v.id], []
            raise Unsupported(e, 'subscript')
        if isinstance(e, ast.UnaryOp) and isinstance(e.op, ast.Not):
            k, t, g = self.expr(e.operand)
            if k == 'bool':
                return 'bool', '(negb %s)' % t, g
            if k == 'lookup':
                return 'bool', '(is_falsy_row %s)' % t, g
            if k == 'count':
                return 'bool', '(no_lookups %s)' % t, g
            raise Unsupported(e, 'not of a %s' % k)
        if isinstance(e, ast.BoolOp):
            parts = [self.expr(v) for v in e.values]
            if any(k != 'bool' for k, _, _ in parts):
                raise Unsupported(e, 'and/or of non-booleans')
            if any(g for _, _, g in parts[1:]):
                raise Unsupported(e, 'a later operand of and/or that may raise')
            op = ' && ' if isinstance(e.op, ast.And) else ' || '
            return 'bool', '(' + op.join(t for _, t, _ in parts) + ')', parts[0][2]
        if isinstance(e, ast.Compare):
            if len(e.ops) != 1:
                raise Unsupported(e, 'chained comparison')
            op = e.ops[0]
            rhs = e.comparators[0]
            if isinstance(op, (ast.Is, ast.IsNot)):
                if not (isinstance(rhs, ast.Constant) and rhs.value is None):
                    raise Unsupported(e, 'is')
                k, t, g = self.expr(e.left)
                if k != 'optident':
                    raise Unsupported(e, 'is None of a %s' % k)
                r = '(opt_none %s)' % t
                return 'bool', r if isinstance(op, ast.Is) else '(negb %s)' % r, g
            if isinstance(op, (ast.In, ast.NotIn)):
                neg = isinstance(op, ast.NotIn)
                # self not in self.server.connections
                if is_attr(rhs, 'connections'):
                    g = self.server_of(rhs.value)
                    k, x, g2 = self.expr(e.left)
                    if k != 'conn':
                        raise Unsupported(e, 'membership in connections')
                    r = '(copen (conns s %s))' % x
                    return 'bool', '(negb %s)' % r if neg else r, g + g2
                k1, a, g1 = self.expr(e.left)
                k2, l, g2 = self.expr(rhs)
                if (k1, k2) == ('text', 'chanlist'):
                    r = '(memc %s %s)' % (a, l)
                elif (k1, k2) == ('conn', 'connlist'):
                    r = '(memn %s %s)' % (a, l)
                else:
                    raise Unsupported(e, 'membership %s in %s' % (k1, k2))
                return 'bool', '(negb %s)' % r if neg else r, g1 + g2
            if isinstance(op, (ast.Eq, ast.NotEq)):
                neg = isinstance(op, ast.NotEq)
                k1, a, g1 = self.expr(e.left)
                k2, b, g2 = self.expr(rhs)
                if (k1, k2) == ('text', 'optident'):
                    r = '(opt_is %s %s)' % (a, b)
                elif (k1, k2) == ('optident', 'text'):
                    r = '(opt_is %s %s)' % (b, a)
                elif (k1, k2) == ('text', 'text'):
                    r = '(bytes_eqb %s %s)' % (a, b)
                elif (k1, k2) == ('opcode', 'opcode'):
                    r = '(%s =? %s)' % (a, b)
                else:
                    raise Unsupported(e, 'comparison of %s with %s' % (k1, k2))
                return 'bool', '(negb %s)' % r if neg else r, g1 + g2
            raise Unsupported(e, 'comparison operator')
        if isinstance(e, ast.Call):
            f = e.func
            if e.keywords:
                raise Unsupported(e, 'keyword arguments')
            if is_name(f, 'set') and len(e.args) == 1:
                k, t, g = self.expr(e.args[0])
                if k == 'connlist':
                    return 'connlist', '(nodup Nat.eq_dec %s)' % t, g
                raise Unsupported(e, 'set() of a %s' % k)
            if is_name(f, 'list') and len(e.args) == 1:
                k, t, g = self.expr(e.args[0])
                if k == 'chanlist':
                    return 'chanlist', t, g
                raise Unsupported(e, 'list() of a %s' % k)
            if is_name(f, 'hashsecret') and len(e.args) == 2 and 'hashsecret' in self.tr.imported[self.cls]:
                k1, a, g1 = self.expr(e.args[0])
                k2, b, g2 = self.expr(e.args[1])
                if (k1, k2) != ('text', 'text'):
                    raise Unsupported(e, 'hashsecret operands')
                return 'text', '(py_hashsecret %s %s)' % (a, b), g1 + g2
            if is_attr(f, 'isawaitable') and is_name(f.value, 'inspect') and len(e.args) == 1:
                k, x, g = self.expr(e.args[0])
                if k == 'lookup' and x.startswith('(store '):
                    return 'bool', 'async_store', g
                raise Unsupported(e, 'isawaitable of something that did not come from get_authkey')
            if is_attr(f, 'get_authkey') and len(e.args) == 1 and self.tr.get_authkey_ok:
                g = self.server_of(f.value)
                k, i, g2 = self.expr(e.args[0])
                if k != 'text':
                    raise Unsupported(e, 'get_authkey argument')
                return 'lookup', '(store %s)' % i, g + g2
            if is_name(f, 'hasattr') and len(e.args) == 2:
                k, _, _ = self.expr(e.args[0])
                if k == 'transport' and isinstance(e.args[1], ast.Constant) and e.args[1].value in ('_sock', '_ssl_protocol'):
                    return 'hasattr-transport', 'false', []
                raise Unsupported(e, 'hasattr')
            if is_attr(f, 'get') and is_name(f.value) and f.value.id in self.rows and len(e.args) == 2:
                key, dflt = e.args
                if (isinstance(key, ast.Constant) and key.value in ('pubchans', 'subchans')
                        and isinstance(dflt, ast.List) and not dflt.elts):
                    return 'chanlist', '(%s %s)' % ('r_pub' if key.value == 'pubchans' else 'r_sub', self.rows[f.value.id]), []
                raise Unsupported(e, 'row.get')
            if is_attr(f, 'is_closing') and not e.args:
                k, x, g = self.expr(f.value)
                if k == 'transport':
                    return 'bool', '(closing (conns s %s))' % x, g
                if k == 'conn':
                    return 'callbool', '(Connection_is_closing %s)' % x, g
            raise Unsupported(e, 'call in expression position')
        raise Unsupported(e, 'expression')

    def server_of(self, v):
        """v must denote the Server object: `self` inside Server, `X.server` inside Connection; returns guards"""
        if self.cls == 'Server' and is_name(v, 'self'):
            return []
        if is_attr(v, 'server'):
            k, x, g = self.expr(v.value)
            if k == 'conn':
                return g + [x]
        raise Unsupported(v, 'not the server object')

    @staticmethod
    def guarded(term, guards):
        for x in reversed(guards):
            term = '(with_server %s %s)' % (x, term)
        return term

    def cond(self, e):
        k, t, g = self.expr(e)
        if k == 'callbool':
            return self.guarded(t, g)
        if k not in ('bool', 'timer'):
            raise Unsupported(e, 'condition of kind %s' % k)
        return self.guarded('(pureB (fun s => %s))' % t, g)

    def eff(self, body, guards=()):
        return self.guarded('(eff (fun s => %s s))' % body, list(guards))

    def ghost(self, anchor):
        out = []
        for a, act in GHOST.get(self.key, []):
            if a == anchor:
                self.ghost_used.add(a)
                out.append('(eff (fun s => logA (%s) s))' % act)
        return out

    # ------------------------------------------------------------------ statements
    def terminates(self, stmts):
        return bool(stmts) and isinstance(stmts[-1], (ast.Return, ast.Continue))

    def seq(self, parts, rest):
        for p in reversed(parts):
            rest = '(seqB %s\n   %s)' % (p, rest)
        return rest

    def block(self, stmts, top=False):
        if not stmts:
            if top:
                return self.seq(self.ghost('end'), 'fall')
            return 'fall'
        s, rest = stmts[0], stmts[1:]
        if isinstance(s, ast.Expr) and isinstance(s.value, ast.Constant) and isinstance(s.value.value, str):
            return self.block(rest, top)
        if isinstance(s, ast.Return):
            if rest:
                raise Unsupported(s, 'code after return')
            v = s.value
            if v is None or (isinstance(v, ast.Constant) and (v.value is None or v.value is False)):
                return 'ret_none'
            if isinstance(v, ast.Constant) and v.value is True:
                return 'ret_true'
            if (self.key == 'Connection.message_received' and isinstance(v, ast.Call) and is_attr(v.func, 'message_received')
                    and isinstance(v.func.value, ast.Call) and is_name(v.func.value.func, 'super') and not v.func.value.args
                    and len(v.args) == 2 and not v.keywords and ('BaseProtocol', 'message_received') in self.tr.done):
                a = [self.expr(x) for x in v.args]
                if [k for k, _, _ in a] != ['opcode', 'text'] or any(g for _, _, g in a):
                    raise Unsupported(s, 'super().message_received arguments')
                return '(call_ret (BaseProtocol_message_received self %s %s))' % (a[0][1], a[1][1])
            if (self.key == 'Connection.data_received' and isinstance(v, ast.Call) and is_attr(v.func, 'data_received')
                    and isinstance(v.func.value, ast.Call) and is_name(v.func.value.func, 'super') and not v.func.value.args
                    and len(v.args) == 1 and not v.keywords and ('BaseProtocol', 'data_received') in self.tr.done):
                k, a, g = self.expr(v.args[0])
                if k != 'text' or g:
                    raise Unsupported(s, 'super().data_received argument')
                return '(call_ret (BaseProtocol_data_received self %s))' % a
            if self.key == 'BaseProtocol.message_received' and isinstance(v, ast.Call) and is_attr(v.func) and is_name(v.func.value, 'self') \
                    and not v.keywords and len(v.args) == 1:
                return self.dispatch(s, v)
            raise Unsupported(s, 'return of something other than None / True')
        if isinstance(s, ast.Continue):
            if rest:
                raise Unsupported(s, 'code after continue')
            return 'fall'
        if isinstance(s, ast.If):
            return self.if_stmt(s, rest, top)
        if isinstance(s, ast.For):
            if s.orelse or not is_name(s.target):
                raise Unsupported(s, 'for shape')
            k, l, g = self.expr(s.iter)
            elem = {'chanlist': 'text', 'connlist': 'conn'}.get(k)
            if elem is None:
                raise Unsupported(s, 'iteration over a %s' % k)
            saved = dict(self.env)
            self.env[s.target.id] = (elem, s.target.id)
            body = self.block(s.body)
            self.env = saved
            loop = self.guarded('(for_in (fun s => %s) (fun %s => %s))' % (l, s.target.id, body), g)
            return '(seqB %s\n   %s)' % (loop, self.block(rest, top))
        if (isinstance(s, ast.Try) and len(s.body) == 1 and isinstance(s.body[0], ast.Assign) and len(s.body[0].targets) == 1
                and is_name(s.body[0].targets[0]) and isinstance(s.body[0].value, ast.Call) and is_attr(s.body[0].value.func, 'result')
                and is_name(s.body[0].value.func.value) and self.env.get(s.body[0].value.func.value.id, ('',))[0] == 'lres'
                and not s.body[0].value.args and not s.orelse and not s.finalbody and len(s.handlers) == 1
                and is_name(s.handlers[0].type, 'Exception') and not s.handlers[0].name and self.terminates(s.handlers[0].body)):
            # try: akrow = task.result()  except Exception: ...; return   -- the completed lookup either raised or has a value
            nm = s.body[0].targets[0].id
            tk = s.body[0].value.func.value.id
            h = self.block(s.handlers[0].body)
            self.env[nm] = ('lookup', nm)
            return '(fun s => match %s with RRaise => %s s | RLook %s => %s s end)' % (tk, h, nm, self.block(rest, top))
        if isinstance(s, ast.Try) and self.key == 'BaseProtocol.process_pending' and len(s.handlers) == 1 \
                and is_name(s.handlers[0].type, 'ProtocolException') and 'ProtocolException' in self.tr.exc_imported:
            # try: for opcode, data in self.unpacker: if self.message_received(opcode, data): break
            # except ProtocolException as e: ...
            ok = False
            if len(s.body) == 1 and isinstance(s.body[0], ast.For) and not s.orelse and not s.finalbody:
                fr = s.body[0]
                tg = fr.target
                if (is_attr(fr.iter, 'unpacker') and is_name(fr.iter.value, 'self') and not fr.orelse and isinstance(tg, ast.Tuple)
                        and len(tg.elts) == 2 and all(is_name(x) for x in tg.elts) and len(fr.body) == 1 and isinstance(fr.body[0], ast.If)):
                    iff = fr.body[0]
                    c = iff.test
                    if (not iff.orelse and len(iff.body) == 1 and isinstance(iff.body[0], ast.Break) and isinstance(c, ast.Call)
                            and is_attr(c.func, 'message_received') and is_name(c.func.value, 'self') and not c.keywords
                            and [a.id for a in c.args if is_name(a)] == [x.id for x in tg.elts] and len(c.args) == 2
                            and self.tr.resolve('message_received') == 'Connection'):
                        ok = True
            if not ok:
                raise Unsupported(s, 'frame loop shape')
            en = s.handlers[0].name
            hb = []
            for x in s.handlers[0].body:
                # self.protocol_error(str(e)): BaseProtocol's is `pass`
                if (isinstance(x, ast.Expr) and isinstance(x.value, ast.Call) and is_attr(x.value.func, 'protocol_error')
                        and is_name(x.value.func.value, 'self') and len(x.value.args) == 1 and isinstance(x.value.args[0], ast.Call)
                        and is_name(x.value.args[0].func, 'str') and [a.id for a in x.value.args[0].args if is_name(a)] == [en]
                        and self.tr.resolve('protocol_error') == 'pass'):
                    continue
                hb.append(x)
            h = self.block(hb)
            loop = ('(for_unpacker_until self (process_pending self) (fun %s %s => Connection_message_received self %s %s))'
                    % (tg.elts[0].id, tg.elts[1].id, tg.elts[0].id, tg.elts[1].id))
            return '(seqB (try_proto %s %s)\n   %s)' % (loop, h, self.block(rest, top))
        if isinstance(s, ast.Try):
            if (s.orelse or s.finalbody or len(s.handlers) != 1 or not is_name(s.handlers[0].type, 'Exception')
                    or s.handlers[0].name):
                raise Unsupported(s, 'try shape')
            b = self.block(s.body)
            h = self.block(s.handlers[0].body)
            return '(seqB (tryB %s %s)\n   %s)' % (b, h, self.block(rest, top))
        if isinstance(s, ast.AsyncFunctionDef) and self.key == 'Connection.pause_writing' and self.tr.timer is None:
            # async def deadline_timer(): await asyncio.sleep(N); <what happens when the deadline expires>
            b = [x for x in s.body if not (isinstance(x, ast.Expr) and isinstance(x.value, ast.Constant))]
            a = s.args
            if (a.args or a.vararg or a.kwarg or a.kwonlyargs or s.decorator_list or not b or not isinstance(b[0], ast.Expr)
                    or not isinstance(b[0].value, ast.Await) or not isinstance(b[0].value.value, ast.Call)
                    or not is_attr(b[0].value.value.func, 'sleep') or not is_name(b[0].value.value.func.value, 'asyncio')
                    or len(b[0].value.value.args) != 1 or not isinstance(b[0].value.value.args[0], ast.Constant)
                    or type(b[0].value.value.args[0].value) is not int or b[0].value.value.keywords):
                raise Unsupported(s, 'deadline coroutine shape')
            for x in ast.walk(ast.Module(body=b[1:], type_ignores=[])):
                if isinstance(x, (ast.Await, ast.Return, ast.AsyncFor, ast.AsyncWith)):
                    raise Unsupported(s, 'the deadline coroutine awaits or returns after its sleep')
            sub = Fn(self.tr, 'Connection', 'deadline_expired', [], [])
            self.tr.timer = (s.name, b[0].value.value.args[0].value, sub.block(b[1:]))
            return self.block(rest, top)
        if isinstance(s, ast.AugAssign):
            if (is_attr(s.target, '_lookups_pending') and is_name(s.target.value, 'self') and isinstance(s.value, ast.Constant)
                    and s.value.value == 1):
                if isinstance(s.op, ast.Add) and self.key == 'Connection.on_auth':
                    # the count of lookups in flight IS the length of the queue of registered completions (one field)
                    self.counted += 1
                    return self.block(rest, top)
                if isinstance(s.op, ast.Sub) and self.key == 'Connection.on_auth_result':
                    self.counted += 1
                    return '(seqB %s\n   %s)' % (self.eff('p_pop_pending self'), self.block(rest, top))
            raise Unsupported(s, 'augmented assignment')
        if isinstance(s, ast.Assign):
            return self.assign(s, rest, top)
        if isinstance(s, ast.Expr) and isinstance(s.value, ast.Call):
            parts = self.call_stmt(s.value)
            return self.seq(parts, self.block(rest, top))
        raise Unsupported(s, 'statement')

    def dispatch(self, s, v):
        """return self.on_x(*readx(data)) / return self.on_error(readerror(data)), the handler resolved along Connection -> BaseProtocol"""
        h = v.func.attr
        arg = v.args[0]
        star = isinstance(arg, ast.Starred)
        call = arg.value if star else arg
        if not (isinstance(call, ast.Call) and is_name(call.func) and call.func.id in self.tr.imported['BaseProtocol']
                and len(call.args) == 1 and not call.keywords):
            raise Unsupported(s, 'dispatch argument')
        k, d, g = self.expr(call.args[0])
        if k != 'text' or g:
            raise Unsupported(s, 'reader argument')
        reader = call.func.id
        where = self.tr.resolve(h)
        if where == 'raise':
            # the reader may raise, and the handler raises NotImplementedError: an exception either way
            if reader not in ('readerror', 'readinfo'):
                raise Unsupported(s, 'reader in front of a handler that is not implemented')
            return '(fun s => BRaise s)'
        if where != 'Connection' or not star or reader not in READERS:
            raise Unsupported(s, 'dispatch to %s.%s through %s' % (where, h, reader))
        n = READERS[reader]
        want = self.tr.kinds[('Connection', h)]
        if want != ['text'] * n:
            raise Unsupported(s, 'handler arity')
        names = ['a%d' % (i + 1) for i in range(n)]
        pat = '(%s)' % ', '.join(names) if n == 2 else '(%s, %s, %s)' % tuple(names)
        return '(fun s => match %s %s with Some %s => call_ret (Connection_%s self %s) s | None => BRaise s end)' % (
            reader, d, pat, h, ' '.join(names))

    def if_stmt(self, s, rest, top):
        # `if hasattr(self.transport, ..): ... elif hasattr(self.transport, ..): ...` : wrapping the socket for metering
        chain, node = [], s
        while True:
            chain.append(node)
            if len(node.orelse) == 1 and isinstance(node.orelse[0], ast.If):
                node = node.orelse[0]
                continue
            break
        try:
            kinds = [self.expr(n.test)[0] for n in chain]
        except Unsupported:
            kinds = []
        if kinds and all(k == 'hasattr-transport' for k in kinds) and not chain[-1].orelse:
            return self.block(rest, top)
        t = s.test
        if (isinstance(t, ast.Compare) and len(t.ops) == 1 and isinstance(t.ops[0], ast.IsNot) and is_name(t.left) and t.left.id in self.opaque
                and isinstance(t.comparators[0], ast.Constant) and t.comparators[0].value is None and not s.orelse
                and self.only_opaque_effects(s.body)):
            return self.block(rest, top)        # if sock is not None: sock.setsockopt(..): keep-alive options, not modelled
        if not s.orelse and all(isinstance(x, ast.Expr) and isinstance(x.value, ast.Call) for x in s.body):
            # an `if` that only guards statements that are not modelled (a metric no property names): nothing happens
            try:
                k, _, g = self.expr(t)
                empty = not g and all(self.metric(x.value) == [] for x in s.body)
            except Unsupported:
                empty = False
            if empty:
                return self.block(rest, top)
        # `if not akrow: ...; return` : from here on akrow is a row
        if (isinstance(t, ast.UnaryOp) and isinstance(t.op, ast.Not) and is_name(t.operand) and t.operand.id in self.env
                and self.env[t.operand.id][0] == 'lookup' and self.terminates(s.body) and not s.orelse):
            nm = t.operand.id
            then = self.block(s.body)
            self.rows[nm] = nm + '_row'
            els = self.block(rest, top)
            return '(fun s => match %s with LNone => %s s | LRow %s_row => %s s end)' % (nm, then, nm, els)
        c = self.cond(t)
        if self.terminates(s.body):
            then = self.block(s.body)
            els = self.block(list(s.orelse) + rest, top)
            return '(ifB %s\n   %s\n   %s)' % (c, then, els)
        then = self.block(s.body)
        els = self.block(list(s.orelse)) if s.orelse else 'fall'
        return '(seqB (ifB %s %s %s)\n   %s)' % (c, then, els, self.block(rest, top))

    def assign(self, s, rest, top):
        if len(s.targets) != 1:
            raise Unsupported(s, 'multiple targets')
        tg = s.targets[0]
        if isinstance(tg, ast.Name):
            if self.opaque_rhs(s.value):
                self.opaque.add(tg.id)
                return self.block(rest, top)
            k, t, g = self.expr(s.value)
            if k not in ('text', 'bool', 'lookup'):
                raise Unsupported(s, 'local of kind %s' % k)
            if k == 'lookup':
                self.env[tg.id] = (k, t)            # get_authkey(ident): the store's answer, named by its expression
                return self.guarded(self.block(rest, top), g)
            self.env[tg.id] = (k, tg.id)
            return self.guarded('(letB (fun s => %s) (fun %s => %s))' % (t, tg.id, self.block(rest, top)), g)
        if (isinstance(tg, ast.Tuple) and all(is_attr(x) and is_name(x.value, 'self') and x.attr in SKIPPED_SETUP_ATTRS for x in tg.elts)
                and self.is_extra_info(s.value, 'peername')):
            return self.block(rest, top)        # self.peer, self.port = transport.get_extra_info('peername'): not modelled
        if (is_attr(tg, 'transport') and is_name(tg.value, 'self') and is_name(s.value) and s.value.id in self.env
                and self.env[s.value.id][0] == 'transport-arg'):
            return self.block(rest, top)        # self.transport = transport: the connection's transport is its index
        if is_attr(tg) and is_name(tg.value, 'self') and self.cls == 'Connection':
            a = tg.attr
            if a in SKIPPED_ATTR_ASSIGN:
                return self.block(rest, top)
            if a == '_deadline_timer':
                v = s.value
                if (self.key == 'Connection.pause_writing' and self.tr.timer is not None and isinstance(v, ast.Call)
                        and is_attr(v.func, 'ensure_future') and is_name(v.func.value, 'asyncio') and len(v.args) == 1 and not v.keywords
                        and isinstance(v.args[0], ast.Call) and is_name(v.args[0].func, self.tr.timer[0]) and not v.args[0].args):
                    self.counted += 1
                    return self.seq([self.eff('p_start_timer self Connection_deadline_seconds')], self.block(rest, top))
                if self.key == 'Connection.resume_writing' and isinstance(v, ast.Constant) and v.value is None:
                    self.counted += 1               # together with .cancel(): one field (a cancelled task = no task)
                    return self.block(rest, top)
                raise Unsupported(s, 'assignment to self._deadline_timer')
            if a == 'server' and isinstance(s.value, ast.Constant) and s.value.value is None:
                parts = [self.eff('p_unregister self')]
            elif a == 'ak':
                k, t, g = self.expr(s.value)
                if k != 'text' or g:
                    raise Unsupported(s, 'self.ak = <%s>' % k)
                parts = [self.eff('p_set_ak self %s' % t)]
            elif a in ('pubchans', 'subchans'):
                k, t, g = self.expr(s.value)
                if k != 'chanlist' or g:
                    raise Unsupported(s, 'self.%s = <%s>' % (a, k))
                parts = [self.eff('p_set_%s self %s' % (a, t))]
            else:
                raise Unsupported(s, 'assignment to self.%s' % a)
            parts += self.ghost('after-assign:' + a)
            return self.seq(parts, self.block(rest, top))
        raise Unsupported(s, 'assignment target')

    def is_extra_info(self, v, key):
        return (isinstance(v, ast.Call) and is_attr(v.func, 'get_extra_info') and is_name(v.func.value) and v.func.value.id in self.env
                and self.env[v.func.value.id][0] == 'transport-arg' and len(v.args) == 1 and isinstance(v.args[0], ast.Constant)
                and v.args[0].value == key and not v.keywords)

    def opaque_rhs(self, v):
        """right-hand sides whose value is not modelled (the name may then only be used by statements that are skipped)"""
        def arith(x):
            if isinstance(x, ast.Constant) and isinstance(x.value, int):
                return True
            if is_name(x) and x.id in self.tr.imported[self.cls]:
                return True
            if isinstance(x, ast.Subscript) and is_name(x.value) and x.value.id in self.tr.imported[self.cls]:
                return arith(x.slice)
            if isinstance(x, ast.BinOp):
                return arith(x.left) and arith(x.right)
            return False
        if isinstance(v, ast.BinOp) and arith(v):
            return True                                        # high = SIZES[OP_PUBLISH] * 50
        if (isinstance(v, ast.Call) and is_attr(v.func, 'ensure_future') and is_name(v.func.value, 'asyncio') and len(v.args) == 1
                and is_name(v.args[0]) and self.env.get(v.args[0].id, ('',))[0] == 'lookup' and not v.keywords):
            return True                                        # task = asyncio.ensure_future(akrow)
        if self.is_extra_info(v, 'socket'):
            return True                                        # sock = transport.get_extra_info('socket')
        return False

    def only_opaque_effects(self, stmts):
        """statements that only call methods of locals that are not modelled (sock.setsockopt(..)), possibly under
        `if sys.platform.startswith(..)`"""
        for x in stmts:
            if isinstance(x, ast.Expr) and isinstance(x.value, ast.Call) and is_attr(x.value.func) and is_name(x.value.func.value) \
                    and x.value.func.value.id in self.opaque:
                continue
            if (isinstance(x, ast.If) and not x.orelse and isinstance(x.test, ast.Call) and is_attr(x.test.func, 'startswith')
                    and is_attr(x.test.func.value, 'platform') and is_name(x.test.func.value.value, 'sys')
                    and self.only_opaque_effects(x.body)):
                continue
            return False
        return True

    def metric(self, c):
        """NAME.inc() / NAME.dec() / NAME.labels(..).inc(..) / .dec() / .observe(..)"""
        f = c.func
        if not (is_attr(f) and f.attr in ('inc', 'dec', 'observe')):
            return None
        base, labels = f.value, None
        if isinstance(base, ast.Call) and is_attr(base.func, 'labels') and not base.keywords:
            labels = base.args
            base = base.func.value
        if not is_name(base) or base.id not in self.tr.metrics[self.cls]:
            return None
        m = base.id
        if m in SKIPPED_METRICS:
            return []
        if m not in MODELLED_METRICS:
            raise Unsupported(c, 'unknown metric')
        if f.attr == 'observe' or c.args or c.keywords:
            raise Unsupported(c, 'modelled metric with an amount')
        d = '1' if f.attr == 'inc' else '(-1)'
        if m == 'CLIENT_CONNECTIONS' and labels is None:
            return [self.eff('p_g_conn %s' % d)]
        if m == 'CONNECTION_MADE' and labels is None and f.attr == 'inc':
            return [self.eff('p_g_made 1')]
        if m == 'CONNECTION_LOST' and labels is not None and len(labels) == 1 and f.attr == 'inc':
            return [self.eff('p_g_lost 1')]
        if m == 'SUBSCRIPTIONS' and labels is not None and len(labels) == 2:
            k1, a, g1 = self.expr(labels[0])
            k2, b, g2 = self.expr(labels[1])
            if g1 or g2 or k2 != 'text':
                raise Unsupported(c, 'SUBSCRIPTIONS labels')
            if k1 == 'optident' and a.startswith('(ak '):
                a = '(akl ' + a[4:]
            elif k1 != 'text':
                raise Unsupported(c, 'SUBSCRIPTIONS ident label of kind %s' % k1)
            return [self.eff('p_gauge_subs %s %s %s' % (a, b, d))]
        raise Unsupported(c, 'use of a modelled metric')

    def call_stmt(self, c):
        f = c.func
        m = self.metric(c)
        if m is not None:
            return m
        if not is_attr(f):
            raise Unsupported(c, 'call statement')
        if is_name(f.value, 'log') and 'log' in self.tr.loggers[self.cls]:
            return []
        if c.keywords and not (f.attr == 'set_write_buffer_limits'):
            raise Unsupported(c, 'keyword arguments')
        # the server's own methods: self.m(..) inside Server, X.server.m(..) inside Connection
        if ('Server', f.attr) in self.tr.done:
            g = self.server_of(f.value)
            args = [self.expr(a) for a in c.args]
            want = self.tr.kinds[('Server', f.attr)]
            if [k for k, _, _ in args] != want or any(gg for _, _, gg in args):
                raise Unsupported(c, 'arguments of Server.%s' % f.attr)
            call = self.guarded('(call_stmt (Server_%s %s))' % (f.attr, ' '.join(t for _, t, _ in args)), g)
            return [call] + self.ghost('after-call:' + f.attr)
        # self.server.connections.discard(self)
        if f.attr == 'discard' and is_attr(f.value, 'connections') and len(c.args) == 1:
            g = self.server_of(f.value.value)
            k, x, _ = self.expr(c.args[0])
            if k != 'conn':
                raise Unsupported(c, 'discard')
            return [self.eff('p_unregister %s' % x, g)]
        # containers
        if f.attr in ('add', 'remove') and is_attr(f.value, 'active_subscriptions') and len(c.args) == 1:
            k, x, g = self.expr(f.value.value)
            k2, ch, g2 = self.expr(c.args[0])
            if (k, k2) != ('conn', 'text') or g or g2:
                raise Unsupported(c, 'active_subscriptions.%s' % f.attr)
            if f.attr == 'add':
                return [self.eff('p_active_add %s %s' % (x, ch))]
            return ['(chk (fun s => memc %s (active (conns s %s))) (p_active_remove %s %s))' % (ch, x, x, ch)]
        if f.attr in ('append', 'remove') and isinstance(f.value, ast.Subscript) and is_attr(f.value.value, 'subscriptions') \
                and len(c.args) == 1:
            g = self.server_of(f.value.value.value)
            k, ch, g1 = self.expr(f.value.slice)
            k2, x, g2 = self.expr(c.args[0])
            if (k, k2) != ('text', 'conn') or g1 or g2:
                raise Unsupported(c, 'subscriptions[..].%s' % f.attr)
            if f.attr == 'append':
                return [self.eff('p_subs_append %s %s' % (ch, x), g)]
            return [self.guarded('(chk (fun s => memn %s (subs s %s)) (p_subs_remove %s %s))' % (x, ch, ch, x), g)]
        # task.add_done_callback(lambda task: self.on_auth_result(task, ident, secret))
        if f.attr == 'add_done_callback' and is_name(f.value) and f.value.id in self.opaque and len(c.args) == 1 \
                and isinstance(c.args[0], ast.Lambda) and self.key == 'Connection.on_auth':
            lam = c.args[0]
            b = lam.body
            la = [a.arg for a in lam.args.args]
            if (len(la) == 1 and isinstance(b, ast.Call) and is_attr(b.func, 'on_auth_result') and is_name(b.func.value, 'self')
                    and not b.keywords and [a.id for a in b.args if is_name(a)] == [la[0], 'ident', 'secret'] and len(b.args) == 3
                    and self.env.get('ident', ('',))[0] == 'text' and self.env.get('secret', ('',))[0] == 'text'):
                self.enqueued += 1
                return [self.eff('p_enqueue self ident secret')]
            raise Unsupported(c, 'done-callback')
        # self.server.connections.add(self): registration in connection_made (self.server is the server given to __init__)
        if f.attr == 'add' and is_attr(f.value, 'connections') and len(c.args) == 1 and self.key == 'Connection.connection_made' \
                and is_attr(f.value.value, 'server') and is_name(f.value.value.value, 'self') and is_name(c.args[0], 'self'):
            return [self.eff('p_register self')]
        # self.info(self.server.name, self.authrand)
        if f.attr == 'info' and is_name(f.value, 'self') and len(c.args) == 2 and self.tr.base_ok.get('info') \
                and is_attr(c.args[0], 'name') and is_attr(c.args[1], 'authrand') and is_name(c.args[1].value, 'self'):
            g = self.server_of(c.args[0].value)
            return [self.guarded('(eff (fun s => wr self (FInfo bname (nonce (conns s self))) s))', g)]
        # methods of this connection that have been translated
        if is_name(f.value, 'self') and self.cls == 'Connection' and ('Connection', f.attr) in self.tr.done \
                and f.attr not in ('connection_lost',):
            args = [self.expr(a) for a in c.args]
            want = self.tr.kinds[('Connection', f.attr)]
            if [k for k, _, _ in args] != want or any(gg for _, _, gg in args):
                raise Unsupported(c, 'arguments of Connection.%s' % f.attr)
            return ['(call_stmt (Connection_%s self %s))' % (f.attr, ' '.join(t for _, t, _ in args))]
        if f.attr == 'cancel' and not c.args and is_attr(f.value, '_deadline_timer') and is_name(f.value.value, 'self') \
                and self.key == 'Connection.resume_writing':
            self.enqueued += 1
            return [self.eff('p_cancel_timer self')]
        # self.protocol_error(..): BaseProtocol's is `pass` and Connection does not override it
        if f.attr == 'protocol_error' and is_name(f.value, 'self') and self.tr.resolve('protocol_error') == 'pass':
            return []
        # self.unpacker.feed(data)
        if f.attr == 'feed' and is_attr(f.value, 'unpacker') and is_name(f.value.value, 'self') and len(c.args) == 1:
            k, a, g = self.expr(c.args[0])
            if k != 'text' or g:
                raise Unsupported(c, 'feed argument')
            return [self.eff('p_feed self %s' % a)]
        # methods of a connection
        k, x, g = self.expr(f.value)
        if k == 'conn':
            if f.attr == 'error' and len(c.args) == 1 and self.tr.base_ok['error']:
                return [self.eff('p_error %s' % x, g)]
            if f.attr == 'publish' and len(c.args) == 3 and self.tr.base_ok['publish']:
                a = [self.expr(y) for y in c.args]
                ks = [kk for kk, _, _ in a]
                if ks != ['optident', 'text', 'text'] or any(gg for _, _, gg in a) or not a[0][1].startswith('(ak '):
                    raise Unsupported(c, 'publish arguments')
                return [self.eff('p_pub_write %s (akl %s %s %s' % (x, a[0][1][4:], a[1][1], a[2][1]), g)]
            if f.attr == 'connection_lost' and len(c.args) == 1 and ('Connection', 'connection_lost') in self.tr.done:
                return [self.guarded('(call_stmt (Connection_connection_lost %s))' % x, g)]
            if f.attr == 'process_pending' and not c.args and x == 'self':
                self.tr.uses_pp = True
                return ['(of_res (process_pending self))']
        if k == 'transport':
            prim = {'close': 'cl', 'pause_reading': 'pause_r', 'resume_reading': 'resume_r'}.get(f.attr)
            if prim and not c.args:
                return [self.eff('%s %s' % (prim, x), g)]
            if f.attr == 'set_write_buffer_limits':
                return []
        raise Unsupported(c, 'call statement')


class Translator:
    def __init__(self):
        self.trees = {c: ast.parse(open(os.path.join(REPO, p)).read()) for c, p in FILES.items()}
        self.imported = {}
        self.metrics = {}
        self.loggers = {}
        self.done = set()
        self.kinds = {(c, m): [k for k in ks if k != 'ignored'] for c, m, ks in METHODS}
        self.uses_pp = False
        self.timer = None
        self.uses_super = False
        for c, t in self.trees.items():
            imp, met, logs = set(), set(), set()
            for s in t.body:
                if isinstance(s, ast.ImportFrom):
                    names = {a.asname or a.name for a in s.names}
                    if s.module == 'hpfeeds.protocol':
                        imp |= names
                    elif s.module == 'prometheus' and s.level == 1:
                        met |= names
                elif (isinstance(s, ast.Assign) and len(s.targets) == 1 and is_name(s.targets[0]) and isinstance(s.value, ast.Call)
                      and is_attr(s.value.func, 'getLogger')):
                    logs.add(s.targets[0].id)
            self.imported[c], self.metrics[c], self.loggers[c] = imp, met, logs
            if c == 'BaseProtocol':
                self.exc_imported = set()
                for s in t.body:
                    if isinstance(s, ast.ImportFrom) and s.module == 'hpfeeds.exceptions':
                        self.exc_imported |= {a.asname or a.name for a in s.names}
        self.base_ok = self.check_base()
        self.get_authkey_ok = self.check_get_authkey()

    def check_get_authkey(self):
        """Server.get_authkey must be `return self.auth.get_authkey(<its parameter>)`: the store's answer, unchanged"""
        for m in self.find_class('Server').body:
            if isinstance(m, ast.FunctionDef) and m.name == 'get_authkey':
                body = [x for x in m.body if not (isinstance(x, ast.Expr) and isinstance(x.value, ast.Constant))]
                params = [a.arg for a in m.args.args[1:]]
                if (len(body) == 1 and isinstance(body[0], ast.Return) and isinstance(body[0].value, ast.Call)
                        and is_attr(body[0].value.func, 'get_authkey') and is_attr(body[0].value.func.value, 'auth')
                        and is_name(body[0].value.func.value.value, 'self') and len(params) == 1
                        and [a.id for a in body[0].value.args if is_name(a)] == params and not body[0].value.keywords
                        and not m.decorator_list):
                    return True
        return False

    def resolve(self, name):
        """where self.<name> of a Connection is defined: 'Connection' (translated), or what BaseProtocol's default does:
        'raise' (raise NotImplementedError(..)) / 'pass'"""
        for m in self.find_class('Connection').body:
            if isinstance(m, ast.FunctionDef) and m.name == name:
                if ('Connection', name) in self.done:
                    return 'Connection'
                raise Unsupported(m, 'Connection.%s is not translated' % name)
        for m in self.find_class('BaseProtocol').body:
            if isinstance(m, ast.FunctionDef) and m.name == name:
                body = [x for x in m.body if not (isinstance(x, ast.Expr) and isinstance(x.value, ast.Constant))]
                if len(body) == 1 and isinstance(body[0], ast.Raise) and isinstance(body[0].exc, ast.Call) \
                        and is_name(body[0].exc.func, 'NotImplementedError'):
                    return 'raise'
                if len(body) == 1 and isinstance(body[0], ast.Pass):
                    return 'pass'
                raise Unsupported(m, 'BaseProtocol.%s is neither NotImplementedError nor pass' % name)
        raise Unsupported(name, 'method not found')

    def check_base(self):
        """BaseProtocol.error / publish of hpfeeds/asyncio/protocol.py must be `self.transport.write(msgX(<the parameters>))`,
        and Connection must not override them"""
        t = self.trees['BaseProtocol']
        ok = {'error': False, 'publish': False, 'info': False}
        for s in t.body:
            if isinstance(s, ast.ClassDef) and s.name == 'BaseProtocol':
                for m in s.body:
                    if isinstance(m, ast.FunctionDef) and m.name in ok:
                        body = [x for x in m.body if not (isinstance(x, ast.Expr) and isinstance(x.value, ast.Constant))]
                        want = {'error': 'msgerror', 'publish': 'msgpublish', 'info': 'msginfo'}[m.name]
                        params = [a.arg for a in m.args.args[1:]]
                        if (len(body) == 1 and isinstance(body[0], ast.Expr) and isinstance(body[0].value, ast.Call)
                                and is_attr(body[0].value.func, 'write') and is_attr(body[0].value.func.value, 'transport')
                                and is_name(body[0].value.func.value.value, 'self') and len(body[0].value.args) == 1
                                and isinstance(body[0].value.args[0], ast.Call) and is_name(body[0].value.args[0].func, want)
                                and [a.id for a in body[0].value.args[0].args if is_name(a)] == params
                                and not m.decorator_list):
                            ok[m.name] = True
        for m in self.find_class('BaseProtocol').body:
            # asyncio.Protocol's default eof_received (None: the transport closes itself) is part of the model
            if isinstance(m, ast.FunctionDef) and m.name == 'eof_received':
                raise Unsupported(m, 'BaseProtocol overrides eof_received')
        conn = self.find_class('Connection')
        bases = [b.id for b in conn.bases if is_name(b)]
        if bases != ['BaseProtocol']:
            raise Unsupported(conn, 'Connection bases')
        for m in conn.body:
            if isinstance(m, ast.FunctionDef) and m.name in ('error', 'publish', 'info', 'process_pending', 'protocol_error', 'eof_received'):
                raise Unsupported(m, 'Connection overrides BaseProtocol.%s' % m.name)
        return ok

    def find_class(self, c):
        for s in self.trees[c].body:
            if isinstance(s, ast.ClassDef) and s.name == c:
                return s
        raise Unsupported(self.trees[c], 'class %s not found' % c)

    def run(self):
        defs = []
        for c, m, kinds in METHODS:
            cls = self.find_class(c)
            fds = [x for x in cls.body if isinstance(x, ast.FunctionDef) and x.name == m]
            if len(fds) != 1:
                raise Unsupported(cls, '%s.%s not found exactly once' % (c, m))
            fd = fds[0]
            a = fd.args
            if a.vararg or a.kwarg or a.kwonlyargs or a.defaults or a.posonlyargs or fd.decorator_list:
                raise Unsupported(fd, 'signature')
            names = [x.arg for x in a.args]
            if names[0] != 'self' or len(names) - 1 != len(kinds):
                raise Unsupported(fd, 'parameters')
            params = names[1:]
            key = c + '.' + m
            if key in GHOST_PARAMS and params != GHOST_PARAMS[key]:
                raise Unsupported(fd, 'parameter names differ from the ones the ghost actions are written with')
            f = Fn(self, c, m, params, kinds)
            body = f.block(fd.body, top=True)
            body = f.seq(f.ghost('start'), body)
            for anchor, _ in GHOST.get(key, []):
                if anchor not in f.ghost_used:
                    raise Unsupported(fd, 'ghost anchor %s not met' % anchor)
            if key == 'Connection.on_auth' and (f.enqueued, f.counted) != (1, 1):
                raise Unsupported(fd, 'on_auth must register one completion and count it once (found %d, %d)' % (f.enqueued, f.counted))
            if key == 'Connection.pause_writing' and (self.timer is None or f.counted != 1):
                raise Unsupported(fd, 'pause_writing must define the deadline coroutine and start it once')
            if key == 'Connection.resume_writing' and (f.enqueued, f.counted) != (1, 1):
                raise Unsupported(fd, 'resume_writing must cancel the deadline task and forget it')
            if key == 'Connection.on_auth_result' and f.counted != 1:
                raise Unsupported(fd, 'on_auth_result must decrement the count of lookups in flight once')
            binders = (['(self : nat)'] if c in ('Connection', 'BaseProtocol') else []) + \
                      ['(%s : %s)' % (p, COQTY[k]) for p, k in zip(params, kinds) if COQTY[k] is not None]
            if key == 'Connection.pause_writing':
                defs.append('(* %s: the coroutine %s nested in Connection.pause_writing: await asyncio.sleep(N), then ... *)\n'
                            'Definition Connection_deadline_seconds : nat := %d%%nat.\n'
                            'Definition Connection_deadline_expired (self : nat) : BM bool :=\n  fn %s.'
                            % (FILES[c], self.timer[0], self.timer[1], self.timer[2]))
            defs.append('(* %s: %s.%s *)\nDefinition %s_%s %s : BM bool :=\n  fn %s.' % (FILES[c], c, m, c, m, ' '.join(binders), body))
            self.done.add((c, m))
        head = ['(* GENERATED by harness/pytrans3.py from %s, %s and %s - do not edit *)' % tuple(os.path.join(REPO, p) for p in FILES.values()),
                'From Coq Require Import ZArith List Bool Arith.',
                'From Coq Require Import Strings.Byte.',
                'From HP Require Import Bytes Utf8 Sha1 Wire Params Broker PyBroker.',
                'Import ListNotations.',
                'Open Scope Z_scope.',
                '',
                'Section Gen.',
                '(* Server.name; Server.auth.get_authkey for a synchronous store; whether get_authkey returns an awaitable *)',
                'Variable bname : bytes.',
                'Variable store : ident -> lookup.',
                'Variable async_store : bool.',
                '(* self.process_pending(): the frame loop of BaseProtocol (hand-written in BrokerGenRun.pp_src, on fuel) *)',
                'Variable process_pending : nat -> state -> res.',
                '']
        return '\n'.join(head) + '\n\n'.join(defs) + '\n\nEnd Gen.\n'


def main():
    try:
        txt = Translator().run()
    except (Unsupported, OSError, SyntaxError) as e:
        sys.stderr.write('pytrans3: cannot translate: %s\n' % e)
        return 2
    old = open(OUT).read() if os.path.exists(OUT) else None
    if old != txt:
        tmp = OUT + '.tmp.%d' % os.getpid()
        open(tmp, 'w').write(txt)
        os.replace(tmp, OUT)
        print('BrokerGen.v rewritten')
    return 0


if __name__ == '__main__':
    sys.exit(main())
