"""C20 driver: the real blocking Reactor with a scripted socket and a patched select(), and the real
wake-up Queue on its socketpair."""
import errno
import select as _select_mod
import socket
import zlib

from common import fp, coq_segs

ORIG_SELECT = _select_mod.select

from hpfeeds.blocking import reactor as R
from hpfeeds.blocking import queue as Q


class FakeSock:
    def __init__(self):
        self.sent = bytearray()
        self.outcome = None
        self.sends = 0

    def setblocking(self, f):
        pass

    def setsockopt(self, *a):
        pass

    def close(self):
        pass

    def recv(self, n):
        raise socket.error(errno.EWOULDBLOCK, 'would block')

    def send(self, data):
        self.sends += 1
        o = self.outcome
        if o is None or o[0] == 'block':
            raise socket.error(o[1] if o else errno.EAGAIN, 'try again')
        k = max(1, min(o[1], len(data)))
        self.sent.extend(bytes(data[:k]))
        if k < len(data):
            # a partial accept means the kernel's send buffer is now full: until the next wake-up further send() calls block
            self.outcome = ('block', errno.EAGAIN)
        return k


class DummyProtocol:
    def connection_made(self):
        pass

    def connection_lost(self, reason):
        pass

    def data_received(self, d):
        pass


class Rig:
    def __init__(self):
        self.sock = FakeSock()
        self.r = R.Reactor(DummyProtocol, lambda: self.sock)
        self.r._connect()
        self.problems = []

    def fake_select(self, rl, wl, xl, timeout=None):
        rr = []
        for x in rl:
            if x is self.r._outbox:
                ready, _, _ = ORIG_SELECT([x], [], [], 0)
                if ready:
                    rr.append(x)
        ww = [x for x in wl if x is self.sock]
        return rr, ww, []

    def apply(self, ev):
        if ev[0] == 'put':
            self.r.write(ev[1])
        else:
            self.sock.outcome = ('block', ev[1]) if ev[0] == 'block' else ('accept', ev[1])
            old = R.select.select
            R.select.select = self.fake_select
            try:
                self.r._select()
            finally:
                R.select.select = old
        # the wake-up queue must be select()-readable exactly when it holds an item
        ob = self.r._outbox
        ready, _, _ = ORIG_SELECT([ob], [], [], 0)
        if bool(ready) != (ob.qsize() > 0):
            self.problems.append('outbox select()-readable=%s but qsize=%d' % (bool(ready), ob.qsize()))
        return self.obs()

    def obs(self):
        buf = self.r._buffer
        s = '%s|%d|%d' % (fp(self.sock.sent), len(buf), self.r._outbox.qsize())
        return zlib.adler32(s.encode('latin-1')) & 0xffffffff

    def close(self):
        for q in (self.r._outbox,):
            try:
                q._putsocket.close()
                q._getsocket.close()
            except Exception:
                pass


def coq_events(evs):
    out = []
    for e in evs:
        if e[0] == 'put':
            out.append('CPut %s' % coq_segs(e[1]))
        elif e[0] == 'block':
            out.append('CIterBlock')
        else:
            out.append('CIterAccept %d' % e[1])
    return 'run_reactor [%s]' % '; '.join(out)


def queue_probe(rng, n=40):
    """the real Queue: FIFO, and select()-readability == non-empty at every quiescent point"""
    q = Q.Queue()
    try:
        want, got = [], []
        k = 0
        for _ in range(n):
            if rng.random() < 0.55 or not want[len(got):]:
                q.put_nowait(k)
                want.append(k)
                k += 1
            else:
                got.append(q.get_nowait())
            ready, _, _ = ORIG_SELECT([q], [], [], 0)
            if bool(ready) != (q.qsize() > 0):
                return 'queue select()-readable=%s but holds %d item(s)' % (bool(ready), q.qsize())
        while len(got) < len(want):
            got.append(q.get_nowait())
        if got != want:
            return 'queue handed items out in order %r, put order was %r' % (got[:8], want[:8])
        ready, _, _ = ORIG_SELECT([q], [], [], 0)
        if ready:
            return 'queue is select()-readable although it is empty'
    finally:
        q._putsocket.close()
        q._getsocket.close()
    return None


def queue_backlog_probe(n=700, stall=0.25):
    """the real Queue under a backlog: a producer thread puts n items while the consumer is not looking (as the reactor does
    while it is parked on a full TCP socket), then the consumer drains it the way Reactor._select does - only while the queue is
    select()-readable.  Every item must come out, in order: a wake-up that is lost leaves items nobody will ever fetch."""
    import threading
    import time
    q = Q.Queue()
    done = threading.Event()

    def producer():
        try:
            for i in range(n):
                q.put_nowait(i)
        finally:
            done.set()
    t = threading.Thread(target=producer, daemon=True)
    got = []
    try:
        t.start()
        time.sleep(stall)
        deadline = time.time() + 20
        while len(got) < n and time.time() < deadline:
            ready, _, _ = ORIG_SELECT([q], [], [], 1.0)
            if not ready:
                if done.is_set():
                    # the producer has finished: one more look (it may have finished between the two tests) and then
                    # whatever is still inside is unreachable for a consumer that waits for readability
                    ready, _, _ = ORIG_SELECT([q], [], [], 0.5)
                    if not ready:
                        break
                else:
                    continue
            got.append(q.get_nowait())
        t.join(5)
        if got != list(range(len(got))):
            return 'queue handed items out of order under a backlog: %r' % got[:8]
        if len(got) < n:
            ready, _, _ = ORIG_SELECT([q], [], [], 0)
            if ready or not done.is_set():
                return None      # out of time on a loaded machine (still readable / producer still running): inconclusive, not a failure
            return ('queue backlog: %d of %d items were handed over; it still holds %d item(s) (producer finished=%s) but is %sselect()-readable'
                    % (len(got), n, q.qsize(), done.is_set(), '' if ready else 'not '))
        return None
    finally:
        for sk in (q._putsocket, q._getsocket):
            try:
                sk.close()
            except Exception:
                pass


def callback_write_probe(rng):
    """frames written from a protocol callback (on the reactor's own thread, e.g. the OP_AUTH reply) and frames written by
    another thread go through the SAME FIFO: a frame whose write() had returned before the callback wrote its own must reach
    the socket first.  The real Reactor.run_forever runs on this thread with a scripted socket and a scripted select();
    the producer is a real second thread.  -> failure text or None"""
    import threading
    A = [bytes([65 + k]) * rng.randint(5, 40) for k in range(rng.randint(1, 3))]
    B = [bytes([97 + k]) * rng.randint(5, 40) for k in range(rng.randint(1, 2))]
    accept = rng.choice([1, 3, 7, 1000])

    class Sock(FakeSock):
        reads = 0

        def recv(self, n):
            self.reads += 1
            if self.reads == 1:
                return b'x'
            raise socket.error(errno.EWOULDBLOCK, 'would block')
    sock = Sock()

    class Proto(DummyProtocol):
        def data_received(self, d):
            for b in B:
                self.transport.write(b)          # the reactor thread writes from a callback
    r = R.Reactor(Proto, lambda: sock)
    state = dict(passes=0)

    def fake_select(rl, wl, xl, timeout=None):
        state['passes'] += 1
        if state['passes'] == 1:
            t = threading.Thread(target=lambda: [r.write(a) for a in A])     # another thread's writes, completed first
            t.start()
            t.join()
            return [x for x in rl], [], []        # the socket has data and the outbox has items
        if state['passes'] > 400:
            r.closing = True
            return [], [], []
        sock.outcome = ('accept', accept)
        rr = []
        for x in rl:
            if x is r._outbox and ORIG_SELECT([x], [], [], 0)[0]:
                rr.append(x)
        ww = [x for x in wl if x is sock]
        if not rr and not ww:
            r.closing = True                      # nothing left to do
        return rr, ww, []
    old = R.select.select
    R.select.select = fake_select
    try:
        r.run_forever()
    except Exception as e:  # noqa
        return 'the reactor loop raised %s: %s' % (type(e).__name__, e)
    finally:
        R.select.select = old
        try:
            r._outbox._putsocket.close()
            r._outbox._getsocket.close()
        except Exception:
            pass
    want = b''.join(A) + b''.join(B)
    got = bytes(sock.sent)
    if got != want:
        if sorted(got) == sorted(want) and len(got) == len(want):
            return ('frames written by another thread BEFORE a protocol callback wrote its own reached the socket AFTER them: '
                    'wire %r..., enqueue order %r...' % (got[:12], want[:12]))
        return 'the socket got %d bytes, the frames written amount to %d (first difference at %d)' % (
            len(got), len(want), next((i for i, (x, y) in enumerate(zip(got, want)) if x != y), min(len(got), len(want))))
    return None
