"""C11 / C12 / C13 — the client sessions: drivers' observations split per property, and oracles that judge the
implementation on its own (independent of the Coq model).

  asyncio ClientSession    : aiosess.AioDriver   (hand-stepped loop, scripted create_connection)
  Twisted ClientSessionService : twsess.TwDriver (real ClientService on a task.Clock and a scripted endpoint)
  blocking Client          : legacy_drv          (scripted socket)
"""
import hashlib
import zlib

import aiosess
import twsess
import legacy_drv as L
import blksess
import judge
from common import fp, jbytes, unjbytes, coq_bytes

import hpfeeds.protocol as P

PIDS = ('C11', 'C12', 'C13')
IMPORTS = 'Bytes Wire Run Stores AioSession TwSession LegacyClient BlkSession ClientRun'


def _ad(s):
    return zlib.adler32(s.encode('latin-1')) & 0xffffffff


# ---- observation texts identical to coq/ClientRun.v show11 / show12 / show13 ----------------------------------
def texts3(o, raised_total):
    wanted = sum(zlib.adler32(t.encode('utf-8')) & 0xffffffff for t in o['subs']) & 0xffffffff
    t11 = '%s|%d|%s' % ('-' if o['proto'] is None else str(o['proto']), wanted,
                        ';'.join(','.join(aiosess.canon_frames(c['frames'])) for c in o['conns']))

    def b(x):
        return x.encode('utf-8') if isinstance(x, str) else bytes(x)

    def sm(m):
        return '%s/%s/%s' % (fp(b(m[0])), fp(b(m[1])), fp(b(m[2])))
    t12 = '{%d}' % (sum(_ad(sm(m)) for m in o['delivered']) & 0xffffffff) + ','.join(sm(m) for m in o['queued_items']) \
        + '|%d,%d' % (len(o['delivered']), o['waiting'])
    cs = {'none': 'n', 'pending': 'p', 'done': 'd', 'raised': 'x'}[o['close']]
    t13 = '%d|%d|%d%d|%s|%s|%d' % (o['attempts'], o['pending_attempt'], o['closing'], o['when_connected'], cs,
                                  ''.join('%d' % c['closing'] for c in o['conns']), raised_total)
    return t11, t12, t13


def hash3(o, raised_total):
    return [_ad(t) for t in texts3(o, raised_total)]


def drive_aio(events, ident='ident', secret='secret'):
    d = aiosess.AioDriver(ident, secret)
    rows, raised = [], 0
    try:
        for ev in events:
            rec = d.apply(ev)
            if rec['raised']:
                raised += 1
            o = rec['obs']
            o['queued_items'] = list(d.session.read_queue._queue)
            rec['raised_total'] = raised
            rows.append(hash3(o, raised))
    finally:
        d.shutdown()
    return rows, d


def drive_tw(events, ident='ident', secret='secret'):
    """-> (rows, driver, events as the glue saw them)"""
    d = twsess.TwDriver(ident, secret)
    rows, seen = [], []
    stopped = False
    for ev in events:
        rec = d.apply(ev)
        stopped = stopped or ev[0] == 'stop'
        # after stopService() the rest of the history is judged by the oracles only: tearing the connection down is
        # ClientService's business, which the glue model does not contain
        if stopped or (ev[0] in ('ok', 'refuse', 'adv') and (ev[0] != 'ok' or not rec['delivered'])):
            rec['glue'] = False
            continue
        rec['glue'] = True
        rec['raised_total'] = d.raised
        seen.append(ev)
        rows.append(hash3(rec['obs'], d.raised))
    return rows, d, seen


def expr_aio(events, ident, secret):
    return 'run_aio3 %s %s [%s]' % (coq_bytes(ident.encode()), coq_bytes(secret.encode()),
                                    '; '.join(aiosess.coq_event(e) for e in events))


def expr_tw(events, ident, secret):
    return 'run_tw3 %s %s [%s]' % (coq_bytes(ident.encode()), coq_bytes(secret.encode()),
                                   '; '.join(aiosess.coq_event(e) for e in events))


# ---- generators ------------------------------------------------------------------------------------------------
def gen_aio_preauth_loss(rng):
    """directed: connections that are accepted and lost BEFORE the handshake (no OP_INFO, or part of it), refused
    attempts in between, application calls and close() at every stage of that (just lost / dialling / backing off)"""
    import hpfeeds.protocol as P
    ev = []
    k = 0
    if rng.random() < 0.7:
        ev.append(['sub', jbytes(rng.choice(aiosess.TOPICS).encode())])
    ev.append(['idle'])
    stages = rng.randint(1, 3)
    close_at = rng.randrange(0, stages * 4 + 2) if rng.random() < 0.8 else None
    step = [0]

    def tick():
        if close_at is not None and step[0] == close_at:
            ev.append(['close'])
        step[0] += 1
    for _ in range(stages):
        tick()
        while rng.random() < 0.4:
            ev.append(['refuse'])
            tick()
            ev.append(['adv', rng.choice([1, 1, 2])])
        ev.append(['ok'])
        tick()
        r = rng.random()
        info = P.msginfo('hp', bytes(rng.randrange(256) for _ in range(4)))
        if r < 0.4:
            pass                                                    # lost before any byte
        elif r < 0.75:
            ev.append(['data', k, jbytes(info[:rng.randrange(1, len(info))])])   # lost inside OP_INFO
        else:
            ev.append(['data', k, jbytes(info)])                     # handshake done (control)
        ev.append(['lost', k])
        k += 1
        tick()
        if rng.random() < 0.5:
            ev.append(['idle'])
        while rng.random() < 0.5:
            ev.append(['refuse'])
            tick()
            if rng.random() < 0.7:
                ev.append(['adv', 1])
    tick()
    if close_at is not None and not any(e[0] == 'close' for e in ev):
        ev.append(['close'])
    ev.append(rng.choice([['idle'], ['adv', 1]]))
    return ev


def gen_aio(rng):
    ev = gen_aio_preauth_loss(rng) if rng.random() < 0.2 else aiosess.gen_events(rng)
    nconn = sum(1 for e in ev if e[0] == 'ok')
    # epilogue: every transport reports its loss, the loop runs, a second passes: close() must have completed by now,
    # and a session that was not closed must be dialling again
    for k in range(nconn):
        ev.append(['lost', k])
    ev += [['idle'], ['adv', 3], ['idle']]
    return ev


def gen_tw(rng):
    ev = twsess.gen_events(rng)
    nconn = sum(1 for e in ev if e[0] == 'ok')
    stop = rng.random() < 0.4
    if stop:
        ev.insert(rng.randrange(len(ev) + 1), ['stop'])
    for k in range(nconn):
        ev.append(['lost', k])
    ev += [['adv', 3]]
    return ev


# ---- oracles for the two session classes -------------------------------------------------------------------------
def clean_prefix(frames, error_ends=True):
    """the frames a broker can send, up to the first one it cannot (no OP_INFO first, a second OP_INFO, AUTH/SUBSCRIBE/UNSUBSCRIBE
    or an undecodable body)"""
    out = []
    for idx, (op, body) in enumerate(frames):
        if (op == P.OP_INFO) != (idx == 0):
            break                   # a broker sends exactly one OP_INFO, first
        if op == P.OP_INFO:
            try:
                n = body[0]
                body[1:1 + n].decode('utf-8')
                if len(body) < 1 + n:
                    break
            except Exception:
                break
        elif op == P.OP_PUBLISH:
            try:
                n = body[0]
                i = body[1:1 + n]
                if len(i) < n:
                    break
                m = body[1 + n]
                c = body[2 + n:2 + n + m]
                if len(c) < m:
                    break
                i.decode('utf-8')
                c.decode('utf-8')
            except Exception:
                break
        elif op == P.OP_ERROR:
            try:
                body.decode('utf-8')
            except Exception:
                break
            if error_ends:
                out.append((op, body))
                break               # a broker closes the connection after OP_ERROR: nothing it sends follows one
        else:
            break
        out.append((op, body))
    return out


def is_subsequence(a, b):
    it = iter(b)
    return all(any(x == y for y in it) for x in a)


def pub_of(body):
    n = body[0]
    i = body[1:1 + n]
    m = body[1 + n]
    return (i.decode('utf-8'), body[2 + n:2 + n + m].decode('utf-8'), bytes(body[2 + n + m:]))


def session_oracles(d, ident, secret, kind):
    """d.trace: the driver's records.  -> dict pid -> failure text (first failure per property)"""
    fail = {}

    def flag(pid, k, msg):
        fail.setdefault(pid, '%s event %d %r: %s' % (kind, k, d.trace[k]['ev'][:2], msg))
    fed = {}                      # conn -> list of chunks delivered
    wanted = []                   # application history, independent of session.subscriptions
    expected = []                 # OP_PUBLISH completed so far on clean streams, in arrival order
    seen_clean = {}               # conn -> number of clean frames already accounted for
    dirty = set()
    close_at = None
    closing_seen = None
    attempts_at_close = None
    stop_at = None
    me = fp(ident.encode())
    for k, rec in enumerate(d.trace):
        ev, o = rec['ev'], rec['obs']
        if ev[0] == 'sub':
            t = unjbytes(ev[1]).decode()
            if t not in wanted:
                wanted.append(t)
        elif ev[0] == 'unsub':
            t = unjbytes(ev[1]).decode()
            if t in wanted:
                wanted.remove(t)
        elif ev[0] == 'data' and rec['delivered']:
            c = ev[1]
            fed.setdefault(c, []).append(unjbytes(ev[2]))
            allf = judge.arrived_frames(fed[c])
            cl = clean_prefix(allf)
            if len(cl) < len(allf):
                dirty.add(c)
            # was the stream cut by an undecodable header?  then nothing later counts either
            if c not in dirty:
                done = sum(len(b) + 5 for _, b in allf)
                rest = b''.join(fed[c])[done:]
                if len(rest) >= 5:
                    import struct
                    ml, op = struct.unpack('!iB', rest[:5])
                    if op > 5 or ml > P.SIZES.get(op, P.MAXBUF) or ml < 5:
                        dirty.add(c)
            for op, body in cl[seen_clean.get(c, 0):]:
                if op == P.OP_PUBLISH:
                    expected.append(pub_of(body))
            seen_clean[c] = len(cl)
        elif ev[0] == 'close' and close_at is None:
            close_at = k
        elif ev[0] == 'stop' and stop_at is None:
            stop_at = k

        # ---- C11 ----
        for c, co in enumerate(o['conns']):
            fr = co['frames']
            allf = judge.arrived_frames(fed.get(c, []))
            infos = [b for op, b in allf if op == P.OP_INFO and clean_prefix([(op, b)])]   # any complete, decodable OP_INFO
            if fr and not infos:
                flag('C11', k, 'connection %d: %r was written before any OP_INFO had arrived' % (c, fr[0]))
                continue
            if infos:
                n = infos[0][0]
                nonce = bytes(infos[0][1 + n:])
                want_auth = 'A%s/%s' % (me, fp(hashlib.sha1(nonce + secret.encode()).digest()))
                first_is_info = allf and allf[0][0] == P.OP_INFO
                if fr and fr[0] != want_auth:
                    flag('C11', k, 'connection %d: the first frame written is %r, not the OP_AUTH for this connection\'s nonce '
                                   'with the own ident and secret (%r)' % (c, fr[0], want_auth))
                if not fr and first_is_info and not co['lost']:
                    flag('C11', k, 'connection %d: OP_INFO has arrived but no OP_AUTH was written' % c)
                for f in fr[1:]:
                    if f[0] in 'SUP' and not f[1:].startswith(me + '/'):
                        flag('C11', k, 'connection %d: frame %r does not carry the own ident' % (c, f))
        cur = o['proto']
        if cur is not None:
            fr = o['conns'][cur]['frames']
            last_auth = max([i for i, f in enumerate(fr) if f.startswith('A')] or [-1])
            if last_auth < 0:
                flag('C11', k, 'the session uses connection %d although no OP_AUTH was written on it' % cur)
            else:
                net = []
                for f in fr[last_auth + 1:]:
                    ch = f.split('/', 1)[1] if '/' in f else ''
                    if f[0] == 'S' and ch not in net:
                        net.append(ch)
                    elif f[0] == 'U' and ch in net:
                        net.remove(ch)
                    elif f[0] == 'P':
                        pass
                want = sorted(fp(t.encode()) for t in wanted)
                if sorted(net) != want:
                    flag('C11', k, 'connection %d: SUBSCRIBE/UNSUBSCRIBE written since OP_AUTH amount to %r but the application wants %r'
                         % (cur, sorted(net), want))

        # ---- C12 ----
        got = list(o['delivered'])
        queued = [(i, c, bytes(p)) for i, c, p in o['queued_items']]
        exp = [(i, c, p) for i, c, p in expected]
        have = sorted(got) + queued
        if dirty:
            rest = list(have)
            for m in exp:
                if m in rest:
                    rest.remove(m)
                else:
                    flag('C12', k, 'message %r arrived on a well-formed stream but is neither handed over nor queued' % (m,))
                    break
        elif len(have) > len(exp):
            flag('C12', k, 'the application holds %d messages but the broker sent %d' % (len(have), len(exp)))
        else:
            head = exp[:len(got)]
            tail = exp[len(got):len(got) + len(queued)]
            if sorted(head) != sorted(got):
                flag('C12', k, 'messages handed to read() %r are not the first %d the broker sent %r' % (sorted(got)[:3], len(got), head[:3]))
            elif tail != queued:
                flag('C12', k, 'queued messages %r differ from / are out of order with what the broker sent next %r' % (queued[:3], tail[:3]))
            elif not dirty and len(have) < len(exp):
                flag('C12', k, 'the broker has sent %d messages but only %d reached read() or the queue' % (len(exp), len(have)))
            elif o['waiting'] and queued and ev[0] in ('idle', 'adv') and kind == 'asyncio':
                # (a waiting read() is only resumed when the loop runs)
                flag('C12', k, 'the loop has run and a read() is still waiting although %d messages are queued' % len(queued))

        # ---- C13 ----
        if kind == 'asyncio':
            # close() is a coroutine: it has been "called" once its body ran, i.e. session.closing is set
            if close_at is not None and o['closing'] and closing_seen is None:
                closing_seen = k
                attempts_at_close = o['attempts']
            if closing_seen is not None and k >= closing_seen:
                if o['attempts'] > attempts_at_close:
                    flag('C13', k, 'a connection attempt (%d -> %d) was made after close() was called' % (attempts_at_close, o['attempts']))
                if o['close'] == 'raised':
                    flag('C13', k, 'close() raised')
        else:
            if stop_at is not None and k > stop_at:
                if o['connect_calls'] > d.trace[stop_at]['obs']['connect_calls']:
                    flag('C13', k, 'ClientService dialled again after stopService()')
    # final state (after the epilogue: every transport has reported its loss, the loop ran, time passed)
    if d.trace:
        k = len(d.trace) - 1
        o = d.trace[k]['obs']
        if kind == 'asyncio':
            if close_at is not None:
                if o['close'] != 'done':
                    flag('C13', k, 'close() was called at event %d and has not completed (%s) although every transport reported its loss' % (close_at, o['close']))
                if o['pending_attempt']:
                    flag('C13', k, 'a connection attempt is outstanding after close()')
            elif not o['pending_attempt']:
                flag('C13', k, 'every connection is gone, a second has passed, and the session is not dialling again')
        else:
            if stop_at is not None:
                if not o['stopped']:
                    flag('C13', k, 'stopService() has not completed although every transport reported its loss')
            elif o['connect_calls'] <= len(d.conns) and not any(not dd.called for f, dd in d.endpoint.attempts):
                flag('C13', k, 'every connection is gone, the retry delay has passed, and the service is not dialling again')
    return fail


# ---- blocking Client ----------------------------------------------------------------------------------------------
def legacy_proj(which, trace):
    """mirror of coq/ClientRun.v proj_lev + canon_proj"""
    out, run = [], None
    for e in trace:
        is_cb = e[0] in 'ME' and not e.startswith('end')
        is_sub = e.startswith('S') and not e.startswith('sendfail') and not e.startswith('sleep')
        keep = None
        if which == 11:
            if e.startswith('conn') or e.startswith('A') or is_sub or e.startswith('sendfail'):
                keep = e
            elif is_cb:
                keep = 'cb'
        elif which == 12:
            if e.startswith('conn') or is_cb:
                keep = e
        else:
            if e in ('att', 'sleep', 'return', 'crash', 'end') or e.startswith('conn'):
                keep = e
            elif is_cb:
                keep = 'cb'
        if keep is None:
            continue
        if is_sub:
            run = ((run if run is not None else 7) + _ad(keep)) & 0xffffffff
        else:
            if run is not None:
                out.append(run)
                run = None
            out.append(_ad(keep))
    if run is not None:
        out.append(run)
    return out


def expr_legacy(which, case):
    e = L.expr(case, L.fuel(case))
    assert e.startswith('run_legacy ')
    return 'run_legacy_proj %d%%nat %s' % (which, e[len('run_legacy '):])


def legacy_oracles(case, env, outcome, ident, secret):
    fail = {}

    def flag(pid, msg):
        fail.setdefault(pid, 'blocking Client: ' + msg)
    subs = sorted(unjbytes(t) for t in case['subs'])
    cur = None
    rx = {}              # conn -> bytes returned by recv so far
    sends = {}           # conn -> raw frames sent
    cbs = {}             # conn -> callbacks made
    loop_data = {}       # conn -> number of data recvs after the AUTH was sent
    stopped = False
    for e in env.log:
        if e[0] == 'conn':
            cur = e[1]
            rx[cur], sends[cur], cbs[cur], loop_data[cur] = b'', [], [], 0
        elif e[0] == 'att':
            if stopped:
                flag('C13', 'a connection attempt was made after stop()')
        elif e[0] == 'recvcall':
            if stopped:
                flag('C13', 'recv() was called again after stop() (run() must return once the current read completes)')
            k = e[1]
            if k in rx and sends.get(k) and loop_data[k] > 0:
                want, clean = expected_callbacks(rx[k])
                if not stopped and (cbs[k] != want if clean else cbs[k][:len(want)] != want):
                    flag('C12', 'connection %d: before the next recv() the callbacks made %r are not those of the complete frames '
                                'received %r' % (k, cbs[k][:4], want[:4]))
        elif e[0] == 'recv':
            k = e[1]
            rx[k] = rx.get(k, b'') + e[2]
            if sends.get(k):
                loop_data[k] += 1
        elif e[0] in ('send', 'sendfail'):
            k = e[1]
            first = not sends.get(k)
            if e[0] == 'send':
                sends.setdefault(k, []).append(e[2])
            frames = judge.arrived_frames([rx.get(k, b'')])
            if first:
                if not frames or frames[0][0] != P.OP_INFO:
                    flag('C11', 'connection %d: something was sent before a complete OP_INFO had been received' % k)
                elif e[0] == 'send':
                    body = frames[0][1]
                    n = body[0]
                    nonce = bytes(body[1 + n:])
                    if bytes(e[2]) != P.msgauth(nonce, ident, secret):
                        flag('C11', 'connection %d: the first frame sent is not the OP_AUTH for this connection\'s nonce %r with the '
                                    'own ident and secret' % (k, nonce))
                else:
                    sends.setdefault(k, []).append(b'')     # the failed attempt counts as the first frame
        elif e[0] in ('msg', 'err'):
            k = cur
            cbs.setdefault(k, []).append(e)
            sent = sorted(bytes(f[5:][1 + f[5]:]) for f in sends.get(k, [])[1:] if f and f[4] == P.OP_SUBSCRIBE)
            others = [f for f in sends.get(k, [])[1:] if f and f[4] != P.OP_SUBSCRIBE]
            if sent != subs or others:
                flag('C11', 'connection %d: a message reached the application although the OP_SUBSCRIBEs sent %r are not exactly the '
                            'wanted channels %r' % (k, sent, subs))
            if any(f and f[4] == P.OP_SUBSCRIBE and bytes(f[6:6 + f[5]]) != ident.encode() for f in sends.get(k, [])[1:]):
                flag('C11', 'connection %d: OP_SUBSCRIBE without the own ident' % k)
            want, clean = expected_callbacks(rx.get(k, b''))
            if cbs[k][:len(want)] != want[:len(cbs[k])] or (clean and len(cbs[k]) > len(want)):
                flag('C12', 'connection %d: callback %r is not the next frame the broker sent (%r)' % (k, e[:3], want[len(cbs[k]) - 1:len(cbs[k])]))
        elif e[0] == 'stop':
            stopped = True
    if outcome == 'return' and not stopped:
        flag('C13', 'run() returned although stop() was never called (reconnect is enabled)')
    if outcome.startswith('crash'):
        flag('C13', 'an exception left run(): %s' % outcome)
    if stopped and outcome != 'return':
        flag('C13', 'stop() was called but run() did not return (%s)' % outcome)
    return fail


def expected_callbacks(rxbytes):
    allf = judge.arrived_frames([rxbytes])
    frames = clean_prefix(allf, error_ends=False)     # Client.run keeps going after error_callback
    clean = len(frames) == len(allf)                  # beyond what a broker can send nothing is required
    out = []
    for op, body in frames[1:]:
        if op == P.OP_PUBLISH:
            i, c, p = pub_of(body)
            out.append(('msg', i, c, p))
        elif op == P.OP_ERROR:
            out.append(('err', body.decode('utf-8')))
    return out, clean


# ---- blocking thread session ------------------------------------------------------------------------------------------
F6_SIG = 'C11: blocking session: an application frame is sent before OP_AUTH'
F6_TEXT = ('blocking thread session: subscribe()/unsubscribe()/publish() called after the TCP connect and before the OP_INFO '
           '(when_connected is set at connect) is sent before OP_AUTH')


def blk_oracles(d, ident, secret):
    """-> dict pid -> (signature, text).  C11: handshake clause only (this session never resubscribes, by design of the property)"""
    import struct
    found = {'C11': [], 'C12': []}
    me = fp(ident.encode())
    fed = {}
    early = {}                    # conn -> application frames written before this connection's OP_INFO was complete
    expected = []
    seen_clean = {}
    dirty = set()
    for k, rec in enumerate(d.trace):
        ev, o = rec['ev'], rec['obs']
        cur = o['cur']

        def flag(pid, sig, msg):
            found[pid].append((sig, 'blocking session event %d %r: %s' % (k, ev[:1], msg)))
        if ev[0] == 'data' and rec['delivered']:
            c = cur if cur is not None else len(o['conns']) - 1
            fed.setdefault(c, []).append(unjbytes(ev[1]))
            allf = judge.arrived_frames(fed[c])
            cl = clean_prefix(allf)
            if len(cl) < len(allf):
                dirty.add(c)
            if c not in dirty:
                done = sum(len(b) + 5 for _, b in allf)
                rest = b''.join(fed[c])[done:]
                if len(rest) >= 5:
                    ml, op = struct.unpack('!iB', rest[:5])
                    if op > 5 or ml > P.SIZES.get(op, P.MAXBUF) or ml < 5:
                        dirty.add(c)
            for op, body in cl[seen_clean.get(c, 0):]:
                if op == P.OP_PUBLISH:
                    expected.append(pub_of(body))
            seen_clean[c] = len(cl)
        elif ev[0] in ('sub', 'unsub', 'pub') and cur is not None and not rec['raised']:
            allf = judge.arrived_frames(fed.get(cur, []))
            if not any(op == P.OP_INFO and clean_prefix([(op, b)]) for op, b in allf):
                early[cur] = early.get(cur, 0) + 1
        # ---- C11 (handshake clause) ----
        for c, co in enumerate(o['conns']):
            fr = co['frames']
            allf = judge.arrived_frames(fed.get(c, []))
            infos = [b for op, b in allf if op == P.OP_INFO and clean_prefix([(op, b)])]
            ne = early.get(c, 0)
            head, tail = fr[:ne], fr[ne:]
            if ne and fr:
                flag('C11', F6_SIG, 'connection %d: %r was sent before the OP_AUTH (written before the OP_INFO had arrived)' % (c, fr[0]))
            if any(f[0] not in 'SUP' for f in head):
                flag('C11', 'C11: blocking session: handshake frame among early application frames',
                     'connection %d: %r' % (c, head))
            if tail and not infos:
                flag('C11', 'C11: blocking session: frame before any OP_INFO', 'connection %d: %r was put on the wire although no OP_INFO has arrived' % (c, tail[0]))
            if infos:
                n = infos[0][0]
                nonce = bytes(infos[0][1 + n:])
                want_auth = 'A%s/%s' % (me, fp(hashlib.sha1(nonce + secret.encode()).digest()))
                if tail and tail[0] != want_auth:
                    flag('C11', 'C11: blocking session: first protocol frame is not the OP_AUTH for this nonce',
                         'connection %d: %r instead of %r' % (c, tail[0], want_auth))
                if not tail and allf and allf[0][0] == P.OP_INFO and not co['closed'] and c == cur:
                    flag('C11', 'C11: blocking session: no OP_AUTH after OP_INFO', 'connection %d: OP_INFO has arrived but no OP_AUTH was sent' % c)
        # ---- C12 ----
        have = list(o['got']) + list(o['queued'])
        exp = list(expected)
        if not dirty:
            if have != exp:
                flag('C12', 'C12: blocking session: read()+queue differ from what the broker sent',
                     'read() returned + queue holds %r, the broker sent %r' % (have[:3], exp[:3]))
        elif not is_subsequence(exp, have):
            # some connection carried frames no broker sends: what was decoded from it is not judged, but everything
            # that arrived on well-formed streams must still be there, in order
            flag('C12', 'C12: blocking session: read()+queue differ from what the broker sent',
                 'read() returned + queue holds %r, which does not contain in order what the broker sent on clean connections %r' % (have[:3], exp[:3]))
    out = {}
    for pid, lst in found.items():
        if not lst:
            continue
        other = [x for x in lst if x[0] != F6_SIG]
        out[pid] = other[0] if other else lst[0]
    return out


def gen_blk(rng):
    return blksess.gen_events(rng)


def expr_blk(events, ident, secret):
    return blksess.expr(events, ident, secret)
