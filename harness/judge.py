"""Observational oracle for the broker properties (C01-C04, C08-C10), applied to what the IMPLEMENTATION
did on a frame-normalised history (every delivered Data event carries exactly one complete frame, or
bytes that make the decoder reject at once), with a synchronous credential store.

It is a second, independent statement of the properties in Python: an abstract pub/sub machine fed with
the frames the driver sent, whose predictions (who is written what, who is disconnected) are compared,
event by event, with what the real Server/Connection did.  It never looks at the Coq model.  A mismatch
is attributed to the property whose sentence it contradicts.
"""
import hashlib
import struct

import hpfeeds.protocol as P
from common import unjbytes


def parse_one(chunk):
    """-> (op, body) if chunk is exactly one well-framed message, 'bad' if the decoder must reject it at
    the header, None if it is not frame-aligned"""
    if len(chunk) < 5:
        return None
    ml, op = struct.unpack('!iB', chunk[:5])
    if op > 5 or ml > P.SIZES.get(op, P.MAXBUF) or ml < 5:
        return 'bad'
    if ml != len(chunk):
        return None
    return op, chunk[5:]


def parse_many(chunk):
    """-> list of (op, body) if chunk is exactly a concatenation of two or more well-framed messages, else None"""
    out, off = [], 0
    while off < len(chunk):
        if len(chunk) - off < 5:
            return None
        ml, op = struct.unpack('!iB', chunk[off:off + 5])
        if op > 5 or ml > P.SIZES.get(op, P.MAXBUF) or ml < 5 or len(chunk) - off < ml:
            return None
        out.append((op, chunk[off + 5:off + ml]))
        off += ml
    return out if len(out) >= 2 else None


def unpack8(b):
    if len(b) < 1:
        raise ValueError
    n = b[0]
    return b[1:1 + n].decode('utf-8'), b[1 + n:]


class Judge:
    def __init__(self, case, driver):
        self.case = case
        self.d = driver
        self.cfg = {}
        for ij, row in case['db']:
            ident = unjbytes(ij).decode('utf-8')
            if row is None:
                self.cfg[ident] = None
            else:
                self.cfg[ident] = (unjbytes(row[0]).decode('utf-8'),
                                   [unjbytes(c).decode('utf-8') for c in (row[1] or [])],
                                   [unjbytes(c).decode('utf-8') for c in (row[2] or [])])
        # identities whose row lacks a channel list make the real authenticate() raise: never judged as "accepted"
        self.fragile = {unjbytes(ij).decode('utf-8') for ij, row in case['db'] if row is not None and (row[1] is None or row[2] is None)}
        self.name = unjbytes(case['name']).decode('utf-8')
        self.st = {}
        self.fail = {}          # property id -> first failure text
        self.counts = {}
        self.stalled = set()    # connections that have been above the high-water mark at some time

    def flag(self, pid, k, msg):
        self.fail.setdefault(pid, 'event %d %r: %s' % (k, self.d.trace[k]['ev'][:2], msg))

    def note(self, what):
        self.counts[what] = self.counts.get(what, 0) + 1

    def run(self):
        d = self.d
        if any(e[0] == 'S' for e in self.case['events']):
            return self.fail          # a changing store is judged by the necessary conditions only
        prev_n = {}
        prev_closing = {}
        final_frames = {q: d.frames_of(q) for q in d.order}
        for k, rec in enumerate(d.trace):
            ev = rec['ev']
            snap = rec['snap']
            newf = {}
            newclose = set()
            for q, s in snap.items():
                n0 = prev_n.get(q, 0)
                newf[q] = final_frames[q][n0:s['nframes']]
                if s['closing'] and not prev_closing.get(q, False):
                    newclose.add(q)
            self.step(k, rec, newf, newclose, snap)
            for q, s in snap.items():
                prev_n[q] = s['nframes']
                prev_closing[q] = s['closing']
            # C09: a connection that has ended is not a connection and not a subscriber
            for q, s in snap.items():
                stq = self.st.get(q)
                if stq and stq['lost']:
                    if s['open'] or s['active'] or s.get('registered'):
                        self.flag('C09', k, 'connection %d has ended but is still registered (open=%s, active=%s, registry=%s)'
                                  % (q, s['open'], s['active'], s.get('registered')))
        return self.fail

    # -- expectations ---------------------------------------------------------------------------
    def step(self, k, rec, newf, newclose, snap):
        ev = rec['ev']
        typ = ev[0]
        if typ == 'C':
            q = ev[1]
            if not rec['delivered']:
                return
            nonce = unjbytes(ev[2])
            self.st[q] = dict(nonce=nonce, authed=None, held=set(), closing=False, lost=False, desync=False, grants={})
            want = [(P.OP_INFO, P.strpack8(self.name) + nonce)]
            if newf.get(q) != want:
                self.flag('C02', k, 'first bytes on connection %d are not a single OP_INFO(name, nonce): %r' % (q, newf.get(q)))
            self.expect_quiet(k, newf, newclose, except_q=q, ctx='connect', pid='C01')
            return
        if typ == 'T' or not rec['delivered']:
            if typ != 'T':
                return
            # time passes: only deadline closes, never deliveries
            for q, fr in newf.items():
                if any(o == P.OP_PUBLISH for o, _ in fr):
                    self.flag('C01', k, 'PUBLISH written to %d while nothing was published' % q)
            for q in newclose:
                self.st[q]['closing'] = True
            return
        q = ev[1]
        st = self.st.get(q)
        if st is None:
            return
        if typ in ('L',):
            st['lost'] = True
            st['closing'] = True
            st['held'] = set()
            self.expect_quiet(k, newf, newclose - {q}, except_q=None, ctx='loss of %d' % q, pid='C09')
            if rec['raised']:
                self.note('raise-in-connection_lost')
            return
        if typ == 'E':
            if not snap[q]['closing']:
                self.flag('C09', k, 'the peer of connection %d sent EOF (it has ended its side) but the broker did not close the '
                          'connection: it stays registered (open=%s, subscribed %s) with nobody left to report its loss'
                          % (q, snap[q]['open'], snap[q]['active']))
            st['closing'] = True
            self.expect_quiet(k, newf, newclose - {q}, except_q=None, ctx='EOF of %d' % q, pid='C10')
            return
        if typ in ('PW', 'RWPW') and rec['delivered']:
            self.stalled.add(q)
        if typ in ('PW', 'RW'):
            self.expect_quiet(k, newf, newclose, except_q=None, ctx=typ, pid='C10')
            return
        if typ != 'D':
            return
        # ---- one frame from q -----------------------------------------------------------------
        chunk = unjbytes(ev[2])
        many = None if st['desync'] else parse_many(chunk)
        if many is not None and self.step_pipelined(k, rec, q, st, many, newf, newclose):
            return
        fr = parse_one(chunk)
        if st['desync'] or fr is None:
            st['desync'] = True
            for r in newclose:
                self.st[r]['closing'] = True
            if newclose - {q}:
                self.flag('C10', k, 'bytes from %d disconnected other connection(s) %s' % (q, sorted(newclose - {q})))
            return
        others_closed = newclose - {q}
        if rec['raised'] == 'Hang':
            self.flag('C10', k, 'handling a chunk from %d does not terminate' % q)
            return

        def refused(pid, why):
            """expect: OP_ERROR to q (if it still takes bytes), q disconnected, nobody else touched"""
            self.note('refused:' + pid)
            if q not in newclose and not st['closing']:
                self.flag(pid, k, '%s: connection %d was not disconnected' % (why, q))
            got = newf.get(q, [])
            if not st['closing'] and not any(o == P.OP_ERROR for o, _ in got) and not rec['raised']:
                self.flag(pid, k, '%s: no OP_ERROR sent to %d' % (why, q))
            self.expect_quiet(k, newf, others_closed, except_q=q, ctx=why, pid=pid)
            st['closing'] = True

        def dropped(pid, why):
            """malformed: a disconnect, nothing else"""
            self.note('dropped:' + pid)
            if q not in newclose and not st['closing']:
                self.flag(pid, k, '%s: connection %d was not disconnected' % (why, q))
            self.expect_quiet(k, newf, others_closed, except_q=q, ctx=why, pid=pid)
            st['closing'] = True

        if fr == 'bad':
            dropped('C02' if st['authed'] is None else 'C10', 'undecodable header')
            return
        op, body = fr
        if op == P.OP_AUTH:
            try:
                ident, dg = unpack8(body)
            except Exception:
                dropped('C02', 'malformed AUTH')
                return
            row = self.cfg.get(ident)
            ok = bool(row) and hashlib.sha1(st['nonce'] + row[0].encode('utf-8')).digest() == bytes(dg)
            if ok:
                self.note('auth-ok')
                if q in newclose or any(o == P.OP_ERROR for o, _ in newf.get(q, [])):
                    self.note('valid-auth-refused')     # not a property violation by itself
                    st['closing'] = st['closing'] or q in newclose
                else:
                    st['authed'] = ident
                self.expect_quiet(k, newf, others_closed, except_q=q, ctx='AUTH', pid='C02', allow_error_to=q)
            else:
                if snap[q]['ak'] is not None and st['authed'] is None:
                    self.flag('C02', k, 'connection %d counts as authenticated (%r) after an invalid AUTH' % (q, snap[q]['ak']))
                refused('C02', 'invalid AUTH (ident %r)' % ident)
            return
        if st['authed'] is None:
            refused('C02', 'opcode %d before authentication' % op)
            return
        me = st['authed']
        row = self.cfg.get(me) or ('', [], [])
        try:
            if op == P.OP_PUBLISH:
                ident, rest = unpack8(body)
                chan, payload = unpack8(rest)
            elif op in (P.OP_SUBSCRIBE, P.OP_UNSUBSCRIBE):
                ident, rest = unpack8(body)
                chan = bytes(rest).decode('utf-8')
            else:
                dropped('C10', 'broker-only opcode %d from a client' % op)
                return
        except Exception:
            dropped('C10', 'malformed body for opcode %d' % op)
            return
        if op == P.OP_PUBLISH:
            if ident != me or chan not in row[1]:
                refused('C03', 'PUBLISH with ident %r chan %r by %r' % (ident, chan, me))
                return
            self.note('publish-accepted')
            want_frame = (P.OP_PUBLISH, P.strpack8(me) + P.strpack8(chan) + bytes(payload))
            for r, s in self.st.items():
                if s['desync']:
                    continue        # what r asked for is not known frame by frame: no expectation about it
                got = [f for f in newf.get(r, []) if f[0] == P.OP_PUBLISH]
                entitled = chan in s['held'] and not s['closing'] and not s['lost']
                if entitled:
                    self.note('delivery')
                    if got != [want_frame]:
                        pid = 'C01'
                        if len(got) == 1 and got[0][1][:1 + len(P.strpack8(me)) - 1] != want_frame[1][:len(P.strpack8(me))]:
                            pid = 'C03'
                        self.flag(pid, k, 'subscriber %d of %r got %d PUBLISH frame(s) %r, expected exactly one copy of (%r, %r, %d bytes)'
                                  % (r, chan, len(got), [(len(b)) for _, b in got][:3], me, chan, len(payload)))
                        self.flag('C08', k, 'subscriber %d of %r (last op SUBSCRIBE) got %d copies' % (r, chan, len(got)))
                        self.flag('C10', k, 'subscriber %d lost/duplicated a message it is entitled to' % r)
                        ended = sorted(x for x, sx in self.st.items() if x != r and (sx['closing'] or sx['lost']))
                        if ended:
                            self.flag('C09', k, 'after connection(s) %s had ended / been dropped, a publish on %r did not proceed normally for '
                                      'everyone else: subscriber %d got %d copies, expected one' % (ended, chan, r, len(got)))
                        if self.stalled:
                            self.flag('C15', k, 'while / after connection(s) %s were stalled, subscriber %d of %r got %d copies of a publish, '
                                      'expected one (other subscribers must keep receiving throughout)' % (sorted(self.stalled), r, chan, len(got)))
                elif got:
                    if s['closing']:
                        self.flag('C04', k, 'PUBLISH on %r written to closing connection %d' % (chan, r))
                    elif chan not in s['grants']:
                        self.flag('C04', k, 'PUBLISH on %r delivered to %d which never held a permitted subscription' % (chan, r))
                    else:
                        self.flag('C08', k, 'PUBLISH on %r delivered to %d whose last op was UNSUBSCRIBE / never subscribed' % (chan, r))
                    self.flag('C01', k, 'PUBLISH on %r delivered to %d which holds no subscription' % (chan, r))
            if q in newclose or any(o == P.OP_ERROR for o, _ in newf.get(q, [])) or rec['raised']:
                self.flag('C10', k, 'permitted PUBLISH by %d was answered with error/disconnect/exception (%s)' % (q, rec['raised']))
                self.flag('C09', k, 'a publish on %r did not proceed normally (%s)' % (chan, rec['raised']))
                st['closing'] = st['closing'] or q in newclose
            for r in others_closed:
                # Server.publish may reap a subscriber that was already closing: that is not a new close
                self.flag('C10', k, 'PUBLISH by %d disconnected %d' % (q, r))
                self.st[r]['closing'] = True
            return
        if op == P.OP_SUBSCRIBE:
            if chan not in row[2]:
                refused('C04', 'SUBSCRIBE to %r by %r' % (chan, me))
                return
            self.note('subscribe-accepted')
            if not st['closing']:
                st['held'].add(chan)
                st['grants'][chan] = me
        else:
            self.note('unsubscribe')
            st['held'].discard(chan)
        if q in newclose or rec['raised'] or any(o == P.OP_ERROR for o, _ in newf.get(q, [])):
            self.flag('C08', k, 'permitted (UN)SUBSCRIBE by %d answered with error/disconnect (%s)' % (q, rec['raised']))
            self.flag('C10', k, 'permitted (UN)SUBSCRIBE by %d answered with error/disconnect (%s)' % (q, rec['raised']))
            st['closing'] = st['closing'] or q in newclose
        self.expect_quiet(k, newf, others_closed, except_q=q, ctx='(un)subscribe', pid='C08')

    # -- several whole frames in one read (pipelining) ------------------------------------------------
    def classify(self, st, op, body):
        """what a well-formed, PERMITTED request amounts to under the connection's current identity; None for anything
        that must be refused or dropped (such a read is not judged frame by frame)"""
        try:
            if op == P.OP_AUTH:
                ident, dg = unpack8(body)
                row = self.cfg.get(ident)
                if row and ident not in self.fragile and hashlib.sha1(st['nonce'] + row[0].encode('utf-8')).digest() == bytes(dg):
                    return ('auth', ident)
                return None
            me = st['authed']
            if me is None:
                return None
            row = self.cfg.get(me) or ('', [], [])
            if op == P.OP_PUBLISH:
                ident, rest = unpack8(body)
                chan, payload = unpack8(rest)
                return ('pub', chan, bytes(payload)) if ident == me and chan in row[1] else None
            if op == P.OP_SUBSCRIBE:
                ident, rest = unpack8(body)
                chan = bytes(rest).decode('utf-8')
                return ('sub', chan) if chan in row[2] else None
            if op == P.OP_UNSUBSCRIBE:
                ident, rest = unpack8(body)
                return ('unsub', bytes(rest).decode('utf-8'))
        except Exception:
            return None
        return None

    def step_pipelined(self, k, rec, q, st, frames, newf, newclose):
        """a read made of several whole frames, all of them permitted: every one of them takes effect, in order, before
        data_received returns (synchronous store).  -> False when some frame is not a permitted request (not judged here)"""
        if st['closing'] or st['lost']:
            return False
        saved = (st['authed'], set(st['held']), dict(st['grants']))
        expected = {r: [] for r in self.st}
        acts = []
        for op, body in frames:
            a = self.classify(st, op, body)
            if a is None:
                st['authed'], st['held'], st['grants'] = saved
                return False
            acts.append(a)
            if a[0] == 'auth':
                st['authed'] = a[1]
            elif a[0] == 'sub':
                st['held'].add(a[1])
                st['grants'][a[1]] = st['authed']
            elif a[0] == 'unsub':
                st['held'].discard(a[1])
            else:
                me = st['authed']
                frame = (P.OP_PUBLISH, P.strpack8(me) + P.strpack8(a[1]) + a[2])
                for r, s in self.st.items():
                    if a[1] in s['held'] and not s['closing'] and not s['lost']:
                        expected[r].append(frame)
        self.note('pipelined-read')
        for r in self.st:
            if self.st[r]['desync']:
                continue            # what r asked for is not known frame by frame: no expectation about it
            got = [f for f in newf.get(r, []) if f[0] == P.OP_PUBLISH]
            if got != expected[r]:
                what = ('a read of %d pipelined permitted frames %r from %d: connection %d was sent %d PUBLISH frame(s), expected %d '
                        '(every frame of the read must have taken effect, in order)'
                        % (len(frames), [a[0] for a in acts], q, r, len(got), len(expected[r])))
                self.flag('C01', k, what)
                self.flag('C08', k, what)
                self.flag('C10', k, what)
            other = [o for o, _ in newf.get(r, []) if o != P.OP_PUBLISH]
            if other:
                self.flag('C10', k, 'a read of pipelined permitted frames from %d: connection %d was written %r' % (q, r, other))
                self.flag('C08', k, 'a read of pipelined permitted frames from %d: connection %d was written %r' % (q, r, other))
        if newclose or rec['raised']:
            self.flag('C10', k, 'a read of pipelined permitted frames from %d disconnected %s / raised %s' % (q, sorted(newclose), rec['raised']))
            self.flag('C08', k, 'a read of pipelined permitted frames from %d disconnected %s / raised %s' % (q, sorted(newclose), rec['raised']))
            for r in newclose:
                self.st[r]['closing'] = True
        return True

    def expect_quiet(self, k, newf, closed, except_q, ctx, pid, allow_error_to=None):
        """nobody (but except_q) is written anything or disconnected by this event"""
        for r, fr in newf.items():
            if r == except_q:
                if any(o == P.OP_PUBLISH for o, _ in fr):
                    self.flag('C01', k, 'PUBLISH written to %d by a %s' % (r, ctx))
                continue
            if fr:
                kinds = [o for o, _ in fr]
                self.flag(pid, k, '%s: connection %d was written %r' % (ctx, r, kinds))
                if P.OP_PUBLISH in kinds:
                    self.flag('C01', k, '%s: PUBLISH delivered to %d' % (ctx, r))
                self.flag('C10', k, '%s: connection %d was written %r' % (ctx, r, kinds))
        for r in closed:
            if r != except_q:
                self.flag('C10', k, '%s disconnected connection %d' % (ctx, r))
                self.st[r]['closing'] = True


# ------------------------------------------------------------------------------------------------
# necessary conditions that can be checked on ANY history (any chunking), synchronous store:
# they use only the bytes each connection was actually fed and what the broker then wrote
# ------------------------------------------------------------------------------------------------
def arrived_frames(chunks):
    """frames completed by the concatenation of chunks: list of (op, body)"""
    data = b''.join(chunks)
    out, off = [], 0
    while len(data) - off >= 5:
        ml, op = struct.unpack('!iB', data[off:off + 5])
        if op > 5 or ml > P.SIZES.get(op, P.MAXBUF) or ml < 5 or len(data) - off < ml:
            break
        out.append((op, data[off + 5:off + ml]))
        off += ml
    return out


def arrived_frames_tagged(chunks):
    """as arrived_frames, each frame with the index of the chunk that completed it: (op, body, k)"""
    out, buf, ends = [], b'', []
    for k, ch in enumerate(chunks):
        buf += ch
        ends.append(len(buf))
    off = 0
    while len(buf) - off >= 5:
        ml, op = struct.unpack('!iB', buf[off:off + 5])
        if op > 5 or ml > P.SIZES.get(op, P.MAXBUF) or ml < 5 or len(buf) - off < ml:
            break
        end = off + ml
        k = next(i for i, e in enumerate(ends) if e >= end)
        out.append((op, buf[off + 5:end], k))
        off = end
    return out


def necessary(case, d):
    """-> dict property id -> failure text"""
    fail = {}
    # C09 needs no attribution of frames: once the transport has reported a connection lost, the broker
    # must not count it as a connection or list it anywhere, whatever happens later (any store)
    gone = set()
    for k, rec in enumerate(d.trace):
        ev = rec['ev']
        if ev[0] == 'L' and rec['delivered']:
            gone.add(ev[1])
        if ev[0] == 'E' and rec['delivered'] and not rec.get('raised'):
            s = rec['snap'].get(ev[1])
            if s and not s['closing']:
                fail.setdefault('C09', 'event %d %r: the peer of connection %d sent EOF (it has ended its side) but the broker did not close the '
                                'connection: it stays registered (open=%s, subscribed %s)' % (k, ev[:2], ev[1], s['open'], s['active']))
        for q in gone:
            s = rec['snap'].get(q)
            if s and (s['open'] or s['active'] or s.get('registered')):
                fail.setdefault('C09', 'event %d %r: connection %d has ended but the broker still has it (registered=%s, '
                                'subscribed=%s, listed under %s)' % (k, ev[:2], q, s['open'], s['active'], s.get('registered')))
    if case.get('async_'):
        return fail
    cfg = {}
    for ij, row in case['db']:
        ident = unjbytes(ij).decode('utf-8')
        cfg[ident] = None if row is None else (unjbytes(row[0]).decode('utf-8'),
                                               [unjbytes(c).decode('utf-8') for c in (row[1] or [])],
                                               [unjbytes(c).decode('utf-8') for c in (row[2] or [])])

    def flag(pid, k, msg):
        fail.setdefault(pid, 'event %d %r: %s' % (k, d.trace[k]['ev'][:2], msg))
    cfg = dict(cfg)
    cfg_at = {}              # (q, index of the chunk in fed[q]) -> the store contents when that chunk arrived
    fed = {}
    nonce = {}
    prev_n = {}
    prev_closing = {}
    final_frames = {q: d.frames_of(q) for q in d.order}
    refused = set()

    def facts(q):
        """(idents validly authenticated, channels it asked to subscribe, publishes it sent) so far"""
        va, subs, pubs = {}, set(), set()      # va: ident -> rows it validly authenticated with (as stored at that time)
        for op, body, kc in arrived_frames_tagged(fed.get(q, [])):
            try:
                if op == P.OP_AUTH:
                    i, dg = unpack8(body)
                    row = cfg_at[(q, kc)].get(i)
                    if row and hashlib.sha1(nonce[q] + row[0].encode('utf-8')).digest() == bytes(dg):
                        va.setdefault(i, []).append(row)
                elif op == P.OP_SUBSCRIBE:
                    i, rest = unpack8(body)
                    subs.add(bytes(rest).decode('utf-8'))
                elif op == P.OP_PUBLISH:
                    i, rest = unpack8(body)
                    c, payload = unpack8(rest)
                    pubs.add((i, c, bytes(payload)))
            except Exception:
                # an undecodable body says nothing about the frames behind it (the broker does not even look at the body of
                # a non-AUTH frame from a connection without an identity): keep scanning, frame boundaries are unaffected
                continue
        return va, subs, pubs
    for k, rec in enumerate(d.trace):
        ev = rec['ev']
        snap = rec['snap']
        if ev[0] == 'C' and rec['delivered']:
            nonce[ev[1]] = unjbytes(ev[2])
        if ev[0] == 'S':
            row = ev[2]
            cfg = dict(cfg)
            cfg[unjbytes(ev[1]).decode('utf-8')] = None if row is None else (
                unjbytes(row[0]).decode('utf-8'), [unjbytes(c).decode('utf-8') for c in (row[1] or [])],
                [unjbytes(c).decode('utf-8') for c in (row[2] or [])])
        if ev[0] == 'D' and rec['delivered']:
            cfg_at[(ev[1], len(fed.get(ev[1], [])))] = cfg
            fed.setdefault(ev[1], []).append(unjbytes(ev[2]))
        origin = ev[1] if ev[0] == 'D' and rec['delivered'] else None
        for r, s in snap.items():
            new = final_frames[r][prev_n.get(r, 0):s['nframes']]
            for op, body in new:
                if op == P.OP_ERROR:
                    refused.add(r)      # the broker's OP_ERROR is always followed by transport.close()
                if op != P.OP_PUBLISH:
                    continue
                if r in refused:
                    # also inside one read: a request the broker refused, then - behind it in the same read - a publish
                    flag('C04', k, 'an OP_PUBLISH was written to connection %d after the broker had sent it OP_ERROR and closed it' % r)
                try:
                    i, rest = unpack8(body)
                    c, payload = unpack8(rest)
                except Exception:
                    flag('C01', k, 'undecodable PUBLISH written to %d' % r)
                    continue
                if origin is None:
                    flag('C01', k, 'PUBLISH written to %d although nothing was published' % r)
                    continue
                va, _, pubs = facts(origin)
                if not va:
                    flag('C02', k, 'a PUBLISH from %d was delivered although %d never presented a valid OP_AUTH' % (origin, origin))
                if i not in va or not any(c in row[1] for row in va[i]):
                    flag('C03', k, 'delivered PUBLISH names ident %r / channel %r; its sender %d validly authenticated only as %r'
                         % (i, c, origin, sorted(va)))
                if (i, c, bytes(payload)) not in pubs:
                    flag('C01', k, 'delivered PUBLISH (%r, %r, %d bytes) was never sent by %d' % (i, c, len(payload), origin))
                rva, rsubs, _ = facts(r)
                if c not in rsubs or not any(c in row[2] for rows in rva.values() for row in rows):
                    flag('C04', k, 'connection %d was sent channel %r which it never subscribed to with permission (valid idents %r)'
                         % (r, c, sorted(rva)))
                if prev_closing.get(r):
                    flag('C04', k, 'PUBLISH on %r written to connection %d after the broker had closed it' % (c, r))
            if (s['ak'] is not None or s['active'] or s.get('registered')) and r in nonce:
                va, _, _ = facts(r)
                if not va:
                    flag('C02', k, 'connection %d is treated as %r / subscribed %r without ever presenting a valid OP_AUTH'
                         % (r, s['ak'], s['active']))
        for r, s in snap.items():
            prev_n[r] = s['nframes']
            prev_closing[r] = s['closing']
    return fail
