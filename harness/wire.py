"""Driver, generators and oracles for hpfeeds/protocol.py (C05, C06, C07).

Observation strings have exactly the format coq/Run.v prints (run_unpack / run_build), so the
correspondence check is a string comparison.
"""
import struct

from common import fp, coq_segs, coq_z

import hpfeeds.protocol as P
from hpfeeds.exceptions import ProtocolException


def limit(op):
    return P.SIZES.get(op, P.MAXBUF)


MAXLIMIT = max([limit(o) for o in range(6)] + [5])


# ------------------------------------------------------------------------------------------------
# driving the real Unpacker
# ------------------------------------------------------------------------------------------------
def drain(u):
    """Iterate the unpacker to exhaustion under an iteration watchdog.
    Returns (frames, errcode) with errcode 0 = StopIteration, 1 = ProtocolException,
    8 = watchdog (more yields than the buffer can hold), 9 = any other exception."""
    frames = []
    cap = len(u.buf) // 5 + 2
    it = iter(u)                 # the iteration protocol, as every caller in the library uses it (`for op, data in unpacker`)
    while True:
        if len(frames) > cap:
            return frames, 8, 'watchdog: more frames than bytes/5'
        try:
            op, data = next(it)
        except StopIteration:
            return frames, 0, None
        except ProtocolException as e:
            return frames, 1, type(e).__name__
        except Exception as e:  # noqa
            return frames, 9, '%s: %s' % (type(e).__name__, e)
        frames.append((op, bytes(data)))


def drive_unpack(chunks, u=None):
    """-> (observation string, structured per-feed records); u: an Unpacker to go on with (default: a fresh one)"""
    if u is None:
        u = P.Unpacker()
    outs = []
    recs = []
    for ch in chunks:
        try:
            u.feed(ch)
        except ProtocolException as e:
            frames, err, info = [], 1, 'feed() raised %s' % type(e).__name__
        except Exception as e:  # noqa
            frames, err, info = [], 9, 'feed() raised %s: %s' % (type(e).__name__, e)
        else:
            frames, err, info = drain(u)
        outs.append('%s|E%d|B%d' % (','.join('F%d:%s' % (op, fp(d)) for op, d in frames), err, len(u.buf)))
        recs.append(dict(frames=frames, err=err, info=info, buflen=len(u.buf)))
    return ';'.join(outs), recs


def tostr(b):
    """bytes -> what the application would pass: str when it is valid UTF-8, else the raw bytes"""
    try:
        return bytes(b).decode('utf-8')
    except UnicodeDecodeError:
        return bytes(b)


def tobytes(x):
    return x.encode('utf-8') if isinstance(x, str) else bytes(x)


def build(op, fields):
    f = fields
    if op == 0:
        return P.msgerror(tostr(f[0]))
    if op == 1:
        return P.msginfo(tostr(f[0]), bytes(f[1]))
    if op == 2:
        return P.msgauth(bytes(f[0]), tostr(f[1]), tostr(f[2]))
    if op == 3:
        return P.msgpublish(tostr(f[0]), tostr(f[1]), bytes(f[2]))
    if op == 4:
        return P.msgsubscribe(tostr(f[0]), tostr(f[1]))
    if op == 5:
        return P.msgunsubscribe(tostr(f[0]), tostr(f[1]))
    raise ValueError(op)


READERS = {0: lambda d: (P.readerror(d),), 1: P.readinfo, 2: P.readauth, 3: P.readpublish,
           4: P.readsubscribe, 5: P.readunsubscribe}


def read(op, body):
    """-> list of bytes fields, or None when the reader raises"""
    try:
        r = READERS[op](body)
    except Exception:
        return None
    return [tobytes(x) for x in r]


def show_fields(fl):
    return 'X' if fl is None else '/'.join(fp(x) for x in fl)


def drive_build(op, fields):
    try:
        fr = build(op, fields)
    except (struct.error, UnicodeError, TypeError, ValueError):
        return 'X', None
    fr = bytes(fr)
    u = P.Unpacker()
    u.feed(fr)
    frames, err, _ = drain(u)
    s = '%s|%s|E%d|B%d|%s' % (fp(fr), ','.join('F%d:%s' % (o, fp(d)) for o, d in frames), err, len(u.buf),
                              ','.join(show_fields(read(o, d)) for o, d in frames))
    return s, dict(frame=fr, frames=frames, err=err, buflen=len(u.buf))


# ------------------------------------------------------------------------------------------------
# Coq expressions for the same cases
# ------------------------------------------------------------------------------------------------
def expr_unpack(chunks):
    return 'run_unpack [%s]' % '; '.join(coq_segs(c) for c in chunks)


def expr_build(op, fields):
    return 'run_build %s [%s]' % (coq_z(op), '; '.join(coq_segs(f) for f in fields))


# ------------------------------------------------------------------------------------------------
# generators
# ------------------------------------------------------------------------------------------------
UNI = ['', 'a', 'chan1', 'é', '日本語', '\U0001f600', 'x' * 255, 'é' * 127, '߿ࠀ￿', '\x00', '\x05abc',
       '\x00\x00\x00\x06\x03', 'A\x01B', 'ident', 'IDENT', 'ide', "o'brien", 'a,b', '../x', '퟿', '\U0010ffff']


def gen_str(rng, maxbytes=255):
    k = rng.random()
    if k < 0.45:
        s = rng.choice(UNI)
    elif k < 0.75:
        n = rng.choice([0, 1, 2, 3, 5, 8, 17, 40])
        s = ''.join(rng.choice('abcXYZ09._-é日\U0001f600\x01\x7f') for _ in range(n))
    elif k < 0.9:
        # bytes that look like length prefixes / headers
        s = ''.join(chr(rng.choice([0, 1, 2, 3, 4, 5, 6, 0x7f])) for _ in range(rng.randint(1, 8)))
    else:
        n = rng.choice([254, 255, 200])
        s = ''.join(rng.choice('ab') for _ in range(n))
    b = s.encode('utf-8')
    while len(b) > maxbytes:
        s = s[:-1]
        b = s.encode('utf-8')
    return b


def gen_payload(rng, big=False):
    if big:
        return bytes([rng.randrange(256)]) * rng.choice([70000, 300000])
    k = rng.random()
    if k < 0.2:
        return b''
    if k < 0.7:
        return bytes(rng.randrange(256) for _ in range(rng.randint(1, 40)))
    if k < 0.85:
        return bytes([rng.choice([0, 0xff, 0x80, 3])]) * rng.randint(48, 3000)
    return bytes(rng.choice([0, 1, 2, 3, 4, 5, 0xff]) for _ in range(rng.randint(1, 12)))


def gen_fields(rng, op, big=False):
    if op == 0:
        return [gen_str(rng, 4000)]
    if op == 1:
        return [gen_str(rng), bytes(rng.randrange(256) for _ in range(rng.choice([4, 4, 4, 0, 1, 20])))]
    if op == 2:
        return [bytes(rng.randrange(256) for _ in range(rng.choice([4, 4, 0, 7]))), gen_str(rng), gen_str(rng, 60)]
    if op == 3:
        return [gen_str(rng), gen_str(rng), gen_payload(rng, big)]
    return [gen_str(rng), gen_str(rng)]


def gen_frame(rng, big=False):
    """a well-formed frame: (op, body, bytes)"""
    op = rng.choice([0, 1, 2, 3, 3, 3, 4, 5])
    fr = bytes(build(op, gen_fields(rng, op, big)))
    return op, fr[5:], fr


def cut(rng, data, mode=None):
    """cut a byte string into chunks"""
    n = len(data)
    if n == 0:
        return [b'']
    mode = mode or rng.choice(['one', 'bytes', 'rand', 'rand', 'header', 'two'])
    if mode == 'one':
        return [data]
    if mode == 'bytes' and n <= 400:
        return [data[i:i + 1] for i in range(n)]
    if mode == 'two':
        k = rng.randrange(0, n + 1)
        return [data[:k], data[k:]]
    pts = set()
    if mode == 'header':
        for _ in range(rng.randint(1, 6)):
            pts.add(rng.randrange(0, min(n, 12) + 1))
    for _ in range(rng.randint(1, 8)):
        pts.add(rng.randrange(0, n + 1))
    pts = sorted(p for p in pts if 0 < p < n)
    out, last = [], 0
    for p in pts:
        out.append(data[last:p])
        last = p
    out.append(data[last:])
    if rng.random() < 0.2:
        out.insert(rng.randrange(len(out) + 1), b'')     # an empty read
    return out


def all_cuts(data):
    n = len(data)
    for mask in range(1 << (n - 1)):
        out, last = [], 0
        for i in range(1, n):
            if mask >> (i - 1) & 1:
                out.append(data[last:i])
                last = i
        out.append(data[last:])
        yield out


def be32s(n):
    return struct.pack('!i', n)


def header_lattice():
    """(ml, op) boundary classes for 5-byte headers"""
    mls = [-2 ** 31, -2 ** 31 + 1, -65536, -6, -5, -4, -1, 0, 1, 4, 5, 6, 7, 8, 260, 280, 281, 282, 65535, 65536,
           P.MAXBUF - 1, P.MAXBUF, P.MAXBUF + 1, P.MAXBUF + 4, P.MAXBUF + 5, P.MAXBUF + 6, 2 ** 24, 2 ** 31 - 1]
    ops = [0, 1, 2, 3, 4, 5, 6, 7, 127, 128, 255]
    for ml in mls:
        for op in ops:
            yield ml, op


# ------------------------------------------------------------------------------------------------
# oracles (implementation only; independent of the Coq model)
# ------------------------------------------------------------------------------------------------
def oracle_c06(frames, tail, chunks, recs):
    """frames: list of encoded well-formed frames (bytes); tail: strict prefix of a frame.
    Every frame must come out exactly when its last byte has arrived; the buffer holds the rest."""
    ends = []
    off = 0
    for fr in frames:
        off += len(fr)
        ends.append(off)
    fed = 0
    done = 0
    for k, (ch, rec) in enumerate(zip(chunks, recs)):
        fed += len(ch)
        want = []
        while done < len(frames) and ends[done] <= fed:
            fr = frames[done]
            want.append((fr[4], fr[5:]))
            done += 1
        if rec['err'] != 0:
            return 'feed %d: decoder raised/hung (%s) on a well-formed stream' % (k, rec['info'])
        if rec['frames'] != want:
            return 'feed %d: yielded %d frame(s) %r, expected %d' % (
                k, len(rec['frames']), [(o, fp(d)) for o, d in rec['frames']][:3], len(want))
        consumed = ends[done - 1] if done else 0
        if rec['buflen'] != fed - consumed:
            return 'feed %d: %d bytes buffered, expected %d' % (k, rec['buflen'], fed - consumed)
    return None


def oracle_c07(chunks, recs):
    data = b''.join(chunks)
    consumed = 0
    fed = 0
    dead = False
    for k, (ch, rec) in enumerate(zip(chunks, recs)):
        fed += len(ch)
        if rec['err'] == 8:
            return 'feed %d: draining does not terminate (%s)' % (k, rec['info'])
        if rec['err'] == 9:
            return 'feed %d: raised something other than the protocol exception: %s' % (k, rec['info'])
        for op, body in rec['frames']:
            if dead:
                return 'feed %d: frame yielded after a protocol error' % k
            ml = 5 + len(body)
            if not (0 <= op <= 5):
                return 'feed %d: yielded undefined opcode %d' % (k, op)
            if not (5 <= ml <= limit(op)):
                return 'feed %d: yielded op %d with length %d outside [5, %d]' % (k, op, ml, limit(op))
            want = data[consumed:consumed + ml]
            if len(want) != ml or want[:4] != be32s(ml) or want[4] != op or want[5:] != body:
                return 'feed %d: yielded frame (op %d, %d bytes) is not the next %d input bytes' % (k, op, len(body), ml)
            consumed += ml
        if rec['buflen'] != fed - consumed:
            return 'feed %d: buffer holds %d bytes but %d were fed and %d consumed' % (k, rec['buflen'], fed, consumed)
        # verdict at the head of what is left must be immediate
        rest = data[consumed:fed]
        if len(rest) >= 5:
            ml, op = struct.unpack('!iB', rest[:5])
            bad = op > 5 or ml > limit(op) or ml < 5
            if bad and rec['err'] != 1:
                return 'feed %d: complete bad header (ml=%d op=%d) not rejected' % (k, ml, op)
            if not bad and rec['err'] == 1:
                return 'feed %d: acceptable header (ml=%d op=%d) rejected' % (k, ml, op)
            if not bad and len(rest) >= ml:
                return 'feed %d: a complete frame was left undelivered' % k
        elif rec['err'] == 1:
            return 'feed %d: rejected before the header was complete' % k
        if rec['err'] == 1:
            dead = True
        elif rec['buflen'] >= MAXLIMIT:
            return 'feed %d: %d bytes buffered after a clean drain (limit %d)' % (k, rec['buflen'], MAXLIMIT)
    return None


def oracle_c05(op, fields, rec):
    """in-range fields only"""
    if rec is None:
        return 'builder raised on in-range fields'
    fr = rec['frame']
    if struct.unpack('!i', fr[:4])[0] != len(fr):
        return 'length header %d != %d bytes produced' % (struct.unpack('!i', fr[:4])[0], len(fr))
    if rec['err'] != 0 or rec['buflen'] != 0 or len(rec['frames']) != 1:
        return 'built frame does not decode to exactly one frame (err=%s, left=%d, frames=%d)' % (
            rec['err'], rec['buflen'], len(rec['frames']))
    o, body = rec['frames'][0]
    if o != op:
        return 'opcode %d came back as %d' % (op, o)
    got = read(o, body)
    want = list(fields)
    if op == 2:
        import hashlib
        want = [fields[1], hashlib.sha1(bytes(fields[0]) + bytes(fields[2])).digest()]
    if got != [bytes(w) for w in want]:
        return 'fields came back different: %r' % ([fp(x) for x in got] if got else got,)
    return None


# ------------------------------------------------------------------------------------------------
# probes of the real Unpacker that are judged on the implementation only (inputs too large, or calls the Coq model of one
# stream does not have)
# ------------------------------------------------------------------------------------------------
def stream_roundtrip_probe(rng):
    """C05 over a stream: frames built by the msg* builders go through ONE decoder, one of them arriving in pieces (a large
    message spans several reads), the others whole; every frame must come out when complete and read back to its fields"""
    n = rng.randint(3, 8)
    built = []
    for k in range(n):
        op = rng.choice([1, 2, 3, 3, 3, 4, 5, 0])
        fields = gen_fields(rng, op, big=(k == 0 or rng.random() < 0.2))
        try:
            fr = build(op, fields)
        except Exception:       # a field out of range: not this probe's subject
            continue
        built.append((op, fields, bytes(fr)))
    if len(built) < 2:
        return None
    split = rng.randrange(len(built) - 1)            # not the last one: something must follow the frame that was split
    chunks = []
    for k, (op, fields, fr) in enumerate(built):
        if k == split and len(fr) > 6:
            cuts = sorted(set(rng.randrange(1, len(fr)) for _ in range(rng.choice([1, 1, 2, 3]))))
            prev = 0
            for c in cuts + [len(fr)]:
                chunks.append(fr[prev:c])
                prev = c
        else:
            chunks.append(fr)
    obs, recs = drive_unpack(chunks)
    bad = oracle_c06([fr for _, _, fr in built], b'', chunks, recs)
    if bad:
        return 'stream of %d built frames, frame %d arriving in pieces: %s' % (len(built), split, bad)
    got = [f for rec in recs for f in rec['frames']]
    for (op, fields, fr), (gop, body) in zip(built, got):
        try:
            back = read(op, body)
        except Exception as e:  # noqa
            return 'frame built by the builder for opcode %d does not read back: %s' % (op, type(e).__name__)
        want = list(fields)
        if op == 2:
            import hashlib
            want = [fields[1], hashlib.sha1(bytes(fields[0]) + tobytes(fields[2])).digest()]
        if gop != op or back != [tobytes(w) for w in want]:
            return 'fields came back different through the stream decoder (opcode %d)' % op
    return None


def giant_chunk_probe(rng):
    """C06 for reads larger than any frame: a well-formed stream of 2-3.5 MB fed as 1, 2 or 3 chunks"""
    frames = []
    total = 0
    target = rng.randint(2200000, 3500000)
    while total < target:
        if rng.random() < 0.6:
            payload = bytes([rng.randrange(256)]) * rng.choice([P.MAXBUF - 20, 700000, 300000, 1000000])
            fr = bytes(P.msgpublish('i', 'c', payload))
        else:
            fr = bytes(P.msgpublish('id', 'ch', bytes(rng.randrange(256) for _ in range(rng.randint(0, 40)))))
        frames.append(fr)
        total += len(fr)
    data = b''.join(frames)
    k = rng.choice([1, 2, 3])
    cuts = sorted(rng.randrange(1, len(data)) for _ in range(k - 1))
    chunks = [data[a:b] for a, b in zip([0] + cuts, cuts + [len(data)])]
    obs, recs = drive_unpack(chunks)
    bad = oracle_c06(frames, b'', chunks, recs)
    return ('%d-byte well-formed stream fed as %d chunk(s) of %s bytes: %s' % (len(data), k, [len(c) for c in chunks], bad)) if bad else None


def reset_probe(rng):
    """C07 across reset(): a decoder that is reset (as the blocking Client does on every reconnect) at any point of a
    stream - also right after a complete, valid header whose body has not arrived - must treat the next stream as a fresh
    decoder does: same frames, same rejections, same buffer"""
    first = gen_frame(rng, big=rng.random() < 0.3)[2]
    cut = rng.choice([5, 5, 6, len(first) - 1, rng.randrange(1, len(first)), 3]) if len(first) > 6 else rng.randrange(0, len(first) + 1)
    u = P.Unpacker()
    pre = [gen_frame(rng)[2] for _ in range(rng.randint(0, 2))]
    u.feed(b''.join(pre) + first[:cut])
    drain(u)
    u.reset()
    # the second stream: well-formed frames, or a header from the boundary lattice
    if rng.random() < 0.5:
        ml, op = rng.choice(list(header_lattice()))
        second = struct.pack('!iB', ml, op) + bytes(rng.randrange(256) for _ in range(rng.randint(0, 12)))
    else:
        second = b''.join(gen_frame(rng)[2] for _ in range(rng.randint(1, 3)))
    chunks = cut_stream(rng, second)
    obs, recs = drive_unpack(chunks, u)
    bad = oracle_c07(chunks, recs)
    if bad:
        return 'after reset() %d bytes into a %d-byte frame: %s' % (cut, len(first), bad)
    obs2, _ = drive_unpack(chunks)
    if obs != obs2:
        return 'after reset() %d bytes into a %d-byte frame the decoder behaves differently from a fresh one' % (cut, len(first))
    return None


def cut_stream(rng, data):
    if len(data) < 2 or rng.random() < 0.3:
        return [data]
    cuts = sorted(set(rng.randrange(1, len(data)) for _ in range(rng.randint(1, 3))))
    return [data[a:b] for a, b in zip([0] + cuts, cuts + [len(data)])]
