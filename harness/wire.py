"""Driver, generators and oracles for hpfeeds/protocol.py (C05, C06, C07).

Observation strings have exactly the format coq/Run.v prints (run_unpack / run_build), so the
correspondence check is a string comparison.
"""
import struct

from common import fp, coq_segs, coq_z

import hpfeeds.protocol as P
from hpfeeds.exceptions import ProtocolException


def limit(op):
    return P.SIZES.get(op, P.MAXBUF)


MAXLIMIT = max([limit(o) for o in range(6)] + [5])


# ------------------------------------------------------------------------------------------------
# driving the real Unpacker
# ------------------------------------------------------------------------------------------------
def drain(u):
    """Iterate the unpacker to exhaustion under an iteration watchdog.
    Returns (frames, errcode) with errcode 0 = StopIteration, 1 = ProtocolException,
    8 = watchdog (more yields than the buffer can hold), 9 = any other exception."""
    frames = []
    cap = len(u.buf) // 5 + 2
    it = iter(u)                 # the iteration protocol, as every caller in the library uses it (`for op, data in unpacker`)
    while True:
        if len(frames) > cap:
            return frames, 8, 'watchdog: more frames than bytes/5'
        try:
            op, data = next(it)
        except StopIteration:
            return frames, 0, None
        except ProtocolException as e:
            return frames, 1, type(e).__name__
        except Exception as e:  # noqa
            return frames, 9, '%s: %s' % (type(e).__name__, e)
        frames.append((op, bytes(data)))


def drive_unpack(chunks):
    """-> (observation string, structured per-feed records)"""
    u = P.Unpacker()
    outs = []
    recs = []
    for ch in chunks:
        u.feed(ch)
        frames, err, info = drain(u)
        outs.append('%s|E%d|B%d' % (','.join('F%d:%s' % (op, fp(d)) for op, d in frames), err, len(u.buf)))
        recs.append(dict(frames=frames, err=err, info=info, buflen=len(u.buf)))
    return ';'.join(outs), recs


def tostr(b):
    """bytes -> what the application would pass: str when it is valid UTF-8, else the raw bytes"""
    try:
        return bytes(b).decode('utf-8')
    except UnicodeDecodeError:
        return bytes(b)


def tobytes(x):
    return x.encode('utf-8') if isinstance(x, str) else bytes(x)


def build(op, fields):
    f = fields
    if op == 0:
        return P.msgerror(tostr(f[0]))
    if op == 1:
        return P.msginfo(tostr(f[0]), bytes(f[1]))
    if op == 2:
        return P.msgauth(bytes(f[0]), tostr(f[1]), tostr(f[2]))
    if op == 3:
        return P.msgpublish(tostr(f[0]), tostr(f[1]), bytes(f[2]))
    if op == 4:
        return P.msgsubscribe(tostr(f[0]), tostr(f[1]))
    if op == 5:
        return P.msgunsubscribe(tostr(f[0]), tostr(f[1]))
    raise ValueError(op)


READERS = {0: lambda d: (P.readerror(d),), 1: P.readinfo, 2: P.readauth, 3: P.readpublish,
           4: P.readsubscribe, 5: P.readunsubscribe}


def read(op, body):
    """-> list of bytes fields, or None when the reader raises"""
    try:
        r = READERS[op](body)
    except Exception:
        return None
    return [tobytes(x) for x in r]


def show_fields(fl):
    return 'X' if fl is None else '/'.join(fp(x) for x in fl)


def drive_build(op, fields):
    try:
        fr = build(op, fields)
    except (struct.error, UnicodeError, TypeError, ValueError):
        return 'X', None
    fr = bytes(fr)
    u = P.Unpacker()
    u.feed(fr)
    frames, err, _ = drain(u)
    s = '%s|%s|E%d|B%d|%s' % (fp(fr), ','.join('F%d:%s' % (o, fp(d)) for o, d in frames), err, len(u.buf),
                              ','.join(show_fields(read(o, d)) for o, d in frames))
    return s, dict(frame=fr, frames=frames, err=err, buflen=len(u.buf))


# ------------------------------------------------------------------------------------------------
# Coq expressions for the same cases
# ------------------------------------------------------------------------------------------------
def expr_unpack(chunks):
    return 'run_unpack [%s]' % '; '.join(coq_segs(c) for c in chunks)


def expr_build(op, fields):
    return 'run_build %s [%s]' % (coq_z(op), '; '.join(coq_segs(f) for f in fields))


# ------------------------------------------------------------------------------------------------
# generators
# ------------------------------------------------------------------------------------------------
UNI = ['', 'a', 'chan1', 'é', '日本語', '\U0001f600', 'x' * 255, 'é' * 127, '߿ࠀ￿', '\x00', '\x05abc',
       '\x00\x00\x00\x06\x03', 'A\x01B', 'ident', 'IDENT', 'ide', "o'brien", 'a,b', '../x', '퟿', '\U0010ffff']


def gen_str(rng, maxbytes=255):
    k = rng.random()
    if k < 0.45:
        s = rng.choice(UNI)
    elif k < 0.75:
        n = rng.choice([0, 1, 2, 3, 5, 8, 17, 40])
        s = ''.join(rng.choice('abcXYZ09._-é日\U0001f600\x01\x7f') for _ in range(n))
    elif k < 0.9:
        # bytes that look like length prefixes / headers
        s = ''.join(chr(rng.choice([0, 1, 2, 3, 4, 5, 6, 0x7f])) for _ in range(rng.randint(1, 8)))
    else:
        n = rng.choice([254, 255, 200])
        s = ''.join(rng.choice('ab') for _ in range(n))
    b = s.encode('utf-8')
    while len(b) > maxbytes:
        s = s[:-1]
        b = s.encode('utf-8')
    return b


def gen_payload(rng, big=False):
    if big:
        return bytes([rng.randrange(256)]) * rng.choice([70000, 300000])
    k = rng.random()
    if k < 0.2:
        return b''
    if k < 0.7:
        return bytes(rng.randrange(256) for _ in range(rng.randint(1, 40)))
    if k < 0.85:
        return bytes([rng.choice([0, 0xff, 0x80, 3])]) * rng.randint(48, 3000)
    return bytes(rng.choice([0, 1, 2, 3, 4, 5, 0xff]) for _ in range(rng.randint(1, 12)))


def gen_fields(rng, op, big=False):
    if op == 0:
        return [gen_str(rng, 4000)]
    if op == 1:
        return [gen_str(rng), bytes(rng.randrange(256) for _ in range(rng.choice([4, 4, 4, 0, 1, 20])))]
    if op == 2:
        return [bytes(rng.randrange(256) for _ in range(rng.choice([4, 4, 0, 7]))), gen_str(rng), gen_str(rng, 60)]
    if op == 3:
        return [gen_str(rng), gen_str(rng), gen_payload(rng, big)]
    return [gen_str(rng), gen_str(rng)]


def gen_frame(rng, big=False):
    """a well-formed frame: (op, body, bytes)"""
    op = rng.choice([0, 1, 2, 3, 3, 3, 4, 5])
    fr = bytes(build(op, gen_fields(rng, op, big)))
    return op, fr[5:], fr


def cut(rng, data, mode=None):
    """cut a byte string into chunks"""
    n = len(data)
    if n == 0:
        return [b'']
    mode = mode or rng.choice(['one', 'bytes', 'rand', 'rand', 'header', 'two'])
    if mode == 'one':
        return [data]
    if mode == 'bytes' and n <= 400:
        return [data[i:i + 1] for i in range(n)]
    if mode == 'two':
        k = rng.randrange(0, n + 1)
        return [data[:k], data[k:]]
    pts = set()
    if mode == 'header':
        for _ in range(rng.randint(1, 6)):
            pts.add(rng.randrange(0, min(n, 12) + 1))
    for _ in range(rng.randint(1, 8)):
        pts.add(rng.randrange(0, n + 1))
    pts = sorted(p for p in pts if 0 < p < n)
    out, last = [], 0
    for p in pts:
        out.append(data[last:p])
        last = p
    out.append(data[last:])
    if rng.random() < 0.2:
        out.insert(rng.randrange(len(out) + 1), b'')     # an empty read
    return out


def all_cuts(data):
    n = len(data)
    for mask in range(1 << (n - 1)):
        out, last = [], 0
        for i in range(1, n):
            if mask >> (i - 1) & 1:
                out.append(data[last:i])
                last = i
        out.append(data[last:])
        yield out


def be32s(n):
    return struct.pack('!i', n)


def header_lattice():
    """(ml, op) boundary classes for 5-byte headers"""
    mls = [-2 ** 31, -2 ** 31 + 1, -65536, -6, -5, -4, -1, 0, 1, 4, 5, 6, 7, 8, 260, 280, 281, 282, 65535, 65536,
           P.MAXBUF - 1, P.MAXBUF, P.MAXBUF + 1, P.MAXBUF + 4, P.MAXBUF + 5, P.MAXBUF + 6, 2 ** 24, 2 ** 31 - 1]
    ops = [0, 1, 2, 3, 4, 5, 6, 7, 127, 128, 255]
    for ml in mls:
        for op in ops:
            yield ml, op


# ------------------------------------------------------------------------------------------------
# oracles (implementation only; independent of the Coq model)
# ------------------------------------------------------------------------------------------------
def oracle_c06(frames, tail, chunks, recs):
    """frames: list of encoded well-formed frames (bytes); tail: strict prefix of a frame.
    Every frame must come out exactly when its last byte has arrived; the buffer holds the rest."""
    ends = []
    off = 0
    for fr in frames:
        off += len(fr)
        ends.append(off)
    fed = 0
    done = 0
    for k, (ch, rec) in enumerate(zip(chunks, recs)):
        fed += len(ch)
        want = []
        while done < len(frames) and ends[done] <= fed:
            fr = frames[done]
            want.append((fr[4], fr[5:]))
            done += 1
        if rec['err'] != 0:
            return 'feed %d: decoder raised/hung (%s) on a well-formed stream' % (k, rec['info'])
        if rec['frames'] != want:
            return 'feed %d: yielded %d frame(s) %r, expected %d' % (
                k, len(rec['frames']), [(o, fp(d)) for o, d in rec['frames']][:3], len(want))
        consumed = ends[done - 1] if done else 0
        if rec['buflen'] != fed - consumed:
            return 'feed %d: %d bytes buffered, expected %d' % (k, rec['buflen'], fed - consumed)
    return None


def oracle_c07(chunks, recs):
    data = b''.join(chunks)
    consumed = 0
    fed = 0
    dead = False
    for k, (ch, rec) in enumerate(zip(chunks, recs)):
        fed += len(ch)
        if rec['err'] == 8:
            return 'feed %d: draining does not terminate (%s)' % (k, rec['info'])
        if rec['err'] == 9:
            return 'feed %d: raised something other than the protocol exception: %s' % (k, rec['info'])
        for op, body in rec['frames']:
            if dead:
                return 'feed %d: frame yielded after a protocol error' % k
            ml = 5 + len(body)
            if not (0 <= op <= 5):
                return 'feed %d: yielded undefined opcode %d' % (k, op)
            if not (5 <= ml <= limit(op)):
                return 'feed %d: yielded op %d with length %d outside [5, %d]' % (k, op, ml, limit(op))
            want = data[consumed:consumed + ml]
            if len(want) != ml or want[:4] != be32s(ml) or want[4] != op or want[5:] != body:
                return 'feed %d: yielded frame (op %d, %d bytes) is not the next %d input bytes' % (k, op, len(body), ml)
            consumed += ml
        if rec['buflen'] != fed - consumed:
            return 'feed %d: buffer holds %d bytes but %d were fed and %d consumed' % (k, rec['buflen'], fed, consumed)
        # verdict at the head of what is left must be immediate
        rest = data[consumed:fed]
        if len(rest) >= 5:
            ml, op = struct.unpack('!iB', rest[:5])
            bad = op > 5 or ml > limit(op) or ml < 5
            if bad and rec['err'] != 1:
                return 'feed %d: complete bad header (ml=%d op=%d) not rejected' % (k, ml, op)
            if not bad and rec['err'] == 1:
                return 'feed %d: acceptable header (ml=%d op=%d) rejected' % (k, ml, op)
            if not bad and len(rest) >= ml:
                return 'feed %d: a complete frame was left undelivered' % k
        elif rec['err'] == 1:
            return 'feed %d: rejected before the header was complete' % k
        if rec['err'] == 1:
            dead = True
        elif rec['buflen'] >= MAXLIMIT:
            return 'feed %d: %d bytes buffered after a clean drain (limit %d)' % (k, rec['buflen'], MAXLIMIT)
    return None


def oracle_c05(op, fields, rec):
    """in-range fields only"""
    if rec is None:
        return 'builder raised on in-range fields'
    fr = rec['frame']
    if struct.unpack('!i', fr[:4])[0] != len(fr):
        return 'length header %d != %d bytes produced' % (struct.unpack('!i', fr[:4])[0], len(fr))
    if rec['err'] != 0 or rec['buflen'] != 0 or len(rec['frames']) != 1:
        return 'built frame does not decode to exactly one frame (err=%s, left=%d, frames=%d)' % (
            rec['err'], rec['buflen'], len(rec['frames']))
    o, body = rec['frames'][0]
    if o != op:
        return 'opcode %d came back as %d' % (op, o)
    got = read(o, body)
    want = list(fields)
    if op == 2:
        import hashlib
        want = [fields[1], hashlib.sha1(bytes(fields[0]) + bytes(fields[2])).digest()]
    if got != [bytes(w) for w in want]:
        return 'fields came back different: %r' % ([fp(x) for x in got] if got else got,)
    return None
