#!/usr/bin/env python3
"""Regenerate MANIFEST.json from the table below (kept in one place so it stays valid)."""
import json, os
HERE = os.path.dirname(os.path.abspath(__file__))
VERIF = os.path.dirname(HERE)

CLAIMED = {
    'C05': dict(tech='Coq proof: builder/decoder round-trip theorems per opcode, also for the Gallina text translated from protocol.py on every run (pytrans.py + ProtoGenEq.v) + vm_compute correspondence with msg*/Unpacker/read*',
                text='Six theorems (one per opcode) prove for all in-range field tuples that the built frame decodes to exactly '
                     'that opcode and those fields and that its length header equals its size; the Gallina builders, decoder, readers, '
                     'UTF-8 validator and SHA-1 are run by vm_compute against the real functions on generated field tuples every run.',
                ref='DESIGN.md §6 C05, §11.8', note='tie = translator (protocol.py -> ProtoGen.v, proved equal to the hand-written model) + differential test; str == UTF-8 bytes assumed'),
    'C06': dict(tech='Coq proof: append-monotonicity of the decoder => chunk independence, carried over to the Unpacker translated from protocol.py on every run; vm_compute correspondence with Unpacker',
                text='feed_all chunks = parse (concat chunks) is proved for every byte stream and every chunking, with corollaries for '
                     'well-formed frame sequences (in order, once, prompt, only the tail buffered); the model is run against the real '
                     'Unpacker after each feed on exhaustive cut patterns of short streams and sampled cuts of long ones.',
                ref='DESIGN.md §6 C06, §11.8', note='tie = translator (proved equal to the hand-written model) + differential test'),
    'C07': dict(tech='Coq proof: fuel adequacy (termination), exact decomposition of the input, header verdict lemma, residue bound; termination and outcomes also for the Unpacker translated from protocol.py on every run',
                text='Termination, validity of every yielded frame, exact byte accounting, rejection at the header and the buffer bound '
                     'are theorems over all byte strings and chunkings; the unrepaired decoder is proved to diverge on 00 00 00 00 00; '
                     'the model is run against the real Unpacker over a boundary lattice of headers and random streams under a watchdog.',
                ref='DESIGN.md §6 C07, §11.8', note='tie = translator (proved equal to the hand-written model) + differential test; hang = iteration watchdog'),
}

ALL = ['C%02d' % i for i in range(1, 21)]


def main():
    extra = json.load(open(os.path.join(HERE, 'manifest_extra.json'))) if os.path.exists(os.path.join(HERE, 'manifest_extra.json')) else {}
    claimed = dict(CLAIMED)
    claimed.update(extra.get('claimed', {}))
    checks = []
    for pid in ALL:
        if pid not in claimed:
            continue
        c = claimed[pid]
        checks.append(dict(
            property_id=pid,
            quick_cmd='./check %s --tier quick' % pid,
            thorough_cmd='./check %s --tier thorough' % pid,
            evidence_file='evidence/%s.json' % pid,
            replay_cmd_template='./check %s --replay {path}' % pid,
            engine='coq-proof+correspondence',
            level_claimed=dict(category='proof', text=c['text'], design_ref=c['ref']),
            level_note=c['note'],
            technique=c['tech'],
        ))
    na = [dict(property_id=pid, reason=extra.get('na', {}).get(pid, 'not built yet in this session (model and proof planned in DESIGN.md §6)'))
          for pid in ALL if pid not in claimed]
    m = dict(
        version=1,
        setup_cmd='./setup.sh',
        hooks=dict(guard='REP_HPFEEDS_VERIF', enable='no source hooks are needed: the harness drives the public classes and patches only the environment',
                   baseline_off_cmd='cd /repo && /venv/bin/python -m pytest -ra -q -p no:cacheprovider --timeout=900 --continue-on-collection-errors',
                   source_commits=[], add_only=True),
        engines=[dict(name='coq-proof+correspondence', path='coq/ harness/', serves_properties=[c['property_id'] for c in checks],
                      kind_free_text='Coq 8.16 theorems about an executable Gallina model; model run by vm_compute against the real Python code on generated cases')],
        checks=checks,
        not_applicable=na,
        notes='See DESIGN.md. fix: commits in /repo are listed in known_findings.json.',
    )
    json.dump(m, open(os.path.join(VERIF, 'MANIFEST.json'), 'w'), indent=1)
    print('MANIFEST.json: %d checks, %d not_applicable' % (len(checks), len(na)))


if __name__ == '__main__':
    main()
