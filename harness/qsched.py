"""qsched.py — every interleaving of a few put()/get() calls on the REAL hpfeeds.blocking.queue.Queue.

The Coq model of the wake-up queue (coq/Reactor.v: qstep) splits put into [PutItem; PutWake] and get into
[GetWake; GetItem] and proves its invariant for every interleaving of those sub-steps.  This module ties that model to
the code at the same granularity: the real put()/get() run in worker threads that stop at a gate in front of every
primitive they are about to perform (queue.Queue.put / get / empty / qsize of the superclass, send / recv on the socket
pair), and a controller releases exactly one thread at a time, so a schedule is a list of thread choices and can be
enumerated and replayed.  For each schedule

  * the trace of primitives is what the model is run on (qput x -> PutItem x, send -> PutWake, recv -> GetWake,
    qget -> GetItem) and the model's final (items, wake-up bytes, handed-out items) must equal the real ones;
  * the property itself is checked on the real object at the quiescent end: select()-readable iff qsize() > 0, a get()
    that was let through by readability finds an item, and draining while readable hands out every item, per-producer
    FIFO.

This is a search over schedules of small scenarios (a test, used for the correspondence and for finding a failing
schedule), not the proof; the proof is Reactor.queue_invariant over all event lists.
"""
import queue as stdqueue
import select
import socket
import threading

import hpfeeds.blocking.queue as Q

_tls = threading.local()
ORIG_SELECT = select.select


class Worker:
    def __init__(self, sched, name, ops):
        self.sched, self.name, self.ops = sched, name, ops
        self.go = threading.Semaphore(0)
        self.pending = None          # primitive it is parked in front of: (kind, arg)
        self.finished = False
        self.error = None
        self.results = []
        self.thread = threading.Thread(target=self.main, daemon=True)

    def gate(self, kind, arg=None):
        self.pending = (kind, arg)
        self.sched.arrived.release()
        self.go.acquire()
        self.pending = None
        self.sched.trace.append((self.name, kind, arg))

    def main(self):
        _tls.worker = self
        try:
            for op in self.ops:
                if op[0] == 'put':
                    self.sched.q.put_nowait(op[1])
                    self.results.append(('put', op[1]))
                else:
                    try:
                        self.results.append(('got', self.sched.q.get_nowait()))
                    except stdqueue.Empty:
                        self.results.append(('empty', None))
        except BaseException as e:  # noqa
            self.error = '%s: %s' % (type(e).__name__, e)
        finally:
            _tls.worker = None
            self.finished = True
            self.sched.arrived.release()


class SockProxy:
    def __init__(self, real, sched):
        self._real, self._sched = real, sched

    def send(self, data, *a):
        w = getattr(_tls, 'worker', None)
        if w is not None:
            w.gate('send')
        return self._real.send(data, *a)

    def recv(self, n, *a):
        w = getattr(_tls, 'worker', None)
        if w is not None:
            w.gate('recv')
        return self._real.recv(n, *a)

    def __getattr__(self, n):
        return getattr(self._real, n)


def _wrap(orig, kind, with_item=False):
    def f(self, *a, **kw):
        w = getattr(_tls, 'worker', None)
        if w is not None and self is w.sched.q:
            w.gate(kind, a[0] if (with_item and a) else None)
        return orig(self, *a, **kw)
    return f


class Patched:
    """gates in front of the superclass primitives, for the queue under test only"""
    NAMES = [('put', 'qput', True), ('get', 'qget', False), ('empty', 'empty', False), ('qsize', 'qsize', False),
             ('full', 'full', False)]

    def __enter__(self):
        self.saved = {n: getattr(stdqueue.Queue, n) for n, _, _ in self.NAMES}
        for n, kind, wi in self.NAMES:
            setattr(stdqueue.Queue, n, _wrap(self.saved[n], kind, wi))
        return self

    def __exit__(self, *a):
        for n, f in self.saved.items():
            setattr(stdqueue.Queue, n, f)


class Sched:
    def __init__(self, pre, threads):
        self.q = Q.Queue()
        self.real_put, self.real_get = self.q._putsocket, self.q._getsocket
        self.real_get.setblocking(True)
        self.q._putsocket = SockProxy(self.real_put, self)
        self.q._getsocket = SockProxy(self.real_get, self)
        self.arrived = threading.Semaphore(0)
        self.trace = []
        self.pre = pre
        self.workers = [Worker(self, 'T%d' % i, ops) for i, ops in enumerate(threads)]

    def wake_bytes(self):
        r, _, _ = select.select([self.real_get], [], [], 0)
        if not r:
            return 0
        return len(self.real_get.recv(65536, socket.MSG_PEEK))

    def enabled(self, w):
        kind = w.pending[0]
        if kind == 'recv':
            return self.wake_bytes() > 0          # a blocking recv with nothing to read cannot take its step
        return True

    def run(self, prefix):
        """-> dict(trace, decisions=[(chosen, [alternatives])], ...).  `prefix` = thread names to choose at the first
        decision points; afterwards the first enabled thread is chosen."""
        out = dict(decisions=[], deadlock=False)
        with Patched():
            # sequential prologue, traced with the same vocabulary
            pw = Worker(self, 'P', self.pre)
            pw.thread.start()
            while True:
                self.arrived.acquire()
                if pw.finished:
                    break
                pw.go.release()
            for w in self.workers:
                w.thread.start()
            for _ in self.workers:
                self.arrived.acquire()
            k = 0
            while True:
                parked = [w for w in self.workers if not w.finished and w.pending is not None]
                if not parked:
                    break
                en = [w for w in parked if self.enabled(w)]
                if not en:
                    out['deadlock'] = True
                    break
                names = [w.name for w in en]
                pick = prefix[k] if k < len(prefix) and prefix[k] in names else names[0]
                out['decisions'].append((pick, names))
                k += 1
                w = next(x for x in en if x.name == pick)
                w.go.release()
                self.arrived.acquire()
        out['trace'] = list(self.trace)
        out['pre_results'] = pw.results
        out['results'] = {w.name: w.results for w in self.workers}
        out['errors'] = [w.error for w in [pw] + self.workers if w.error]
        return out

    def unblock(self):
        """let threads that are still parked (deadlock) run to completion so that they do not linger"""
        try:
            self.real_put.send(b'x' * 16)
        except Exception:
            pass
        for w in self.workers:
            if not w.finished:
                for _ in range(8):
                    w.go.release()

    def close(self):
        for s in (self.real_put, self.real_get):
            try:
                s.close()
            except Exception:
                pass


SCENARIOS = [
    # (name, sequential prologue, concurrent threads)
    ('two producers on an empty queue', [], [[('put', 'a1')], [('put', 'b1')]]),
    ('producer against the consumer taking the last item', [('put', 'p0')], [[('get',)], [('put', 'b1')]]),
    ('producer against a consumer taking two items', [('put', 'p0'), ('put', 'p1')], [[('get',), ('get',)], [('put', 'b1')]]),
    ('two puts against the consumer taking the last item', [('put', 'p0')], [[('get',)], [('put', 'b1'), ('put', 'b2')]]),
    ('two producers against the consumer', [('put', 'p0')], [[('get',)], [('put', 'a1')], [('put', 'b1')]]),
]


def judge(sc, out, s):
    """the property on the real object after the schedule; -> failure text or None"""
    name, pre, threads = sc
    if out['errors']:
        return 'an exception left put()/get(): %s' % out['errors'][0]
    if out['deadlock']:
        return 'deadlock: every thread is waiting (a get() waits for a wake-up byte that will not come)'
    got = [v for r in [out['pre_results']] + list(out['results'].values()) for (k, v) in r if k == 'got']
    for r in out['results'].values():
        if any(k == 'empty' for k, _ in r):
            return 'a get() that had received its wake-up byte found the queue empty'
    readable = bool(select.select([s.q], [], [], 0)[0])
    n = stdqueue.Queue.qsize(s.q)
    if readable != (n > 0):
        return 'at the quiescent end the queue is %sselect()-readable but holds %d item(s)' % ('' if readable else 'not ', n)
    # drain the way the reactor does: only while readable
    for _ in range(10):
        if not select.select([s.q], [], [], 0)[0]:
            break
        try:
            got.append(s.q.get_nowait())
        except stdqueue.Empty:
            return 'the queue was select()-readable although it was empty (get_nowait() raised Empty)'
    put = [op[1] for op in pre if op[0] == 'put'] + [op[1] for t in threads for op in t if op[0] == 'put']
    if sorted(got) != sorted(put):
        return 'items put %r, items handed out while readable %r (still inside: %d)' % (put, got, stdqueue.Queue.qsize(s.q))
    # FIFO per producer (and the prologue before everything a later thread put)
    for seq in [[op[1] for op in pre if op[0] == 'put']] + [[op[1] for op in t if op[0] == 'put'] for t in threads]:
        idx = [got.index(x) for x in seq]
        if idx != sorted(idx):
            return 'items of one producer %r were handed out in order %r' % (seq, [got[i] for i in sorted(idx)])
    if select.select([s.q], [], [], 0)[0]:
        return 'the drained queue is still select()-readable'
    return None


def qevs(trace):
    """the primitive trace as events of the Coq model (items numbered in order of first appearance)"""
    ids, out = {}, []
    for _, kind, arg in trace:
        if kind == 'qput':
            out.append('PutItem %d' % ids.setdefault(arg, len(ids)))
        elif kind == 'send':
            out.append('PutWake')
        elif kind == 'recv':
            out.append('GetWake')
        elif kind == 'qget':
            out.append('GetItem')
    return out, ids


def explore(max_runs=400):
    """-> list of dict(scenario, schedule, trace, model_events, impl=(items, wake, ngot), failure)"""
    results = []
    for sc in SCENARIOS:
        name, pre, threads = sc
        todo = [[]]
        seen = set()
        runs = 0
        while todo and runs < max_runs:
            prefix = todo.pop()
            s = Sched(pre, threads)
            try:
                out = s.run(prefix)
                runs += 1
                sched = [p for p, _ in out['decisions']]
                if tuple(sched) in seen:
                    continue
                seen.add(tuple(sched))
                for i, (pick, names) in enumerate(out['decisions']):
                    if i >= len(prefix):
                        for alt in names:
                            if alt != pick:
                                todo.append(sched[:i] + [alt])
                evs, ids = qevs(out['trace'])
                items = [ids.get(x, -1) for x in list(s.q.queue)]
                wake = s.wake_bytes()
                got = [ids.get(v, -1) for r in [out['pre_results']] + [out['results'][w.name] for w in s.workers]
                       for (k, v) in r if k == 'got']
                fail = judge(sc, out, s)
                results.append(dict(scenario=name, schedule=sched, trace=[(a, b) for a, b, _ in out['trace']],
                                    model_events=evs, impl=(items, wake, sorted(got)), failure=fail,
                                    deadlock=out['deadlock']))
                if out['deadlock']:
                    s.unblock()
            finally:
                s.close()
    return results


# ------------------------------------------------------------------------------------------------
# two producer threads calling Reactor.write() with whole frames: every interleaving of their outbox operations
# ------------------------------------------------------------------------------------------------
class WSched:
    """two threads each call reactor.write(frame); they stop in front of every put on the reactor's outbox and the
    controller releases one at a time; afterwards the reactor is stepped by hand over a socket that accepts everything"""

    def __init__(self, frames):
        import hpfeeds.blocking.reactor as R
        self.R = R

        class Sock:
            def __init__(s):
                s.sent = bytearray()

            def setblocking(s, f):
                pass

            def setsockopt(s, *a):
                pass

            def close(s):
                pass

            def recv(s, n):
                raise socket.error(11, 'would block')

            def send(s, data):
                s.sent.extend(bytes(data))
                return len(data)

        class Proto:
            def connection_made(s):
                pass

            def connection_lost(s, reason):
                pass

            def data_received(s, d):
                pass
        self.sock = Sock()
        self.r = R.Reactor(Proto, lambda: self.sock)
        self.r._connect()
        self.q = self.r._outbox
        self.arrived = threading.Semaphore(0)
        self.trace = []
        self.frames = frames
        self.workers = []
        for i, f in enumerate(frames):
            w = Worker(self, 'W%d' % i, [])
            w.frame = f
            w.main = (lambda w=w: self._main(w))
            w.thread = threading.Thread(target=w.main, daemon=True)
            self.workers.append(w)

    def _main(self, w):
        _tls.worker = w
        try:
            self.r.write(w.frame)
        except BaseException as e:  # noqa
            w.error = '%s: %s' % (type(e).__name__, e)
        finally:
            _tls.worker = None
            w.finished = True
            self.arrived.release()

    def run(self, prefix):
        decisions = []
        with Patched():
            for w in self.workers:
                w.thread.start()
            for _ in self.workers:
                self.arrived.acquire()
            k = 0
            while True:
                parked = [w for w in self.workers if not w.finished and w.pending is not None]
                if not parked:
                    break
                names = [w.name for w in parked]
                pick = prefix[k] if k < len(prefix) and prefix[k] in names else names[0]
                decisions.append((pick, names))
                k += 1
                w = next(x for x in parked if x.name == pick)
                w.go.release()
                self.arrived.acquire()
        # drain: the reactor thread's loop, by hand
        old = self.R.select.select

        def fake(rl, wl, xl, timeout=None):
            rr = [x for x in rl if x is self.r._outbox and ORIG_SELECT([x], [], [], 0)[0]]
            return rr, [x for x in wl if x is self.sock], []
        self.R.select.select = fake
        try:
            for _ in range(200):
                if not self.r._buffer and self.r._outbox.qsize() == 0:
                    break
                self.r._select()
        finally:
            self.R.select.select = old
        return decisions

    def close(self):
        for sk in (self.q._putsocket, self.q._getsocket):
            try:
                sk.close()
            except Exception:
                pass


def explore_writes(max_runs=200):
    """-> list of dict(scenario, schedule, failure): frames handed to Reactor.write() from two threads reach the socket whole,
    each exactly once, never interleaved (in either order)"""
    results = []
    for name, sizes in (('two small frames', (40, 60)), ('a small and a 20 KiB frame', (50, 20000)), ('two 40 KiB frames', (40000, 41000))):
        frames = [bytes([65 + i]) * n for i, n in enumerate(sizes)]
        todo, seen, runs = [[]], set(), 0
        while todo and runs < max_runs:
            prefix = todo.pop()
            s = WSched(frames)
            try:
                dec = s.run(prefix)
                runs += 1
                sched = [p for p, _ in dec]
                if tuple(sched) in seen:
                    continue
                seen.add(tuple(sched))
                for i, (pick, names) in enumerate(dec):
                    if i >= len(prefix):
                        for alt in names:
                            if alt != pick:
                                todo.append(sched[:i] + [alt])
                got = bytes(s.sock.sent)
                fail = None
                errs = [w.error for w in s.workers if w.error]
                if errs:
                    fail = 'Reactor.write() raised %s' % errs[0]
                elif got not in (frames[0] + frames[1], frames[1] + frames[0]):
                    k = next((i for i in range(min(len(got), len(frames[0]))) if got[i] != got[0]), len(got))
                    fail = ('two threads wrote frames of %d and %d bytes; the socket got %d bytes that are neither A+B nor B+A (the first '
                            'frame is interrupted after %d bytes): frames interleaved, truncated or repeated' % (sizes[0], sizes[1], len(got), k))
                results.append(dict(scenario='writers: ' + name, schedule=sched, failure=fail))
            finally:
                s.close()
    return results


if __name__ == '__main__':
    rs = explore()
    print(len(rs), 'schedules;', sum(1 for r in rs if r['failure']), 'failing')
    for r in rs:
        if r['failure']:
            print(r['scenario'], r['schedule'], r['failure'])
            break
