#!/venv/bin/python
"""pytrans2.py — fail-closed translator of the three client protocol classes to Gallina (coq/ProtoClsGen.v).

  hpfeeds/asyncio/protocol.py   BaseProtocol + ClientProtocol   ->  Module Aio
  hpfeeds/blocking/protocol.py  BaseProtocol + ClientProtocol   ->  Module Blk
  hpfeeds/twisted/protocol.py   BaseProtocol + ClientProtocol   ->  Module Tw

For each file the methods reachable from data_received / dataReceived of ClientProtocol (resolved along the MRO
ClientProtocol -> BaseProtocol) are translated, one Gallina definition per method, into the object monad of coq/PyObj.v;
expressions that do not touch `self` are translated by pytrans.Fn (the same translator, the same primitives, the same
functions of protocol.py - referred to as ProtoGen.f).

The object is seen as C16 sees it, under the recording subclass of harness/clientproto.py:
  self.on_info / on_auth / on_subscribe / on_unsubscribe (onInfo ...)   log the call, then run the library's method
  self.on_publish / on_error                                            log the call (the application's handlers)
  self.protocol_error(..) / self.connection_ready()                      log X / R   (arguments only format a message)
  self.transport.write(b) / .close() / .loseConnection()                 log W b / C
  self.ident, self.secret, self.factory.ident, self.factory.secret      the section variables ident, secret
  self.unpacker.feed(x); for a, b in self.unpacker: ...                  the translated Unpacker of ProtoGen.v
Anything else aborts the translation (exit 2).
"""
import ast
import os
import sys

HERE = os.path.dirname(os.path.abspath(__file__))
sys.path.insert(0, HERE)
import pytrans  # noqa: E402
from pytrans import Unsupported, cq  # noqa: E402

REPO = os.environ.get('VERIF_REPO', '/repo')
OUT = os.environ.get('PYTRANS2_OUT', os.path.join(HERE, '..', 'coq', 'ProtoClsGen.v'))

FLAVOURS = [
    ('Aio', 'hpfeeds/asyncio/protocol.py', 'data_received',
     dict(on_info='log_info', on_auth='log_auth', on_subscribe='log_subscribe', on_unsubscribe='log_unsubscribe'),
     dict(on_publish='log_publish', on_error='log_error'),
     dict(protocol_error='ClientProto.ProtoError', connection_ready='ClientProto.ConnReady')),
    ('Blk', 'hpfeeds/blocking/protocol.py', 'data_received',
     dict(on_info='log_info', on_auth='log_auth', on_subscribe='log_subscribe', on_unsubscribe='log_unsubscribe'),
     dict(on_publish='log_publish', on_error='log_error'),
     dict(protocol_error='ClientProto.ProtoError', connection_ready='ClientProto.ConnReady')),
    ('Tw', 'hpfeeds/twisted/protocol.py', 'dataReceived',
     dict(onInfo='log_info', onAuth='log_auth', onSubscribe='log_subscribe', onUnsubscribe='log_unsubscribe'),
     dict(onPublish='log_publish', onError='log_error'),
     dict(protocolError='ClientProto.ProtoError', connectionReady='ClientProto.ConnReady')),
]
CLOSE = {'close', 'loseConnection'}


def exception_closure(cls):
    """names of the classes in hpfeeds/exceptions.py that are `cls` or derive from it"""
    tree = ast.parse(open(os.path.join(REPO, 'hpfeeds', 'exceptions.py')).read())
    parents = {}
    for s in tree.body:
        if isinstance(s, ast.ClassDef):
            parents[s.name] = [b.id for b in s.bases if isinstance(b, ast.Name)]
    out = set()

    def derives(c, seen=()):
        if c == cls:
            return True
        return any(derives(p, seen + (c,)) for p in parents.get(c, []) if p not in seen)
    for c in parents:
        if derives(c):
            out.add(c)
    out.add(cls)
    return sorted(out)


class MFn(pytrans.Fn):
    """one method, in the object monad"""

    def __init__(self, tr, flav, name, args):
        super().__init__(tr, name, args, False)
        self.flav = flav
        self.qual = 'ProtoGen.'

    def ret(self, pure):
        return '(retS %s)' % pure

    def bind(self, comp, var, body):
        return '(bindS %s (fun %s => %s))' % (comp, var, body)

    def lift(self, rterm):
        return '(liftS %s)' % rterm

    # ---- expressions ----
    def is_self_attr(self, e, names):
        return (isinstance(e, ast.Attribute) and e.attr in names and
                ((isinstance(e.value, ast.Name) and e.value.id == 'self') or
                 (isinstance(e.value, ast.Attribute) and e.value.attr == 'factory' and isinstance(e.value.value, ast.Name)
                  and e.value.value.id == 'self')))

    def expr(self, e):
        if self.is_self_attr(e, ('ident', 'secret')):
            return 'pure', e.attr
        if isinstance(e, ast.Call) and isinstance(e.func, ast.Name) and e.func.id == 'str' and len(e.args) == 1 \
                and isinstance(e.args[0], ast.Name) and e.args[0].id in self.excvars:
            return 'pure', 'VNone'            # str(e) of a caught exception: only ever a message argument
        return super().expr(e)

    excvars = ()

    def call(self, e):
        f = e.func
        fl = self.flav
        if isinstance(f, ast.Attribute) and isinstance(f.value, ast.Name) and f.value.id == 'self':
            name = f.attr
            if name in fl.events:
                if e.keywords:
                    raise Unsupported(e, 'keyword arguments')
                return 'comp', '(emit %s)' % fl.events[name]           # arguments only format a message
            if name in fl.logonly or name in fl.logthen or name in fl.methods:
                return 'comp', self.method_call(e, name)
            raise Unsupported(e, 'unknown method of self')
        # self.transport.write(x) / close()
        if (isinstance(f, ast.Attribute) and isinstance(f.value, ast.Attribute) and f.value.attr == 'transport'
                and isinstance(f.value.value, ast.Name) and f.value.value.id == 'self'):
            if f.attr == 'write' and len(e.args) == 1 and not e.keywords:
                return 'comp', self.atoms(e.args, lambda ps: '(log_write %s)' % ps[0])
            if f.attr in CLOSE and not e.args and not e.keywords:
                return 'comp', '(emit ClientProto.Close)'
            raise Unsupported(e, 'transport method')
        # self.unpacker.feed(x)
        if (isinstance(f, ast.Attribute) and f.attr == 'feed' and isinstance(f.value, ast.Attribute) and f.value.attr == 'unpacker'
                and isinstance(f.value.value, ast.Name) and f.value.value.id == 'self' and len(e.args) == 1):
            return 'comp', self.atoms(e.args, lambda ps: '(on_unpacker (ProtoGen.Unpacker_feed %s))' % ps[0])
        if isinstance(f, ast.Attribute) and f.attr == 'format' and isinstance(f.value, ast.Constant):
            return 'pure', 'VNone'            # '...'.format(x): only ever a message argument
        return super().call(e)

    def method_call(self, e, name):
        fl = self.flav
        arity = fl.arity(name)
        # arguments: plain, or one starred tuple
        if len(e.args) == 1 and isinstance(e.args[0], ast.Starred):
            inner = e.args[0].value
            k, t = self.expr(inner)
            comp = t if k == 'comp' else self.ret(t)
            v = self.fresh()
            names = [self.fresh() for _ in range(arity)]
            if arity == 2:
                un, pat = 'py_untuple2\'', "'(%s, %s)" % tuple(names)
            elif arity == 3:
                un, pat = 'py_untuple3', "'(%s, %s, %s)" % tuple(names)
            else:
                raise Unsupported(e, 'star-arguments for a method of arity %d' % arity)
            return self.bind(comp, v, self.bind(self.lift('(%s %s)' % (un, v)), pat, self.invoke(name, names)))
        if any(isinstance(a, ast.Starred) for a in e.args) or e.keywords:
            raise Unsupported(e, 'argument list')
        if len(e.args) != arity:
            raise Unsupported(e, 'arity of %s' % name)
        return self.atoms(e.args, lambda ps: self.invoke(name, ps))

    def invoke(self, name, ps):
        fl = self.flav
        args = ' '.join(ps)
        if name in fl.logonly:
            return '(%s %s)' % (fl.logonly[name], args)
        target = '(%s %s)' % (fl.coqname(name), args) if ps else fl.coqname(name)
        fl.need(name)
        if name in fl.logthen:
            return self.bind('(%s %s)' % (fl.logthen[name], args), '_', target)
        return target

    # ---- statements ----
    def block(self, stmts, fallthrough=None):
        if stmts:
            s, rest = stmts[0], stmts[1:]
            if isinstance(s, ast.Pass):
                return self.block(rest, fallthrough)
            if isinstance(s, ast.Try):
                if s.orelse or s.finalbody or len(s.handlers) != 1:
                    raise Unsupported(s, 'try shape')
                h = s.handlers[0]
                if not isinstance(h.type, ast.Name):
                    raise Unsupported(s, 'except clause')
                caught = exception_closure(h.type.id)
                body = self.block(s.body)
                old = self.excvars
                self.excvars = old + ((h.name,) if h.name else ())
                handler = self.block(h.body)
                self.excvars = old
                lst = '[%s]' % '; '.join('"%s"' % c for c in caught)
                return self.bind('(try_except %s %s %s)' % (body, lst, handler), '_', self.block(rest, fallthrough))
            if isinstance(s, ast.For):
                it = s.iter
                ok = (isinstance(it, ast.Attribute) and it.attr == 'unpacker' and isinstance(it.value, ast.Name) and it.value.id == 'self'
                      and not s.orelse and isinstance(s.target, ast.Tuple) and len(s.target.elts) == 2
                      and all(isinstance(x, ast.Name) for x in s.target.elts))
                if not ok:
                    raise Unsupported(s, 'for loop that is not `for a, b in self.unpacker`')
                a, b = (x.id for x in s.target.elts)
                saved = set(self.locals)
                self.locals |= {a, b}
                v = self.fresh()
                body = self.loop_body(s.body)
                self.locals = saved
                loop = "(for_in_unpacker (fun %s => %s))" % (v, self.bind(self.lift("(py_untuple2' %s)" % v), "'(%s, %s)" % (cq(a), cq(b)), body))
                return self.bind(loop, '_', self.block(rest, fallthrough))
        return super().block(stmts, fallthrough)

    def loop_body(self, stmts):
        if not stmts:
            return '(retS LNext)'
        s, rest = stmts[0], stmts[1:]
        if isinstance(s, ast.Break):
            if rest:
                raise Unsupported(s, 'code after break')
            return '(retS LBreak)'
        if isinstance(s, ast.Expr):
            k, t = self.expr(s.value)
            if k != 'comp':
                raise Unsupported(s, 'expression statement without effect')
            return self.bind(t, '_', self.loop_body(rest))
        if isinstance(s, ast.If) and not s.orelse and self.ends(s.body):
            k, t = self.expr(s.test)
            c, b = self.fresh(), self.fresh()
            cond = self.bind(t if k == 'comp' else self.ret(t), c, self.lift('(py_truth %s)' % c))
            return self.bind(cond, b, '(if %s then %s else %s)' % (b, self.loop_body(s.body), self.loop_body(rest)))
        raise Unsupported(s, 'statement in a loop body')

    @staticmethod
    def ends(stmts):
        return bool(stmts) and isinstance(stmts[-1], ast.Break)


class Flavour:
    def __init__(self, tr, mod, path, entry, logthen, logonly, events):
        self.tr, self.mod, self.path, self.entry = tr, mod, path, entry
        self.logthen, self.logonly, self.events = logthen, logonly, events
        tree = ast.parse(open(os.path.join(REPO, path)).read())
        classes = {s.name: s for s in tree.body if isinstance(s, ast.ClassDef)}
        for c in ('BaseProtocol', 'ClientProtocol'):
            if c not in classes:
                raise Unsupported(tree, '%s: class %s not found' % (path, c))
        bases = [b.id for b in classes['ClientProtocol'].bases if isinstance(b, ast.Name)]
        if bases != ['BaseProtocol']:
            raise Unsupported(classes['ClientProtocol'], '%s: ClientProtocol does not derive from BaseProtocol only' % path)
        # names imported from hpfeeds.protocol must be the ones ProtoGen translates
        for s in tree.body:
            if isinstance(s, ast.ImportFrom) and s.module in ('hpfeeds.protocol',) :
                for a in s.names:
                    if a.asname:
                        raise Unsupported(s, 'import alias')
        self.methods = {}
        for c in ('BaseProtocol', 'ClientProtocol'):          # later wins: the MRO of ClientProtocol
            for m in classes[c].body:
                if isinstance(m, ast.FunctionDef):
                    self.methods[m.name] = m
        self.done = {}
        self.order = []
        self.pending = []

    def arity(self, name):
        if name in self.methods:
            return len(self.methods[name].args.args) - 1
        raise Unsupported(name, 'unknown method')

    def coqname(self, name):
        return cq(name)

    def need(self, name):
        if name not in self.done and name not in self.pending:
            self.pending.append(name)

    def translate(self):
        self.need(self.entry)
        defs = {}
        deps = {}
        while self.pending:
            name = self.pending.pop(0)
            fd = self.methods[name]
            a = fd.args
            if a.vararg or a.kwarg or a.kwonlyargs or a.defaults or fd.decorator_list:
                raise Unsupported(fd, 'method signature')
            names = [x.arg for x in a.args]
            if not names or names[0] != 'self':
                raise Unsupported(fd, 'method without self')
            before = set(self.pending) | set(self.done)
            f = MFn(self.tr, self, name, names[1:])
            term = f.block(fd.body)
            params = ' '.join('(%s : val)' % cq(n) for n in names[1:])
            defs[name] = 'Definition %s %s: MS val :=\n  %s.' % (cq(name), params + ' ' if params else '', term)
            self.done[name] = True
            deps[name] = [n for n in self.pending if n not in before] + [n for n in self.methods if ('(%s ' % cq(n)) in term or (' %s)' % cq(n)) in term or term.endswith(cq(n) + ')')]
        # order by use
        out, seen, visiting = [], set(), set()

        def visit(n):
            if n in seen or n not in defs:
                return
            if n in visiting:
                raise Unsupported(n, 'recursive methods')
            visiting.add(n)
            for d in deps[n]:
                if d != n:
                    visit(d)
            visiting.discard(n)
            seen.add(n)
            out.append(defs[n])
        for n in defs:
            visit(n)
        return out


def main():
    try:
        tr = pytrans.Translator(open(pytrans.SRC).read())
        tr.run()                                     # fills funcs / consts / exceptions
        chunks = []
        for mod, path, entry, logthen, logonly, events in FLAVOURS:
            fl = Flavour(tr, mod, path, entry, logthen, logonly, events)
            defs = fl.translate()
            chunks.append('Module %s.\nSection S.\nVariable ident secret : val.\n\n%s\nEnd S.\nEnd %s.\n' % (mod, '\n\n'.join(defs), mod))
    except Unsupported as e:
        sys.stderr.write('pytrans2: cannot translate: %s\n' % e)
        return 2
    head = ['(* GENERATED by harness/pytrans2.py from %s/hpfeeds/{asyncio,blocking,twisted}/protocol.py - do not edit *)' % REPO,
            'From Coq Require Import ZArith List Bool String.',
            'From Coq Require Import Strings.Byte.',
            'From HP Require Import Bytes PyPrim PyObj.',
            'From HP Require ProtoGen ClientProto.',
            'Import ListNotations.',
            'Open Scope Z_scope.',
            'Open Scope string_scope.',
            '']
    txt = '\n'.join(head) + '\n'.join(chunks)
    old = open(OUT).read() if os.path.exists(OUT) else None
    if old != txt:
        tmp = OUT + '.tmp.%d' % os.getpid()
        open(tmp, 'w').write(txt)
        os.replace(tmp, OUT)
        print('ProtoClsGen.v rewritten')
    return 0


if __name__ == '__main__':
    sys.exit(main())
