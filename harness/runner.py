"""./check <ID> [--tier quick|thorough] [--replay FILE]

Decision protocol (DESIGN §5):
  proofs build, Print Assumptions closed, every case agrees, oracle never fails -> exit 0
  oracle fails on the implementation for some case   -> VIOLATION property=<id> replay=<file>   (exit 1)
      unless the failure's signature is an open entry of known_findings.json -> KNOWN-FINDING line (exit 0)
  proof obligation fails or model/code disagree, and the directed search finds no failing input
                                                     -> VIOLATION ... no-failing-input-found      (exit 1)
"""
import argparse
import importlib
import json
import os
import sys
import time
import traceback

HERE = os.path.dirname(os.path.abspath(__file__))
sys.path.insert(0, HERE)
import common  # noqa: E402
from common import log  # noqa: E402

sys.path.insert(0, common.REPO)
os.environ.setdefault('PYTHONHASHSEED', '0')


class Ctx:
    def __init__(self, pid, tier, seed, workdir, proof_ok):
        self.pid = pid
        self.tier = tier
        self.seed = seed
        self.workdir = workdir
        self.proof_ok = proof_ok
        self.scale = 1          # multiplied in the directed search
        self.boost = 1          # multiplied when the anchored source differs from the validated baseline (srcwatch.py)
        self.impl_only = False  # directed search: run the implementation + oracle only

    def rng(self, salt=''):
        return common.mkrng(self.seed, '%s/%s' % (self.pid, salt))

    def n(self, quick, thorough):
        return (thorough if self.tier == 'thorough' else quick) * self.scale * self.boost


class Result:
    """What a property module reports back."""

    def __init__(self):
        self.evaluations = 0
        self.signatures = set()       # signatures of distinct non-trivial cases
        self.rule = ''
        self.samples = []
        self.dist = {}
        self.failures = []            # concrete violations on the implementation: dict(signature, what, case)
        self.disagreements = []       # model/code differ: dict(case, impl, model)
        self.model_errors = []        # coqc problems while running the model
        self.notes = []
        self.extra = {}

    def count(self, key, k=1):
        self.dist[key] = self.dist.get(key, 0) + k


def main(argv=None):
    ap = argparse.ArgumentParser()
    ap.add_argument('pid')
    ap.add_argument('--tier', default=os.environ.get('VERIF_TIER', 'quick'), choices=['quick', 'thorough'])
    ap.add_argument('--replay', default=None)
    ap.add_argument('--seed', type=int, default=int(os.environ.get('VERIF_SEED', '20260929')))
    a = ap.parse_args(argv)
    pid = a.pid.upper()
    t0 = time.time()
    mod = importlib.import_module('props.' + pid.lower())

    with common.Work(pid) as wd:
        built, blog = common.ensure_built()
        forb = common.scan_forbidden()
        # a failing build (make -k) only matters to this property if its own file no longer compiles
        prop = common.compile_property(pid, wd)
        proof_ok = bool(prop['ok'] and prop['closed'] and not forb)
        proof_problem = None
        if not prop['ok'] and not built:
            proof_problem = ('the Coq development no longer builds against the constants read from /repo: '
                             + blog[-1500:] + ' / ' + prop['log'][-800:])
        elif forb:
            proof_problem = 'forbidden declarations in the development: ' + '; '.join(forb[:5])
        elif not prop['ok']:
            proof_problem = 'Properties/%s.v no longer compiles: %s' % (pid, prop['log'][-1500:])
        elif not prop['closed']:
            proof_problem = 'Print Assumptions is not closed for Properties/%s.v: %r' % (pid, prop['assumptions'])

        chk = None
        if a.tier == 'thorough' and prop['ok'] and not a.replay:
            chk = common.coqchk_property(pid, wd)
            if not chk['ok']:
                proof_ok = False
                proof_problem = proof_problem or ('coqchk does not accept Properties/%s.v and its dependencies without axioms: %r %s'
                                                  % (pid, chk['summary'], chk['log']))
        ctx = Ctx(pid, a.tier, a.seed, wd, proof_ok)
        src_changed = []
        try:
            import srcwatch
            src_changed = srcwatch.changed_for(pid)
        except Exception:
            log(traceback.format_exc())
        if src_changed and a.tier == 'quick' and not a.replay:
            ctx.boost = int(os.environ.get('VERIF_BOOST', '4'))
            log('anchored source changed since the model was validated (%s): case counts x%d' % (', '.join(src_changed), ctx.boost))
        if a.replay:
            return replay(mod, ctx, a.replay)

        res = Result()
        crashed = None
        try:
            mod.run(ctx, res)
        except Exception:
            crashed = traceback.format_exc()
            log(crashed)

        findings = [f for f in common.known_findings() if f.get('property') == pid]
        open_sigs = {f['signature']: f for f in findings if f.get('status') == 'open'}

        lines = []
        exit_code = 0
        violations = 0
        known_hit = {}
        new_fail = []
        for f in res.failures:
            if f.get('signature') in open_sigs:
                known_hit.setdefault(f['signature'], f)
            else:
                new_fail.append(f)
        for sig, f in sorted(known_hit.items()):
            lines.append('KNOWN-FINDING: property=%s %s' % (pid, open_sigs[sig].get('description', sig)))
        if new_fail:
            f = new_fail[0]
            payload = dict(property=pid, kind='failing-input', what=f.get('what'), signature=f.get('signature'), case=f.get('case'),
                           seed=a.seed, tier=a.tier)
            try:
                import shrink
                small, info = shrink.shrink_case(mod, ctx, f.get('case'), f.get('what'), budget_s=45.0)
                if small is not None:
                    payload['original_case'] = payload['case']
                    payload['case'] = small
                    payload['what'] = info.get('what') or payload['what']
                if info:
                    payload['shrink'] = {k: v for k, v in info.items() if k != 'what'}
            except Exception:
                log(traceback.format_exc())
            path = common.write_replay(pid, payload)
            lines.append('VIOLATION property=%s replay=%s' % (pid, path))
            log('violation: %s' % f.get('what'))
            violations = len(new_fail)
            exit_code = 1
        elif crashed or proof_problem or res.disagreements or res.model_errors:
            # the property is no longer shown to hold: search the implementation for a failing input
            found = None
            if not crashed and hasattr(mod, 'run'):
                try:
                    sctx = Ctx(pid, a.tier, a.seed + 1, wd, proof_ok)
                    sctx.scale = 8
                    sctx.impl_only = True
                    sres = Result()
                    if hasattr(mod, 'search'):
                        mod.search(sctx, sres, res.disagreements)
                    else:
                        mod.run(sctx, sres)
                    cand = [f for f in sres.failures if f.get('signature') not in open_sigs]
                    if cand:
                        found = cand[0]
                    res.evaluations += sres.evaluations
                except Exception:
                    log(traceback.format_exc())
            if found:
                path = common.write_replay(pid, dict(property=pid, kind='failing-input', what=found.get('what'),
                                                     signature=found.get('signature'), case=found.get('case'),
                                                     seed=a.seed, tier=a.tier, found_by='directed search'))
                lines.append('VIOLATION property=%s replay=%s' % (pid, path))
                violations = 1
            else:
                why = dict(property=pid, kind='no-failing-input-found', seed=a.seed, tier=a.tier)
                if proof_problem:
                    why['proof_obligation'] = proof_problem
                    why['theorems'] = prop.get('theorems')
                if res.disagreements:
                    why['correspondence'] = 'model (coq/) and implementation (/repo) differ on %d case(s)' % len(res.disagreements)
                    why['first_disagreement'] = res.disagreements[0]
                if res.model_errors:
                    why['model_errors'] = res.model_errors[:3]
                if crashed:
                    why['harness_exception'] = crashed[-3000:]
                path = common.write_replay(pid, why)
                lines.append('VIOLATION property=%s replay=%s no-failing-input-found' % (pid, path))
                violations = 1
            exit_code = 1

        wall = time.time() - t0
        level = getattr(mod, 'LEVEL', 'proof')
        obligations = len(prop.get('theorems', []))
        discharged = obligations if proof_ok else 0
        cov = dict(
            obligations=max(obligations, 1) if level == 'proof' else obligations,
            discharged=discharged,
            checker_cmd='make -C coq (full .vo build) && ' + prop.get('cmd', ''),
            trusted_base=common.TRUSTED_BASE + list(getattr(mod, 'TRUSTED_EXTRA', [])),
            theorems=prop.get('theorems', []),
            print_assumptions=prop.get('assumptions', {}),
            evaluations=res.evaluations,
            distinct_nontrivial=len(res.signatures),
            rule=res.rule,
            samples=res.samples[:6],
            traces_validated_against_impl=res.evaluations,
            disagreements=len(res.disagreements),
            distribution=res.dist,
            known_findings_hit=sorted(known_hit),
            notes=res.notes + (['anchored source differs from harness/src_baseline.json (%s): case counts multiplied by %d'
                                % (', '.join(src_changed), ctx.boost)] if src_changed else []),
        )
        if chk is not None:
            cov['coqchk'] = dict(cmd=chk['cmd'], accepted=chk['ok'], wall_s=chk['wall_s'], context_summary=chk['summary'])
        cov.update(res.extra)
        ev = dict(property_id=pid, tier=a.tier, seed=a.seed, level=level, coverage=cov,
                  assumptions=list(getattr(mod, 'ASSUMPTIONS', [])), wall_s=round(wall, 2), violations=violations)
        common.write_evidence(pid, ev)
        for ln in lines:
            print(ln)
        if exit_code == 0:
            print('PASS property=%s tier=%s theorems=%d/%d cases=%d distinct=%d wall=%.1fs'
                  % (pid, a.tier, discharged, obligations, res.evaluations, len(res.signatures), wall))
        sys.stdout.flush()
        return exit_code


def replay(mod, ctx, path):
    data = json.load(open(path))
    case = data.get('case')
    if case is None or not hasattr(mod, 'replay'):
        print('replay file has no concrete case (kind=%s)' % data.get('kind'))
        print(json.dumps(data, indent=1)[:3000])
        return 2
    what = mod.replay(ctx, case)
    if what:
        print('REPRODUCED property=%s: %s' % (ctx.pid, what))
        return 1
    print('NOT-REPRODUCED property=%s' % ctx.pid)
    return 0


if __name__ == '__main__':
    sys.exit(main())
