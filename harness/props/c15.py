"""C15 — slow consumers are dropped after the grace period, recovered ones are not."""
import asyncio

import broker
import common
from props import brokerprops as B

LEVEL = 'proof'
TRUSTED_EXTRA = ['harness/pytrans3.py: fail-closed translator of Server.subscribe/unsubscribe/publish (hpfeeds/broker/server.py) and Connection.is_closing/connection_lost/on_publish/on_subscribe/on_unsubscribe/authenticate/on_auth/on_auth_result/message_received/connection_made (hpfeeds/broker/connection.py) and BaseProtocol.message_received (hpfeeds/asyncio/protocol.py) -> coq/BrokerGen.v (regenerated on every run), with coq/PyBroker.v, its reading of the objects (a Connection = its index; self.server None / not in server.connections = one flag; sets and the subscriber list as lists; which metrics, log calls and attributes are skipped; where the ghost log of accepted actions is appended); each translated method is proved equal to the hand-written model in coq/BrokerGenEq.v and run_src = run in coq/BrokerGenRun.v; hand-written there: the frame loop of process_pending, the object before connection_made, which queued completion an event runs, transport callbacks, the deadline timer; skipped statements (metrics no property names, log, uid/peer/port, socket options, MeteredSocket) are assumed not to raise', 'FunctionalExtensionality.functional_extensionality_dep (Coq standard library) for the *_src_* theorems only']
ASSUMPTIONS = B.ASSUMPTIONS + ['the model counts whole seconds; sub-second behaviour (59.75 s / 60.0 s) is probed on the code only',
                               'the composition "60 ticks after a stall that was not drained" is the chain of C15_stall_starts_full_period, '
                               'C15_one_second and C15_timer_frame; it is not stated as one theorem']
ASPECTS = 'FWB'
RULE = ('stall/drain episodes (pause_writing / resume_writing, also resume+pause within one loop pass) of random lengths on random '
        'subscribers, interleaved with publishes, other traffic, Lost/EOF, in virtual time (1 s ticks: 1, 30, 59, 60, 61); '
        'non-trivial = at least one stall episode and one PUBLISH delivered; compared with the Coq model on aspects %s; oracle: the '
        'harness\'s own clock says when each stalled transport must be closed (start + 60 s, not earlier, not if drained) and '
        'that it is sent OP_ERROR; frame-normalised histories are also judged by harness/judge.py (every publish reaches every other entitled subscriber exactly once while connections are stalled or have been dropped); a directed scenario in which the stalled subscriber goes on sending (valid re-authentication under another identity, (un)subscribes) before its deadline; plus a sub-second probe of the real Connection')
PLAN = [(120, 3000, dict(profile='benign', nconn=3, nops=6), False),
        (50, 1200, dict(profile='benign', nconn=4, nops=8, chunking='frames'), True),
        (60, 1500, dict(profile='mixed', faults=0.02), False)]


def with_stalls(rng, case):
    """sprinkle stall / drain / clock events over a history"""
    ev = []
    conns = []
    for e in case['events']:
        ev.append(e)
        if e[0] == 'C':
            conns.append(e[1])
        if conns and rng.random() < 0.35:
            q = rng.choice(conns)
            ev.append(rng.choice([['PW', q], ['PW', q], ['RW', q], ['RWPW', q], ['T', rng.choice([1, 29, 30, 31, 59, 60, 61])],
                                  ['T', rng.choice([1, 59, 60])], ['T', 30]]))
    for _ in range(rng.randint(1, 4)):
        ev.append(['T', rng.choice([1, 30, 59, 60, 61])])
    case['events'] = ev
    return case


def gen_stall_reauth(rng):
    """directed: a subscriber stalls, and WHILE stalled it goes on sending - a valid re-authentication under another
    identity, (un)subscribes, publishes - then time runs past the deadline of the stall; another subscriber listens"""
    import hpfeeds.protocol as P
    table = broker.DB_TABLES[0]
    nonces = [bytes(rng.randrange(256) for _ in range(4)) for _ in range(3)]
    first, second = rng.choice([('alice', 'bob'), ('bob', 'alice'), ('ali', 'carol'), ('alice', 'carol'), ('bob', 'ali')])

    def auth(q, ident):
        return broker.auth_frame(ident, broker.digest(nonces[q], table[ident][0]))
    ev = [['C', q, broker.jbytes(nonces[q])] for q in range(3)]
    ev.append(['D', 0, broker.jbytes(auth(0, first))])
    for c in table[first][2][:2]:
        ev.append(['D', 0, broker.jbytes(P.msgsubscribe(first, c))])
    ev.append(['D', 1, broker.jbytes(auth(1, 'alice'))])
    ev.append(['D', 1, broker.jbytes(P.msgsubscribe('alice', 'x'))])
    ev.append(['D', 2, broker.jbytes(auth(2, 'bob'))])
    ev.append(['PW', 0])
    k = rng.choice([1, 10, 30, 45, 59])
    ev.append(['T', k])
    todo = [auth(0, second)] if rng.random() < 0.8 else []
    for _ in range(rng.randint(0, 2)):
        c = rng.choice(['x', 'y', 'z'])
        todo.append(rng.choice([P.msgsubscribe(second, c), P.msgunsubscribe(second, c)]))
    for f in todo:
        ev.append(['D', 0, broker.jbytes(f)])
        if rng.random() < 0.3:
            ev.append(['D', 2, broker.jbytes(P.msgpublish('bob', 'x', b'tick'))])
    rest = 60 - k
    if rest > 1 and rng.random() < 0.5:
        a = rng.randrange(1, rest)
        ev += [['T', a], ['D', 2, broker.jbytes(P.msgpublish('bob', 'x', b'tock'))], ['T', rest - a]]
    else:
        ev.append(['T', rest])
    ev += [['D', 2, broker.jbytes(P.msgpublish('bob', 'x', b'after'))], ['T', rng.choice([1, 30, 60])]]
    return dict(name=broker.jbytes(b'hpfeeds'), db=broker.jdb(table), async_=False, events=ev)


def deadline_oracle(case, d):
    start = {}            # q -> virtual time the current stall began
    now = 0
    expected_close = {}   # q -> time
    for k, rec in enumerate(d.trace):
        ev = rec['ev']
        where = 'event %d %r: ' % (k, ev[:2])
        if ev[0] == 'PW' and rec['delivered']:
            start[ev[1]] = now
        elif ev[0] == 'RW' and rec['delivered']:
            start.pop(ev[1], None)
        elif ev[0] == 'RWPW' and rec['delivered']:
            start[ev[1]] = now
        elif ev[0] == 'L' and rec['delivered']:
            pass          # the timer is not cancelled by the loss; closing a lost transport is invisible
        if ev[0] == 'T':
            for sec in range(ev[1]):
                now += 1
                for q, t0 in list(start.items()):
                    if now == t0 + 60:
                        expected_close.setdefault(q, now)
                        del start[q]
        for q, s in rec['snap'].items():
            ca = s.get('closed_at')
            if q in expected_close and not s['closing'] and now >= expected_close[q]:
                return where + 'connection %d has been above the high-water mark for 60 s but was not dropped' % q
        # a close that happens during a clock event must be an expected deadline
        if ev[0] == 'T':
            prev = d.trace[k - 1]['snap'] if k else {}
            for q, s in rec['snap'].items():
                if s['closing'] and not prev.get(q, {}).get('closing', False):
                    if q not in expected_close:
                        return where + 'connection %d was dropped by the clock although it was not stalled for 60 s' % q
                    if s.get('closed_at') is not None and abs(s['closed_at'] - expected_close[q]) > 1e-9:
                        return where + 'connection %d was dropped at t=%s, its deadline was t=%s' % (q, s['closed_at'], expected_close[q])
    return None


def probe_subsecond():
    """real Connection under the virtual loop: closed at exactly +60.0 s, not at +59.75 s; a drained episode is spared"""
    import envshim  # noqa
    from vloop import VLoop
    from hpfeeds.broker.server import Server
    from hpfeeds.broker.connection import Connection
    loop = VLoop()
    asyncio.set_event_loop(loop)
    try:
        srv = Server(auth=broker.FutStore({}, False, loop), name='x')
        c = Connection(srv)
        t = broker.SimTransport(0)
        t.now = loop.time
        loop.call(c.connection_made, t)
        loop.call(c.pause_writing)
        loop.advance(59.75)
        if t.closing:
            return 'stalled connection dropped before the 60 s grace period was over (t=%s)' % t.closed_at
        loop.advance(0.25)
        if not t.closing:
            return 'stalled connection not dropped at the 60 s deadline'
        if abs(t.closed_at - 60.0) > 1e-9:
            return 'stalled connection dropped at t=%s instead of 60.0' % t.closed_at
        if b'\x00' not in bytes(t.out[-60:]) or broker.split_frames(t.out)[0][-1][0] != 0:
            return 'no OP_ERROR sent when the deadline fired'
        c2 = Connection(srv)
        t2 = broker.SimTransport(1)
        t2.now = loop.time
        loop.call(c2.connection_made, t2)
        loop.call(c2.pause_writing)
        loop.advance(59.5)
        loop.call(c2.resume_writing)
        loop.advance(10)
        if t2.closing:
            return 'connection that drained before the deadline was dropped'
        loop.call(c2.pause_writing)
        loop.advance(59.75)
        if t2.closing:
            return 'second stall episode did not get a full new grace period'
        loop.advance(0.25)
        if not t2.closing:
            return 'second stall episode not dropped at its own deadline'
    finally:
        loop.shutdown()
        asyncio.set_event_loop(None)
    return None


def run(ctx, res):
    res.rule = RULE % ASPECTS
    cases = []
    if ctx.scale == 1:
        for case in B.corpus_cases('C15'):
            B.add_case(ctx, res, 'C15', cases, case, False, extra_oracle=deadline_oracle)
        p = probe_subsecond()
        res.evaluations += 1
        res.count('subsecond_probe')
        if p:
            res.failures.append(dict(signature='C15: ' + p, what=p, case=dict(probe='subsecond')))
    for k in range(ctx.n(30, 400)):
        case = gen_stall_reauth(ctx.rng('C15/stall_reauth/%d' % k))
        res.count('stall_reauth')
        B.add_case(ctx, res, 'C15', cases, case, False, extra_oracle=deadline_oracle)
    for pi, (nq, nt, kw, use_judge) in enumerate(PLAN):
        for k in range(ctx.n(nq, nt)):
            rng = ctx.rng('C15/%d/%d' % (pi, k))
            case, scripts = broker.gen_history(rng, **kw)
            case = with_stalls(rng, case)
            B.add_case(ctx, res, 'C15', cases, case, use_judge, extra_oracle=deadline_oracle)
    B.finish(ctx, res, 'C15', ASPECTS, cases)


def replay(ctx, case):
    if case.get('probe'):
        return probe_subsecond()
    return B.replay_case('C15', case, deadline_oracle)
