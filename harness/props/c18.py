"""C18 — reloading the JSON user file is all-or-nothing."""
import json
import os

import common
import stores

LEVEL = 'proof'
TRUSTED_EXTRA = ['harness/pytrans4.py: fail-closed translator of json.Authenticator.load / get_authkey (hpfeeds/broker/auth/json.py), memory.Authenticator.get_authkey, multi.Authenticator.get_authkey and env.py (get_key, get_list, get_authkey; str.upper is a parameter assumed to upper-case the four field names) -> coq/StoreGen.v (regenerated on every run), with coq/PyStore.v, its reading of the fragment (json.load / open = the argument parsed; dict/list/items/in/subscript on parsed JSON values; logger calls skipped); the translated methods are proved equal to Stores.load / Stores.json_get in coq/StoreGenEq.v (no axioms); sqlite.py get_authkey is matched against its shape (the exact query text with a bound parameter, fetchone, the column order of the create-table statement) and emitted as a first-match lookup: what SQLite does with that query is assumed and exercised by the correspondence check']
ASSUMPTIONS = ['json.load is modelled: the model is given the document json.load returns (or None when open/json.load raises)',
               'the inotify watcher only decides WHEN load() runs; load() itself is what is modelled and driven']
IMPORTS = 'Bytes Run Stores StoresRun'


def gen_table(rng, n=None):
    idents = ['alice', 'bob', "o'brien", 'ünï', 'a"b', '', 'x' * 40, '../etc', 'DROP TABLE']
    t = {}
    for i in rng.sample(idents, n if n is not None else rng.randint(0, 4)):
        t[i] = dict(owner=rng.choice(['o', 'ops', '']), secret=rng.choice(['s3', 'geheim', 'pässword']),
                    pubchans=rng.sample(['a', 'b', 'c.d', ''], rng.randint(0, 3)),
                    subchans=rng.sample(['a', 'b', 'z'], rng.randint(0, 3)))
        if rng.random() < 0.2:
            t[i]['extra'] = rng.choice([1, None, [1, 2], {'k': 'v'}])
    return t


def mutate(rng, t):
    """type-mutated / incomplete tables"""
    t = json.loads(json.dumps(t))
    if not t:
        return rng.choice([[], 'str', 5, None, [{}], {'a': 1}, {'a': []}, {'a': {}}])
    victim = rng.choice(list(t))
    k = rng.choice(['pub-type', 'sub-type', 'drop-key', 'entry-type', 'root-type', 'both'])
    bad = rng.choice(['chan', 7, None, {'c': True}, True, 1.5])
    if k == 'pub-type':
        t[victim]['pubchans'] = bad
    elif k == 'sub-type':
        t[victim]['subchans'] = bad
    elif k == 'both':
        t[victim]['subchans'] = bad
        t[victim]['pubchans'] = bad
    elif k == 'drop-key':
        del t[victim][rng.choice(['owner', 'secret', 'pubchans', 'subchans'])]
    elif k == 'entry-type':
        t[victim] = rng.choice([[], 'x', 3, None, True])
    else:
        return rng.choice([[t], json.dumps(t), 5, None])
    return t


def gen_sequence(rng):
    seq = []
    for _ in range(rng.randint(2, 7)):
        k = rng.random()
        if k < 0.35:
            seq.append(json.dumps(gen_table(rng), indent=rng.choice([None, 1])))
        elif k < 0.60:
            seq.append(json.dumps(mutate(rng, gen_table(rng, rng.randint(1, 3)))))
        elif k < 0.78:
            full = json.dumps(gen_table(rng, rng.randint(1, 3)), indent=1)
            seq.append(full[:rng.randrange(0, len(full))])          # half-written file
        elif k < 0.86:
            seq.append(rng.choice(['', 'not json', '\x00\x01', '{"a": ', '[1,2', 'nul', '{"a": {"owner": "o"}} trailing']))
        elif k < 0.92:
            seq.append(None)                                         # file missing
        else:
            seq.append(rng.choice(['{}', '[]', '"x"', '1', 'null', 'true']))
    return seq


def run(ctx, res):
    res.rule = ('sequences of 2-7 reloads of the real json.Authenticator on a real file: valid tables (0-4 users, odd idents, extra '
                'keys), every kind of type mutation of one entry (pubchans/subchans not a list, missing key, entry or root not a '
                'mapping), half-written files (random and — once per run — EVERY truncation prefix of a valid file), non-JSON bytes, '
                'missing file; after each load() the database is compared with the Coq model and with "new mapping if valid else '
                'the previous database"; non-trivial = the sequence contains a valid and an invalid file; distinct by contents')
    path = os.path.join(ctx.workdir, 'users.json')
    cases = []
    seqs = []
    if ctx.scale == 1:
        rng = ctx.rng('prefixes')
        base = gen_table(rng, 2)
        full = json.dumps(base, indent=1)
        # every truncation prefix, each loaded after a valid table is in place
        for cut in range(len(full) + 1):
            seqs.append([json.dumps(gen_table(rng, 1)), full[:cut]])
    for k in range(ctx.n(250, 5000)):
        seqs.append(gen_sequence(ctx.rng('seq%d' % k)))
    for seq in seqs:
        obs, dbs, a = stores.drive_loads(path, seq)
        orc = stores.oracle_c18(seq, dbs)
        kinds = [(stores.parse_like_the_store(t) is not None and stores.valid_table(stores.parse_like_the_store(t))) for t in seq]
        nt = any(kinds) and not all(kinds)
        for t, ok in zip(seq, kinds):
            res.count('file_valid' if ok else ('file_missing' if t is None else 'file_invalid'))
        cases.append(dict(input=dict(contents=seq), expr=stores.expr_loads(seq), impl=obs, oracle=orc,
                          fsig=('C18: ' + orc.split(': ', 1)[-1]) if orc else None,
                          sig=json.dumps(seq) if nt else None))
    common.correspond(ctx, res, cases, IMPORTS, compare=lambda c, m: None if m == c['impl'] else 'database fingerprints differ: impl %r model %r' % (c['impl'], m),
                      sample=lambda c: dict(contents=[(t[:80] if t is not None else None) for t in c['input']['contents']], db_fingerprints=c['impl']))


def replay(ctx, case):
    path = os.path.join(ctx.workdir, 'users.json')
    obs, dbs, a = stores.drive_loads(path, case['contents'])
    return stores.oracle_c18(case['contents'], dbs)
