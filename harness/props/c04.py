"""C04 — see DESIGN.md §6 and coq/Properties/C04.v"""
from props import brokerprops as B

LEVEL = 'proof'
TRUSTED_EXTRA = ['harness/pytrans3.py: fail-closed translator of Server.subscribe/unsubscribe/publish (hpfeeds/broker/server.py) and Connection.is_closing/connection_lost/on_publish/on_subscribe/on_unsubscribe/authenticate/on_auth/on_auth_result/message_received/connection_made (hpfeeds/broker/connection.py) and BaseProtocol.message_received (hpfeeds/asyncio/protocol.py) -> coq/BrokerGen.v (regenerated on every run), with coq/PyBroker.v, its reading of the objects (a Connection = its index; self.server None / not in server.connections = one flag; sets and the subscriber list as lists; which metrics, log calls and attributes are skipped; where the ghost log of accepted actions is appended); each translated method is proved equal to the hand-written model in coq/BrokerGenEq.v and run_src = run in coq/BrokerGenRun.v; hand-written there: the frame loop of process_pending, the object before connection_made, which queued completion an event runs, transport callbacks, the deadline timer; skipped statements (metrics no property names, log, uid/peer/port, socket options, MeteredSocket) are assumed not to raise', 'FunctionalExtensionality.functional_extensionality_dep (Coq standard library) for the *_src_* theorems only']
ASSUMPTIONS = B.ASSUMPTIONS
ASPECTS = 'DF'
RULE = ('random histories of 2-5 connections over two permission tables: per-connection scripts of AUTH (valid and ten invalid '
        'digest variants), SUBSCRIBE/UNSUBSCRIBE/PUBLISH (mostly permitted, some forbidden or spoofed), malformed frames; '
        'streams cut at random (whole, per frame, per byte, inside headers, pipelined bursts of 1-4 whole frames); some plans add valid re-authentication under another identity and a directed scenario (subscribe, re-authenticate, leave, then others publish on every channel ever held); a directed scenario in which the (synchronous) credential store changes between callbacks - a secret is rotated, channel lists change, an entry is removed - and fresh connections present the old and the new secret while earlier ones go on under the row they authenticated with; events interleaved at random with Lost, EOF, '
        'pause/resume-writing and clock ticks; non-trivial = at least one PUBLISH was delivered; distinct by event list. '
        'Compared with the Coq model on aspects %s; frame-normalised synchronous-store histories (one frame per read, or a read of several permitted frames) are '
        'also judged by harness/judge.py')
PLAN = [(30, 400, dict(scenario='store_change'), False), (40, 600, dict(scenario='reauth_stale'), True), (40, 800, dict(profile='mixed', chunking='bursts', reauth=0.06, faults=0.06), True), (100, 2500, dict(profile='mixed', faults=0.08), False), (120, 2500, dict(profile='mixed', chunking='frames', faults=0.06), True), (40, 1000, dict(profile='hostile', chunking='frames'), True)]


def run(ctx, res):
    res.rule = RULE % ASPECTS
    B.run(ctx, res, 'C04', ASPECTS, PLAN)


def replay(ctx, case):
    return B.replay_case('C04', case)
