"""C11 — clients answer each connection's own challenge first, then resubscribe."""
from props import clientprops as cp

LEVEL = cp.LEVEL
TRUSTED_EXTRA = ['harness/pytrans7.py: ClientSession.subscribe / unsubscribe / publish and Protocol.on_publish of hpfeeds/blocking/session.py -> coq/BlkGen.v, proved to be the BApp steps / HPublish effect of coq/BlkSession.v in coq/BlkGenEq.v (no axioms)', 'harness/pytrans6.py: fail-closed translator of ClientSession.subscribe / unsubscribe / publish and _Protocol.on_publish (hpfeeds/asyncio/client.py) and the same six methods of hpfeeds/twisted/service.py (ClientSessionService, _Protocol) -> coq/AioGen.v (regenerated on every run), state transformers over the model state of coq/AioSession.v (self.subscriptions = wanted, self.protocol = cur, protocol.subscribe/unsubscribe/publish = transport.write(msgX) on that connection, read_queue.put_nowait = append); proved equal to do_sub / do_unsub / do_pub and the OP_PUBLISH branch of on_frame in coq/AioGenEq.v (no axioms); the coroutines, the ClientService / DeferredQueue of Twisted and the blocking clients are hand-written or assumed and tied by the correspondence check only']
ASSUMPTIONS = cp.ASSUMPTIONS


def run(ctx, res):
    cp.run('C11', ctx, res,
           'asyncio / Twisted sessions: application calls (subscribe, unsubscribe, publish, read, close) interleaved with refused and '
           'accepted connections, OP_INFO in any chunking (or missing, or preceded by junk), traffic and loss at any point, 1-3 '
           'reconnections; blocking Client: scripted connect/recv/sendall outcomes. Compared with the model: the bytes written per '
           'connection, the current connection and the wanted set after every event. Oracle: nothing written before OP_INFO, first '
           'frame = OP_AUTH(sha1(this connection\'s nonce + secret), own ident), SUBSCRIBE/UNSUBSCRIBE since OP_AUTH = what the '
           'application wants. Non-trivial = data reached a connection; distinct by observation sequence')


def replay(ctx, case):
    return cp.replay('C11', ctx, case)
