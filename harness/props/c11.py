"""C11 — clients answer each connection's own challenge first, then resubscribe."""
from props import clientprops as cp

LEVEL = cp.LEVEL
ASSUMPTIONS = cp.ASSUMPTIONS


def run(ctx, res):
    cp.run('C11', ctx, res,
           'asyncio / Twisted sessions: application calls (subscribe, unsubscribe, publish, read, close) interleaved with refused and '
           'accepted connections, OP_INFO in any chunking (or missing, or preceded by junk), traffic and loss at any point, 1-3 '
           'reconnections; blocking Client: scripted connect/recv/sendall outcomes. Compared with the model: the bytes written per '
           'connection, the current connection and the wanted set after every event. Oracle: nothing written before OP_INFO, first '
           'frame = OP_AUTH(sha1(this connection\'s nonce + secret), own ident), SUBSCRIBE/UNSUBSCRIBE since OP_AUTH = what the '
           'application wants. Non-trivial = data reached a connection; distinct by observation sequence')


def replay(ctx, case):
    return cp.replay('C11', ctx, case)
