"""C01 — see DESIGN.md §6 and coq/Properties/C01.v"""
from props import brokerprops as B

LEVEL = 'proof'
ASSUMPTIONS = B.ASSUMPTIONS
ASPECTS = 'DF'
RULE = ('random histories of 2-5 connections over two permission tables: per-connection scripts of AUTH (valid and ten invalid '
        'digest variants), SUBSCRIBE/UNSUBSCRIBE/PUBLISH (mostly permitted, some forbidden or spoofed), malformed frames; '
        'streams cut at random (whole, per frame, per byte, inside headers); events interleaved at random with Lost, EOF, '
        'pause/resume-writing and clock ticks; non-trivial = at least one PUBLISH was delivered; distinct by event list. '
        'Compared with the Coq model on aspects %s; frame-normalised synchronous-store histories are also judged by '
        'harness/judge.py')
PLAN = [(90, 2500, dict(profile='mixed'), False), (60, 1500, dict(profile='benign', nconn=4, nops=10), False), (90, 2500, dict(profile='mixed', chunking='frames'), True), (40, 800, dict(profile='mixed', async_=True), False)]


def run(ctx, res):
    res.rule = RULE % ASPECTS
    B.run(ctx, res, 'C01', ASPECTS, PLAN)


def replay(ctx, case):
    return B.replay_case('C01', case)
