"""C01 — see DESIGN.md §6 and coq/Properties/C01.v"""
from props import brokerprops as B

LEVEL = 'proof'
TRUSTED_EXTRA = ['harness/pytrans3.py: fail-closed translator of Server.subscribe/unsubscribe/publish (hpfeeds/broker/server.py) and Connection.is_closing/connection_lost/on_publish/on_subscribe/on_unsubscribe/authenticate/on_auth/on_auth_result/message_received/connection_made (hpfeeds/broker/connection.py) and BaseProtocol.message_received (hpfeeds/asyncio/protocol.py) -> coq/BrokerGen.v (regenerated on every run), with coq/PyBroker.v, its reading of the objects (a Connection = its index; self.server None / not in server.connections = one flag; sets and the subscriber list as lists; which metrics, log calls and attributes are skipped; where the ghost log of accepted actions is appended); each translated method is proved equal to the hand-written model in coq/BrokerGenEq.v and run_src = run in coq/BrokerGenRun.v; hand-written there: the frame loop of process_pending, the object before connection_made, which queued completion an event runs, transport callbacks, the deadline timer; skipped statements (metrics no property names, log, uid/peer/port, socket options, MeteredSocket) are assumed not to raise', 'FunctionalExtensionality.functional_extensionality_dep (Coq standard library) for the *_src_* theorems only']
ASSUMPTIONS = B.ASSUMPTIONS
ASPECTS = 'DF'
RULE = ('random histories of 2-5 connections over two permission tables: per-connection scripts of AUTH (valid and ten invalid '
        'digest variants), SUBSCRIBE/UNSUBSCRIBE/PUBLISH (mostly permitted, some forbidden or spoofed), malformed frames; '
        'streams cut at random (whole, per frame, per byte, inside headers, pipelined bursts of 1-4 whole frames); some plans add valid re-authentication under another identity and a directed scenario (subscribe, re-authenticate, leave, then others publish on every channel ever held); events interleaved at random with Lost, EOF, '
        'pause/resume-writing and clock ticks; non-trivial = at least one PUBLISH was delivered; distinct by event list. '
        'Compared with the Coq model on aspects %s; frame-normalised synchronous-store histories (one frame per read, or a read of several permitted frames) are '
        'also judged by harness/judge.py')
PLAN = [(60, 1500, dict(profile='benign', chunking='bursts', reauth=0.06, nops=10), True), (40, 600, dict(scenario='reauth_leave'), True), (90, 2500, dict(profile='mixed'), False), (60, 1500, dict(profile='benign', nconn=4, nops=10), False), (90, 2500, dict(profile='mixed', chunking='frames'), True), (40, 800, dict(profile='mixed', async_=True), False)]


def run(ctx, res):
    res.rule = RULE % ASPECTS
    B.run(ctx, res, 'C01', ASPECTS, PLAN)
    if ctx.tier == 'thorough' and ctx.scale == 1 and not ctx.impl_only:
        # cross-check of the simulated transport: the same well-behaved histories through a real asyncio loop, a real TCP
        # server on 127.0.0.1 and real client sockets must make the broker send the same frames to every connection
        import broker
        import realloop
        n = diff = 0
        for k in range(60):
            rng = ctx.rng('realloop/%d' % k)
            case, _ = broker.gen_history(rng, profile='benign', chunking=rng.choice(['frames', 'bursts', 'rand']), nops=8, reauth=0.05)
            n += 1
            r = realloop.compare(case)
            if r:
                diff += 1
                res.disagreements.append(dict(case=case, where='real asyncio loop vs simulated transport: ' + r))
        res.extra['real_loop_replay'] = dict(histories=n, differences=diff,
                                             what='benign histories replayed over real asyncio TCP transports (harness/realloop.py) and '
                                                  'compared frame by frame with the simulated-transport driver')
        res.rule += '; thorough: 60 well-behaved histories are also replayed through a real asyncio loop over loopback TCP'


def replay(ctx, case):
    return B.replay_case('C01', case)
