"""C06 — stream decoding is independent of how the bytes are chunked."""
import common
import wire

LEVEL = 'proof'
TRUSTED_EXTRA = ['harness/pytrans.py: fail-closed translator hpfeeds/protocol.py -> coq/ProtoGen.v (regenerated on every run) and coq/PyPrim.v, its reading of the Python fragment used there (dynamic values, slices, struct.pack/unpack for !B and !iB, len of a str = code points, exceptions); the translated text is proved equal to the hand-written Wire.v in coq/ProtoGenEq.v, and the *_src_* theorems are about the translated text']
ASSUMPTIONS = ['bytearray.extend / slicing / del behave as list append / firstn / skipn']


def gen_cases(ctx):
    rng = ctx.rng('c06')
    out = []
    # exhaustive: every cut pattern of a short stream (2^(n-1) patterns)
    nmax = 9 if ctx.tier == 'quick' else 12
    if ctx.scale == 1:
        small = [bytes(wire.build(4, [b'', b''])) + bytes(wire.build(0, [b'']))[:rng.randint(1, 3)],   # 6-byte frame + tail
                 bytes(wire.build(0, [b'ab'])) + bytes(wire.build(0, [b'']))[: nmax - 7]]
        for data in small:
            data = data[:nmax]
            frames, tail = split_frames(data)
            for chunks in wire.all_cuts(data):
                out.append((frames, tail, chunks, 'exhaustive'))
    for _ in range(ctx.n(300, 6000)):
        k = rng.random()
        nf = rng.choice([1, 1, 2, 3, 4, 6]) if k > 0.05 else 0
        big = (rng.random() < 0.02)
        frames = [wire.gen_frame(rng, big and i == 0)[2] for i in range(nf)]
        tail = b''
        if rng.random() < 0.5:
            t = wire.gen_frame(rng)[2]
            tail = t[:rng.randrange(0, len(t))]
        data = b''.join(frames) + tail
        chunks = wire.cut(rng, data)
        out.append((frames, tail, chunks, 'sampled'))
    # transport-sized reads: small frames between large ones (run-length payloads of 10-300 KB), cut at the sizes real
    # transports deliver (16 KiB blocking recv, 64 KiB asyncio / Twisted reads, and odd sizes), so that a chunk leaves
    # tens of kilobytes of unconsumed input behind frames already yielded
    for _ in range(ctx.n(30, 300)):
        frames = []
        for i in range(rng.randint(3, 9)):
            if rng.random() < 0.45:
                n = rng.choice([10000, 16384, 20000, 40000, 65536, 70000, 150000, 300000]) + rng.randint(-3, 3)
                b = rng.randrange(32, 127)
                frames.append(bytes(wire.build(3, [b'id', b'ch', bytes([b]) * n]) if rng.random() < 0.7
                                    else wire.build(0, [bytes([b]) * n])))
            else:
                frames.append(wire.gen_frame(rng)[2])
        tail = b''
        if rng.random() < 0.6:
            t = bytes(wire.build(3, [b'i', b'c', bytes([5]) * rng.choice([30000, 90000])]))
            tail = t[:rng.randrange(1, len(t))]
        data = b''.join(frames) + tail
        size = rng.choice([16384, 16384, 32768, 50000, 65536, 65536, 100000, 262144])
        chunks = [data[i:i + size] for i in range(0, len(data), size)]
        out.append((frames, tail, chunks, 'read-sized'))
    # very many tiny frames completed by ONE read (a peer that pipelines hundreds of requests; a 16 KiB read of 6-20 byte
    # frames): every one of them is yielded by the iteration that follows the feed
    for _ in range(ctx.n(6, 60)):
        n = rng.choice([257, 300, 600, 1000, 1500])
        frames = []
        for i in range(n):
            frames.append(bytes(wire.build(rng.choice([4, 5]), [b'', rng.choice([b'', b'c', b'ch'])])) if rng.random() < 0.8
                          else bytes(wire.build(3, [b'i', b'c', bytes([i % 251])])))
        data = b''.join(frames)
        size = rng.choice([len(data), len(data), 16384, 4096])
        chunks = [data[i:i + size] for i in range(0, len(data), size)]
        out.append((frames, b'', chunks, 'many-small'))
    if ctx.scale == 1:
        # one multi-MiB stream (sampled cuts), run-length payloads
        fr = [bytes(wire.build(3, [b'id', b'ch', bytes([7]) * (wire.limit(3) - 11)])),
              bytes(wire.build(3, [b'id', b'ch', bytes([9]) * 500000]))]
        data = b''.join(fr)
        out.append((fr, b'', wire.cut(rng, data, 'rand'), 'multi-MiB'))
    return out


def split_frames(data):
    frames, off = [], 0
    while len(data) - off >= 5:
        ml = int.from_bytes(data[off:off + 4], 'big')
        if len(data) - off < ml:
            break
        frames.append(data[off:off + ml])
        off += ml
    return frames, data[off:]


def run(ctx, res):
    if ctx.scale == 1:
        res.notes.append('probe (implementation only): well-formed streams of 2-3.5 MB fed as 1-3 chunks (reads larger than any frame)')
        for k in range(ctx.n(4, 40)):
            bad = wire.giant_chunk_probe(ctx.rng('giant%d' % k))
            res.evaluations += 1
            res.count('giant_chunk_probe')
            if bad:
                res.failures.append(dict(signature='C06: giant probe', what=bad, case=dict(probe='giant', k=k)))
                break
    res.rule = ('well-formed frame sequences (0..6 frames + optional incomplete tail) x cut patterns: all 2^(n-1) for two '
                'short streams, random cuts (single bytes, inside the header, several frames per chunk, empty reads) '
                'otherwise; non-trivial = at least one frame and more than one chunk; distinct by (stream, cut points)')
    cases = []
    for frames, tail, chunks, kind in gen_cases(ctx):
        obs, recs = wire.drive_unpack(chunks)
        orc = wire.oracle_c06(frames, tail, chunks, recs)
        nt = len(frames) >= 1 and len(chunks) > 1
        cases.append(dict(input=dict(chunks=[common.jbytes(c) for c in chunks], frames=len(frames), tail=len(tail), kind=kind),
                          expr=wire.expr_unpack(chunks), impl=obs, oracle=orc,
                          fsig=('C06: ' + orc.split(':', 1)[-1].strip()) if orc else None,
                          sig=(b''.join(chunks), tuple(len(c) for c in chunks)) if nt else None))
        res.count(kind)
        res.count('chunks=%s' % (len(chunks) if len(chunks) < 5 else '5+'))
        res.count('frames=%d' % len(frames))
    common.correspond(ctx, res, cases, 'Bytes Wire Run')


def replay(ctx, case):
    if case.get('probe') == 'giant':
        return wire.giant_chunk_probe(ctx.rng('giant%d' % case['k']))
    chunks = [common.unjbytes(c) for c in case['chunks']]
    data = b''.join(chunks)
    frames, tail = split_frames(data)
    obs, recs = wire.drive_unpack(chunks)
    return wire.oracle_c06(frames, tail, chunks, recs)
