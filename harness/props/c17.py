"""C17 — credential stores return exactly what was configured, for exactly those idents."""
import json
import os

import common
import stores

LEVEL = 'proof'
TRUSTED_EXTRA = ['harness/pytrans4.py: fail-closed translator of json.Authenticator.load / get_authkey (hpfeeds/broker/auth/json.py), memory.Authenticator.get_authkey, multi.Authenticator.get_authkey and env.py (get_key, get_list, get_authkey; str.upper is a parameter assumed to upper-case the four field names) -> coq/StoreGen.v (regenerated on every run), with coq/PyStore.v, its reading of the fragment (json.load / open = the argument parsed; dict/list/items/in/subscript on parsed JSON values; logger calls skipped); the translated methods are proved equal to Stores.load / Stores.json_get in coq/StoreGenEq.v (no axioms); sqlite.py get_authkey is matched against its shape (the exact query text with a bound parameter, fetchone, the column order of the create-table statement) and emitted as a first-match lookup: what SQLite does with that query is assumed and exercised by the correspondence check']
ASSUMPTIONS = ['sqlite3, json, os.environ and str.upper are libraries: modelled (rows in rowid order, parsed documents, a finite '
               'map, a function parameter), not verified; the real libraries run in the correspondence check',
               'identities that cannot be environment variable names (empty, containing = or NUL) are not configured in the env store']
IMPORTS = 'Bytes Run Stores StoresRun'

IDENTS = ['alice', 'bob', 'Bob', 'BOB', "o'brien", 'a"b', "x'; DROP TABLE authkeys; --", 'sensor_1', 'sensorX1', 'a%', '%', '_', 'ünï',
          'ß', 'ss', 'straße', '../../etc/passwd', 'a,b', 'a b', 'bob_owner', 'bob_secret', 'x_y_z', '日本', 'ident']
CHANS = ['chan1', 'x', 'y.z', 'ü', 'a b', "q'", 'c-d', ' lead', 'trail ', '\u2003wide', 'tab\t', ' ', 'X', 'x ']


def gen_users(rng, n=None):
    users = {}
    for i in rng.sample(IDENTS, n if n is not None else rng.randint(0, 5)):
        c = dict(secret=rng.choice(['s', 'sécret', 'pa ss', "q'uote", '12345', 's', '']), owner=rng.choice(['o', 'own er', 'ö']),
                 pubchans=rng.sample(CHANS, rng.randint(0, 3)), subchans=rng.sample(CHANS, rng.randint(0, 3)))
        r = rng.random()
        if r < 0.2:
            c['pub_set'] = False
        if 0.1 < r < 0.3:
            c['sub_set'] = False
        if r > 0.8:
            c['owner_set'] = False
        users[i] = c
    return users


def variants(rng, users):
    out = list(users)
    for i in list(users)[:3]:
        out += [i.upper(), i.lower(), i[:-1], i + ' ', i + '_', i.replace('_', 'X'), i.swapcase()]
    out += rng.sample(IDENTS, 4) + ['', '%', '_', "' OR '1'='1", 'nobody']
    seen, res = set(), []
    for x in out:
        if x not in seen:
            seen.add(x)
            res.append(x)
    return res


def env_expected(env, ident):
    if not stores.env_ok(ident):
        return 'skip'
    up = ident.upper()
    s = env.get('HPFEEDS_%s_SECRET' % up)
    if not s:
        return None
    return dict(secret=s, owner=env.get('HPFEEDS_%s_OWNER' % up, ident),
                pubchans=[x for x in env.get('HPFEEDS_%s_PUBCHANS' % up, '').split(',') if x],
                subchans=[x for x in env.get('HPFEEDS_%s_SUBCHANS' % up, '').split(',') if x])


def plain(c):
    return None if c is None else dict(secret=c['secret'], owner=c['owner'], pubchans=list(c['pubchans']), subchans=list(c['subchans']))


def norm(r):
    return None if not r else dict(secret=r['secret'], owner=r['owner'], pubchans=list(r['pubchans']), subchans=list(r['subchans']))


def run(ctx, res):
    res.rule = ('user tables of 0-5 identities drawn from idents with quotes, SQL, LIKE wildcards, separators, path characters, '
                'case variants, non-ASCII case pairs (ß/ss) and channel lists incl. empty and missing ones, through the five REAL '
                'stores (sqlite file, JSON file, process environment, dict, stacked in random orders; JSON user files that held another table before and were reloaded); lookups = configured idents + '
                'case/prefix/suffix/wildcard variants + unconfigured strings; each answer compared with the Coq model and with the '
                'configuration itself; non-trivial = a store with at least one identity; distinct by (store kind, table, lookups)')
    cases = []
    for k in range(ctx.n(140, 3000)):
        rng = ctx.rng('c17/%d' % k)
        users = gen_users(rng)
        lookups = variants(rng, users)
        kind = rng.choice(['memory', 'sqlite', 'json', 'env', 'multi', 'multi'])
        sp = os.path.join(ctx.workdir, 'db%d.sqlite' % k)
        jp = os.path.join(ctx.workdir, 'u%d.json' % k)
        befores = {}
        if kind == 'memory':
            users2 = dict(users)
            if rng.random() < 0.3:
                users2['ghost'] = None
            b = stores.build_memory(users2)
            members = [('memory', users2, b)]
        elif kind == 'sqlite':
            b = stores.build_sqlite(users, sp)
            members = [('sqlite', users, b)]
        elif kind == 'json':
            before = None
            if rng.random() < 0.5:
                # the user file held another table before and was reloaded: removed identities must be gone
                before = gen_users(rng, rng.randint(1, 4))
                lookups = lookups + [x for x in before if x not in lookups]
            befores['0'] = before
            b = stores.build_json(users, jp, before)
            members = [('json', users, b)]
        elif kind == 'env':
            b = stores.build_env(users, lookups)
            members = [('env', users, b)]
        else:
            members = []
            for j in range(rng.randint(2, 3)):
                mk = rng.choice(['memory', 'sqlite', 'json', 'env'])
                if mk == 'env' and any(x[0] == 'env' for x in members):
                    mk = 'memory'        # one process environment: at most one env member per stack
                mu = gen_users(rng, rng.randint(0, 3))
                lookups = lookups + [x for x in mu if x not in lookups]
                if mk == 'memory':
                    mb = stores.build_memory(mu)
                elif mk == 'sqlite':
                    mb = stores.build_sqlite(mu, sp + str(j))
                elif mk == 'json':
                    before = None
                    if rng.random() < 0.4:
                        before = gen_users(rng, rng.randint(1, 3))
                        lookups = lookups + [x for x in before if x not in lookups]
                    befores[str(j)] = before
                    mb = stores.build_json(mu, jp + str(j), before)
                else:
                    mb = stores.build_env(mu, lookups)
                members.append((mk, mu, mb))
            # the env member needs the upper-case of every lookup string
            members = [(mk, mu, (stores.build_env(mu, lookups) if mk == 'env' else mb)) for mk, mu, mb in members]
            b = stores.build_multi([mb for _, _, mb in members])
        try:
            fps, raw = stores.lookup_all(b, lookups)
        finally:
            if b.cleanup:
                b.cleanup()
        # oracle: the configuration itself
        orc = None
        for ident, r in zip(lookups, raw):
            want = None
            skip = False
            for mk, mu, mb in members:
                if mk == 'env':
                    w = env_expected(mb.env, ident)
                    if w == 'skip':
                        w = None
                else:
                    w = plain(mu.get(ident))
                if w:
                    want = w
                    break
            if norm(r) != want and not skip:
                orc = '%s store: lookup %r answered %r, configured %r' % (kind, ident, norm(r), want)
                break
        res.count('store:' + kind)
        res.count('lookups', len(lookups))
        res.count('hits', sum(1 for r in raw if r))
        cases.append(dict(input=dict(kind=kind, members=[(mk, mu) for mk, mu, _ in members], lookups=lookups, befores=befores),
                          expr='run_store (%s) [%s]' % (b.coq, '; '.join(common.coq_bytes(stores.u8(i)) for i in lookups)),
                          impl=fps, oracle=orc, fsig=('C17: %s store answers differently from its configuration' % kind) if orc else None,
                          sig=json.dumps([kind, [(mk, sorted(mu)) for mk, mu, _ in members], lookups]) if any(mu for _, mu, _ in members) else None))
    common.correspond(ctx, res, cases, IMPORTS,
                      compare=lambda c, m: None if m == c['impl'] else 'answers differ (fingerprints per lookup): impl %r model %r' % (c['impl'], m),
                      sample=lambda c: dict(kind=c['input']['kind'], identities=[sorted(mu) for _, mu in c['input']['members']],
                                            lookups=c['input']['lookups'][:8], oracle=c['oracle']))


def replay(ctx, case):
    kind = case['kind']
    lookups = case['lookups']
    built = []
    for j, (mk, mu) in enumerate(case['members']):
        if mk == 'memory':
            built.append((mk, mu, stores.build_memory(mu)))
        elif mk == 'sqlite':
            built.append((mk, mu, stores.build_sqlite(mu, os.path.join(ctx.workdir, 'r%d.sqlite' % j))))
        elif mk == 'json':
            built.append((mk, mu, stores.build_json(mu, os.path.join(ctx.workdir, 'r%d.json' % j), (case.get('befores') or {}).get(str(j)))))
        else:
            built.append((mk, mu, stores.build_env(mu, lookups)))
    b = built[0][2] if kind != 'multi' else stores.build_multi([x for _, _, x in built])
    fps, raw = stores.lookup_all(b, lookups)
    for ident, r in zip(lookups, raw):
        want = None
        for mk, mu, mb in built:
            w = env_expected(mb.env, ident) if mk == 'env' else plain(mu.get(ident))
            if w == 'skip':
                w = None
            if w:
                want = w
                break
        if norm(r) != want:
            return '%s store: lookup %r answered %r, configured %r' % (kind, ident, norm(r), want)
    return None
