"""C08 — see DESIGN.md §6 and coq/Properties/C08.v"""
from props import brokerprops as B

LEVEL = 'proof'
ASSUMPTIONS = B.ASSUMPTIONS
ASPECTS = 'DR'
RULE = ('random histories of 2-5 connections over two permission tables: per-connection scripts of AUTH (valid and ten invalid '
        'digest variants), SUBSCRIBE/UNSUBSCRIBE/PUBLISH (mostly permitted, some forbidden or spoofed), malformed frames; '
        'streams cut at random (whole, per frame, per byte, inside headers, pipelined bursts of 1-4 whole frames); some plans add valid re-authentication under another identity and a directed scenario (subscribe, re-authenticate under an identity with other permissions, then either leave or stay and unsubscribe channels the new identity could not subscribe to; then others publish on every channel ever held); events interleaved at random with Lost, EOF, '
        'pause/resume-writing and clock ticks; non-trivial = at least one PUBLISH was delivered; distinct by event list. '
        'Compared with the Coq model on aspects %s; frame-normalised synchronous-store histories (one frame per read, or a read of several permitted frames) are '
        'also judged by harness/judge.py')
PLAN = [(40, 600, dict(scenario='reauth_leave'), True), (80, 1500, dict(profile='benign', chunking='bursts', nops=12), True), (30, 400, dict(profile='mixed', chunking='bursts', reauth=0.06, nops=10), True), (100, 2500, dict(profile='mixed', nops=12), False), (120, 2500, dict(profile='benign', chunking='frames', nops=12), True), (50, 1000, dict(profile='mixed', chunking='frames', nops=8), True)]


def run(ctx, res):
    res.rule = RULE % ASPECTS
    B.run(ctx, res, 'C08', ASPECTS, PLAN)


def replay(ctx, case):
    return B.replay_case('C08', case)
