"""Shared machinery of the broker property checks (C01-C04, C08-C10, C14, C15, C19)."""
import hashlib
import json

import common
import broker
import judge as J

IMPORTS = 'Bytes Wire Run Broker BrokerRun'
ASSUMPTIONS = [
    'asyncio delivers callbacks one at a time (single-threaded loop); the transport contract (no data_received while '
    'closing/paused/lost, writes accepted after close() until the loss is reported, dropped after an abort) is the one '
    'encoded in Broker.step and in harness/broker.py SimTransport',
    'OP_ERROR texts, log output and metrics not named by a property are not modelled',
    'a credential store answers one connection\'s lookups in the order they were issued',
]


def summarize(case):
    ev = case['events']
    kinds = {}
    for e in ev:
        kinds[e[0]] = kinds.get(e[0], 0) + 1
    return dict(async_store=case.get('async_'), identities=len(case['db']), events=len(ev), kinds=kinds,
                first_events=[[e[0], e[1]] + ([common.unjbytes(e[2]).hex()[:60]] if e[0] in 'CD' else e[2:3]) for e in ev[:8]])


def case_sig(case):
    return hashlib.sha1(json.dumps(case['events'], sort_keys=True).encode()).hexdigest()[:16]


def corpus_cases(pid):
    """minimised earlier failures and witnesses of known findings: always run first"""
    import glob
    import os
    out = []
    for path in sorted(glob.glob(os.path.join(common.VERIF, 'corpus', pid, '*.json'))):
        c = json.load(open(path))
        out.append(c['case'] if 'case' in c and 'events' not in c else c)
    return out


def run(ctx, res, pid, aspects, plan, oracle_from_problems=('C10',), extra_oracle=None):
    """plan: list of (count_quick, count_thorough, kwargs for broker.gen_history, judge?)"""
    cases = []
    if ctx.scale == 1:
        for case in corpus_cases(pid):
            res.count('corpus')
            add_case(ctx, res, pid, cases, case, not case.get('async_'), oracle_from_problems, extra_oracle)
    for pi, (nq, nt, kw, use_judge) in enumerate(plan):
        for k in range(ctx.n(nq, nt)):
            rng = ctx.rng('%s/%d/%d' % (pid, pi, k))
            case, scripts = broker.gen_history(rng, **kw)
            case['_roles'] = {str(sc.q): sc.role for sc in scripts}
            add_case(ctx, res, pid, cases, case, use_judge, oracle_from_problems, extra_oracle)
    finish(ctx, res, pid, aspects, cases)


def add_case(ctx, res, pid, cases, case, use_judge, oracle_from_problems=('C10',), extra_oracle=None):
    obs, d = broker.drive(case)
    orc = None
    if use_judge and not case.get('async_'):
        jd = J.Judge(case, d)
        fails = jd.run()
        orc = fails.get(pid)
        for key, v in jd.counts.items():
            res.count('judge:' + key, v)
    if not orc:
        orc = J.necessary(case, d).get(pid)
    if d.problems:
        hang = [p for p in d.problems if 'watchdog' in p or 'livelock' in p]
        nonce = [p for p in d.problems if 'nonce' in p]
        if hang and pid in ('C10', 'C07'):
            orc = orc or hang[0]
        if nonce and pid == 'C02':
            orc = orc or nonce[0]
    if extra_oracle and not orc:
        orc = extra_oracle(case, d)
    outs = d.show_outs()
    nontrivial = any('P' in o for o in outs)
    for e in case['events']:
        res.count('event:' + e[0])
    res.count('histories_with_deliveries' if nontrivial else 'histories_without_deliveries')
    res.count('judged' if use_judge and not case.get('async_') else 'not_judged')
    cases.append(dict(input=case, expr=broker.expr_case(case), impl=obs, oracle=orc,
                      fsig=('%s: %s' % (pid, orc.split(': ', 1)[-1][:160])) if orc else None,
                      sig=case_sig(case) if nontrivial else None, driver_trace=None))
    return d


def finish(ctx, res, pid, aspects, cases):
    def compare(c, m):
        fd = broker.first_diff(c['impl'], broker.reshape(m), aspects)
        if fd is None:
            return None
        k, letter = fd
        ev = c['input']['events'][k] if k < len(c['input']['events']) else None
        return 'event %d %r: model and implementation differ in aspect %s' % (k, ev[:2] if ev else None, letter)

    def sample(c):
        return dict(history=summarize(c['input']), oracle=c['oracle'])
    common.correspond(ctx, res, cases, IMPORTS, compare=compare, sample=sample, shard_bytes=30000)


def replay_case(pid, case, extra_oracle=None):
    """re-run a stored case on the current tree through the judge"""
    obs, d = broker.drive(case)
    fails = {}
    if not case.get('async_'):
        fails = J.Judge(case, d).run()
    if d.problems:
        return d.problems[0]
    r = fails.get(pid) or J.necessary(case, d).get(pid)
    if not r and extra_oracle:
        r = extra_oracle(case, d)
    return r
