"""Shared runner for C11 / C12 / C13 (the client sessions)."""
import common
import clients as C
import legacy_drv as L

LEVEL = 'proof'
IDX = {'C11': 0, 'C12': 1, 'C13': 2}
WHICH = {'C11': 11, 'C12': 12, 'C13': 13}
ASSUMPTIONS = [
    'asyncio: the event loop is the hand-stepped virtual-time loop of harness/vloop.py (call_soon FIFO, timers in virtual time); '
    'create_connection is scripted; a transport keeps accepting writes after close() until the loss is reported',
    'Twisted: the real ClientService runs on task.Clock and a scripted endpoint; the Coq model covers only the hpfeeds glue, '
    'connecting / retrying / stopping is ClientService\'s documented contract (checked on the real one by the C13 oracle, not proved)',
    'blocking Client: the socket is scripted (connect outcomes, recv results, sendall outcomes); time.sleep is recorded, not waited',
    'blocking thread session (hpfeeds/blocking/session.py): see DESIGN.md (known finding F6, model pending)',
]
ID_CHOICES = [('ident', 'secret'), ('ü', 'pä'), ('a', '')]


def build_cases(ctx, pid):
    cases = []
    na, nt, nl = ctx.n(110, 1500), ctx.n(80, 1000), ctx.n(160, 2500)
    nb = ctx.n(120, 2000) if pid in ('C11', 'C12') else 0
    for k in range(na):
        rng = ctx.rng('aio/%d' % k)
        ident, secret = rng.choice(ID_CHOICES)
        cases.append(dict(kind='asyncio', ident=ident, secret=secret, events=C.gen_aio(rng)))
    for k in range(nt):
        rng = ctx.rng('tw/%d' % k)
        ident, secret = rng.choice(ID_CHOICES)
        cases.append(dict(kind='twisted', ident=ident, secret=secret, events=C.gen_tw(rng)))
    for k in range(nl):
        rng = ctx.rng('legacy/%d' % k)
        cases.append(dict(kind='legacy', ident='ident', secret='secret', case=L.gen_case(rng)))
    for k in range(nb):
        rng = ctx.rng('blk/%d' % k)
        ident, secret = rng.choice(ID_CHOICES)
        cases.append(dict(kind='blocking', ident=ident, secret=secret, events=C.gen_blk(rng)))
    return cases


def evaluate(pid, inp):
    """run the implementation on one case -> (impl observation for pid, model expression, oracle failures, signature)"""
    kind, ident, secret = inp['kind'], inp['ident'], inp['secret']
    if kind == 'asyncio':
        rows, d = C.drive_aio(inp['events'], ident, secret)
        fails = C.session_oracles(d, ident, secret, 'asyncio')
        impl = [r[IDX[pid]] for r in rows]
        expr = C.expr_aio(inp['events'], ident, secret)
        nt = sum(1 for r in d.trace if r['ev'][0] == 'data' and r['delivered'])
        sig = ('a', tuple(impl)) if nt else None
        return impl, expr, fails, sig
    if kind == 'twisted':
        rows, d, seen = C.drive_tw(inp['events'], ident, secret)
        fails = C.session_oracles(d, ident, secret, 'twisted')
        impl = [r[IDX[pid]] for r in rows]
        expr = C.expr_tw(seen, ident, secret)
        nt = sum(1 for r in d.trace if r['ev'][0] == 'data' and r['delivered'])
        sig = ('t', tuple(impl)) if nt else None
        return impl, expr, fails, sig
    if kind == 'blocking':
        import blksess
        rows, d = blksess.drive(inp['events'], ident, secret)
        fails = C.blk_oracles(d, ident, secret)
        impl = [r[IDX[pid]] for r in rows]
        expr = C.expr_blk(inp['events'], ident, secret)
        nt = sum(1 for r in d.trace if r['ev'][0] == 'data' and r['delivered'])
        return impl, expr, fails, (('b', tuple(impl)) if nt else None)
    env, outcome = L.drive(inp['case'], ident, secret)
    fails = C.legacy_oracles(inp['case'], env, outcome, ident, secret)
    impl = C.legacy_proj(WHICH[pid], env.trace)
    expr = C.expr_legacy(WHICH[pid], inp['case'])
    sig = ('l', tuple(impl)) if any(e[0] == 'conn' for e in env.log) else None
    return impl, expr, fails, sig


def run(pid, ctx, res, rule):
    res.rule = rule
    cases = []
    for inp in build_cases(ctx, pid):
        impl, expr, fails, sig = evaluate(pid, inp)
        res.count(inp['kind'])
        orc = fails.get(pid)
        fsig = None
        if isinstance(orc, tuple):
            fsig, orc = orc
        if inp['kind'] == 'legacy':
            res.count('legacy_recv_%d' % min(len(inp['case']['recv']) // 5 * 5, 20))
        else:
            res.count('%s_events_%d' % (inp['kind'], min(len(inp['events']) // 20 * 20, 80)))
        cases.append(dict(input=inp, expr=expr, impl=impl, oracle=orc, sig=sig,
                          fsig=fsig or (('%s: %s' % (pid, orc.split(':', 1)[0])) if orc else None), kind=inp['kind']))

    def compare(c, m):
        if c['kind'] == 'legacy':
            return None if m == c['impl'] else 'blocking Client differs from its model: impl %r model %r' % (c['impl'][:12], m[:12])
        mine = m[IDX[pid]::(2 if c['kind'] == 'blocking' else 3)]
        if mine != c['impl']:
            k = next((i for i, (a, b) in enumerate(zip(mine, c['impl'])) if a != b), min(len(mine), len(c['impl'])))
            return '%s session differs from its model at event %d (%r)' % (c['kind'], k, c['input']['events'][k][:2] if k < len(c['input']['events']) else None)
        return None
    common.correspond(ctx, res, cases, C.IMPORTS, compare=compare,
                      sample=lambda c: dict(kind=c['kind'], observed=c['impl'][:6], oracle=c['oracle'],
                                            script=(c['input'].get('events') or c['input'].get('case', {}).get('recv'))[:5]),
                      shard_bytes=30000)


def replay(pid, ctx, case):
    impl, expr, fails, sig = evaluate(pid, case)
    f = fails.get(pid)
    return f[1] if isinstance(f, tuple) else f
