"""C07 — arbitrary bytes: the decoder terminates, stays bounded, fails only cleanly."""
import common
import wire

LEVEL = 'proof'
TRUSTED_EXTRA = ['harness/pytrans.py: fail-closed translator hpfeeds/protocol.py -> coq/ProtoGen.v (regenerated on every run) and coq/PyPrim.v, its reading of the Python fragment used there (dynamic values, slices, struct.pack/unpack for !B and !iB, len of a str = code points, exceptions); the translated text is proved equal to the hand-written Wire.v in coq/ProtoGenEq.v, and the *_src_* theorems are about the translated text']
ASSUMPTIONS = ['non-termination of the code shows up as the driver\'s iteration watchdog (more yields than bytes/5)']


def gen_cases(ctx):
    rng = ctx.rng('c07')
    out = []
    lat = list(wire.header_lattice())
    if ctx.scale == 1:
        # exhaustive over the boundary lattice: every header alone, and with a tail, whole and byte-wise
        for ml, op in lat:
            try:
                h = wire.be32s(ml) + bytes([op])
            except Exception:
                continue
            out.append(([h], 'lattice'))
            tail = bytes(rng.randrange(256) for _ in range(rng.choice([1, 3, 7, 20])))
            out.append(([h + tail], 'lattice+tail'))
            if rng.random() < 0.35:
                d = h + tail
                out.append(([d[i:i + 1] for i in range(len(d))], 'lattice bytewise'))
    # declared lengths around every limit WITH the whole announced body already there when the header completes (one read,
    # header split from the body, pipelined behind a valid frame): the verdict must not depend on how much has arrived
    for op in range(6):
        lim = wire.limit(op)
        for ml in (lim - 1, lim, lim + 1, lim + 2, lim + 5, lim + 300):
            if ml < 5:
                continue
            if ml > 2000 and rng.random() < (0.85 if ctx.tier == 'quick' else 0.3) * (0 if ctx.scale > 1 else 1):
                continue
            body = bytes([rng.randrange(32, 127)]) * (ml - 5)
            fr = wire.be32s(ml) + bytes([op]) + body
            pre = wire.gen_frame(rng)[2]
            for chunks in ([fr], [fr[:3], fr[3:]], [fr[:5], fr[5:]], [pre + fr], [pre[:2], pre[2:] + fr + b'\x00\x00']):
                out.append((list(chunks), 'limit+body'))
    for _ in range(ctx.n(250, 6000)):
        k = rng.random()
        if k < 0.3:
            data = bytes(rng.randrange(256) for _ in range(rng.randint(0, 40)))
        elif k < 0.6:
            # valid frames then garbage / mutated frame
            fr = [wire.gen_frame(rng)[2] for _ in range(rng.randint(0, 3))]
            ml, op = rng.choice(lat)
            data = b''.join(fr) + wire.be32s(ml) + bytes([op]) + bytes(rng.randrange(256) for _ in range(rng.randint(0, 12)))
        elif k < 0.85:
            d = bytearray(b''.join(wire.gen_frame(rng)[2] for _ in range(rng.randint(1, 3))))
            for _ in range(rng.randint(1, 3)):
                d[rng.randrange(len(d))] = rng.choice([0, 1, 4, 5, 6, 0x7f, 0x80, 0xff])
            data = bytes(d)
        else:
            data = bytes(rng.choice([0, 0, 0, 1, 5, 6, 255]) for _ in range(rng.randint(5, 30)))
        out.append((wire.cut(rng, data), 'random'))
    return out


def run(ctx, res):
    if ctx.scale == 1:
        res.notes.append('probe (implementation only): reset() at any point of a stream (also right after a complete valid header), then another stream: the outcomes must be those of a fresh decoder and satisfy the C07 oracle')
        for k in range(ctx.n(150, 3000)):
            bad = wire.reset_probe(ctx.rng('reset%d' % k))
            res.evaluations += 1
            res.count('reset_probe')
            if bad:
                res.failures.append(dict(signature='C07: reset probe', what=bad, case=dict(probe='reset', k=k)))
                break
    res.rule = ('5-byte headers over the lattice ml in {-2^31, .., -1,0,1,4,5,6, limit-1,limit,limit+1, .., 2^31-1} x '
                'op in {0..7,127,128,255} (exhaustive), alone / with tails / byte-wise; random bytes, valid frames followed '
                'by a lattice header, mutated valid streams; frames declaring limit-1 .. limit+300 whose whole body is present when the header completes (one read / split header / pipelined); random chunkings; non-trivial = at least 5 bytes; distinct by '
                '(stream, cut points)')
    cases = []
    for chunks, kind in gen_cases(ctx):
        obs, recs = wire.drive_unpack(chunks)
        orc = wire.oracle_c07(chunks, recs)
        data = b''.join(chunks)
        cases.append(dict(input=dict(chunks=[common.jbytes(c) for c in chunks], kind=kind),
                          expr=wire.expr_unpack(chunks), impl=obs, oracle=orc,
                          fsig=('C07: ' + orc.split(':', 1)[-1].strip()) if orc else None,
                          sig=(data, tuple(len(c) for c in chunks)) if len(data) >= 5 else None))
        res.count(kind)
        res.count('ends_in_error' if recs and recs[-1]['err'] else 'ends_clean')
    common.correspond(ctx, res, cases, 'Bytes Wire Run')


def replay(ctx, case):
    if case.get('probe') == 'reset':
        return wire.reset_probe(ctx.rng('reset%d' % case['k']))
    chunks = [common.unjbytes(c) for c in case['chunks']]
    obs, recs = wire.drive_unpack(chunks)
    return wire.oracle_c07(chunks, recs)
