"""C12 — clients hand every received message to the application once, in order."""
from props import clientprops as cp

LEVEL = cp.LEVEL
TRUSTED_EXTRA = ['harness/pytrans7.py: ClientSession.subscribe / unsubscribe / publish and Protocol.on_publish of hpfeeds/blocking/session.py -> coq/BlkGen.v, proved to be the BApp steps / HPublish effect of coq/BlkSession.v in coq/BlkGenEq.v (no axioms)', 'harness/pytrans6.py: fail-closed translator of ClientSession.subscribe / unsubscribe / publish and _Protocol.on_publish (hpfeeds/asyncio/client.py) and the same six methods of hpfeeds/twisted/service.py (ClientSessionService, _Protocol) -> coq/AioGen.v (regenerated on every run), state transformers over the model state of coq/AioSession.v (self.subscriptions = wanted, self.protocol = cur, protocol.subscribe/unsubscribe/publish = transport.write(msgX) on that connection, read_queue.put_nowait = append); proved equal to do_sub / do_unsub / do_pub and the OP_PUBLISH branch of on_frame in coq/AioGenEq.v (no axioms); the coroutines, the ClientService / DeferredQueue of Twisted and the blocking clients are hand-written or assumed and tied by the correspondence check only']
ASSUMPTIONS = cp.ASSUMPTIONS


def session_backlog_probe():
    """the blocking thread session's read_queue is the pollable Queue: more received messages than the wake-up socket pair
    holds as single bytes must still all be handed over, in order (harness/reactor_drv.queue_backlog_probe: a producer thread -
    the reactor's role - puts 700 items while the application is not reading, then the application reads while readable)"""
    import reactor_drv as rd
    return rd.queue_backlog_probe()


def run(ctx, res):
    if ctx.scale == 1:
        p = session_backlog_probe()
        res.evaluations += 1
        res.count('session_backlog_probe')
        if p:
            res.failures.append(dict(signature='C12: blocking session backlog', what='blocking thread session read_queue: ' + p,
                                     case=dict(probe='backlog')))
    cp.run('C12', ctx, res,
           'same histories as C11. Compared with the model: messages handed to read() / callbacks, the queue and the waiting readers '
           'after every event. Oracle: an independent decoder of the bytes delivered to each connection gives the OP_PUBLISH / '
           'OP_ERROR sequence; read() results + queue (asyncio, Twisted) and the callbacks before the next recv() (blocking Client) '
           'must be exactly that sequence, in order, each once. Non-trivial = data reached a connection')


def replay(ctx, case):
    if isinstance(case, dict) and case.get('probe') == 'backlog':
        p = session_backlog_probe()
        return ('blocking thread session read_queue: ' + p) if p else None
    return cp.replay('C12', ctx, case)
