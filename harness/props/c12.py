"""C12 — clients hand every received message to the application once, in order."""
from props import clientprops as cp

LEVEL = cp.LEVEL
ASSUMPTIONS = cp.ASSUMPTIONS


def run(ctx, res):
    cp.run('C12', ctx, res,
           'same histories as C11. Compared with the model: messages handed to read() / callbacks, the queue and the waiting readers '
           'after every event. Oracle: an independent decoder of the bytes delivered to each connection gives the OP_PUBLISH / '
           'OP_ERROR sequence; read() results + queue (asyncio, Twisted) and the callbacks before the next recv() (blocking Client) '
           'must be exactly that sequence, in order, each once. Non-trivial = data reached a connection')


def replay(ctx, case):
    return cp.replay('C12', ctx, case)
