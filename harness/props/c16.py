"""C16 — asyncio, blocking and Twisted protocol classes interpret a stream identically."""
import struct

import common
import clientproto as cp
import wire

LEVEL = 'proof'
TRUSTED_EXTRA = ['harness/pytrans.py + harness/pytrans2.py: fail-closed translators of hpfeeds/protocol.py and of BaseProtocol/ClientProtocol of the three protocol.py files -> coq/ProtoGen.v, coq/ProtoClsGen.v (regenerated on every run), with coq/PyPrim.v and coq/PyObj.v (method dispatch along the MRO, for-loops over the Unpacker, try/except, the recording subclass of harness/clientproto.py); the translated classes are proved equal to the hand-written dispatchers in coq/ProtoClsEq.v, and the C16_src_* theorems are about the translated text']
ASSUMPTIONS = ['handlers are observed through recording subclasses that delegate to the library defaults and return None',
               'an exception escaping data_received/dataReceived counts as a connection-dropping event in all three frameworks']
IMPORTS = 'Bytes Wire Run ClientProto ClientRun'


def gen_stream(rng):
    P = wire.P
    k = rng.random()
    frames = []
    n = rng.choice([1, 2, 3, 5])
    for _ in range(n):
        r = rng.random()
        if r < 0.25:
            frames.append(P.msginfo(rng.choice(['hpfeeds', 'b', 'bröker', '']), bytes(rng.randrange(256) for _ in range(rng.choice([4, 4, 0, 8])))))
        elif r < 0.65:
            frames.append(P.msgpublish(rng.choice(['bob', 'ü', '']), rng.choice(['chan', 'c/é', '']), wire.gen_payload(rng)))
        elif r < 0.72:
            frames.append(P.msgerror(rng.choice(['accessfail', 'bad ü', ''])))
        elif r < 0.78:
            frames.append(P.msgauth(b'1234', 'x', 's'))
        elif r < 0.84:
            frames.append(rng.choice([P.msgsubscribe('i', 'c'), P.msgunsubscribe('i', 'c')]))
        elif r < 0.90:
            ml, op = rng.choice(list(wire.header_lattice()))
            frames.append(struct.pack('!iB', ml, op) + bytes(rng.randrange(256) for _ in range(rng.randint(0, 6))))
        elif r < 0.93:
            # a frame just above its opcode's limit, with its whole body present
            op = rng.choice([1, 2, 1])
            lim = P.SIZES.get(op, P.MAXBUF)
            ml = lim + rng.choice([1, 2, 7, 40])
            body = P.strpack8(rng.choice(['hpfeeds', 'n', ''])) if op == 1 else b''
            frames.append(struct.pack('!iB', ml, op) + body + bytes(rng.randrange(256) for _ in range(ml - 5 - len(body))))
        elif r < 0.96:
            # well-framed but malformed body
            frames.append(P.msghdr(rng.choice([0, 1, 2, 3, 4, 5]), rng.choice([b'', b'\x05ab', b'\x01\xff', b'\x01a\xc3', b'\x02ab'])))
        else:
            frames.append(bytes(rng.randrange(256) for _ in range(rng.randint(1, 12))))
    data = b''.join(frames)
    if k < 0.25:
        d = bytearray(data)
        for _ in range(rng.randint(1, 2)):
            if d:
                d[rng.randrange(len(d))] = rng.choice([0, 1, 5, 6, 0xff, 0x80])
        data = bytes(d)
        frames = None
    return data, frames


def run(ctx, res):
    res.rule = ('byte streams of 1-5 frames (INFO, PUBLISH, ERROR, broker-only opcodes, boundary-lattice headers, well-framed '
                'malformed bodies, frames just above the limit of their opcode with the whole body, random bytes; a quarter with mutated bytes) in random chunkings or one read per frame, fed in lock-step to recording '
                'subclasses of the three real ClientProtocol classes; each class is compared per chunk with its Coq model up to its '
                'first dropping chunk, and the three logs with each other; non-trivial = at least one handler call; distinct by '
                '(stream, cut points)')
    cases = []
    for k in range(ctx.n(450, 8000)):
        rng = ctx.rng('c16/%d' % k)
        ident, secret = rng.choice([('ident', 'secret'), ('ü', 'pä'), ('', '')])
        data, frames = gen_stream(rng)
        if frames and rng.random() < 0.3:
            chunks = [f for f in frames if f]          # every frame arrives as exactly one read
        else:
            chunks = wire.cut(rng, data)
        rows = cp.drive(ident, secret, chunks)
        orc = None
        a, bl, t = rows['aio'], rows['blk'], rows['tw']
        if not (a == bl == t):
            for i in range(max(len(a), len(bl), len(t))):
                ra = a[i] if i < len(a) else None
                rb = bl[i] if i < len(bl) else None
                rt = t[i] if i < len(t) else None
                if not (ra == rb == rt):
                    orc = 'chunk %d: asyncio %r, blocking %r, twisted %r' % (i, ra, rb, rt)
                    break
        impl = dict((kind, [cp.hash_row(e, n) for e, n in rows[kind]]) for kind in rows)
        nt = any(e and e[0][0] in 'IPEASU' for e, n in a)
        res.count('drops' if any(('C' in e or '!' in e) for e, n in a) else 'no_drop')
        cases.append(dict(input=dict(ident=ident, secret=secret, chunks=[common.jbytes(c) for c in chunks]),
                          expr=cp.expr(ident, secret, chunks), impl=impl, nchunks=len(chunks), oracle=orc,
                          fsig='C16: the three protocol classes interpret a stream differently' if orc else None,
                          sig=(data, tuple(len(c) for c in chunks)) if nt else None))

    def compare(c, m):
        n = c['nchunks']
        parts = dict(aio=m[:n], blk=m[n:2 * n], tw=m[2 * n:3 * n])
        for kind in ('aio', 'blk', 'tw'):
            got = c['impl'][kind]
            if got != parts[kind][:len(got)]:
                return '%s class differs from its model: impl %r model %r' % (kind, got, parts[kind][:len(got)])
        return None
    common.correspond(ctx, res, cases, IMPORTS, compare=compare,
                      sample=lambda c: dict(chunks=c['input']['chunks'][:4], asyncio_log_hashes=c['impl']['aio'][:4], oracle=c['oracle']))


def replay(ctx, case):
    chunks = [common.unjbytes(c) for c in case['chunks']]
    rows = cp.drive(case['ident'], case['secret'], chunks)
    if not (rows['aio'] == rows['blk'] == rows['tw']):
        return 'the three classes differ: %r' % ({k: v[-1:] for k, v in rows.items()},)
    return None
