"""C10 — one connection's misbehaviour never harms another connection."""
from props import brokerprops as B

LEVEL = 'proof'
TRUSTED_EXTRA = ['harness/pytrans3.py: fail-closed translator of Server.subscribe/unsubscribe/publish (hpfeeds/broker/server.py) and Connection.is_closing/connection_lost/on_publish/on_subscribe/on_unsubscribe/authenticate/on_auth/on_auth_result/message_received/connection_made (hpfeeds/broker/connection.py) and BaseProtocol.message_received (hpfeeds/asyncio/protocol.py) -> coq/BrokerGen.v (regenerated on every run), with coq/PyBroker.v, its reading of the objects (a Connection = its index; self.server None / not in server.connections = one flag; sets and the subscriber list as lists; which metrics, log calls and attributes are skipped; where the ghost log of accepted actions is appended); each translated method is proved equal to the hand-written model in coq/BrokerGenEq.v and run_src = run in coq/BrokerGenRun.v; hand-written there: the frame loop of process_pending, the object before connection_made, which queued completion an event runs, transport callbacks, the deadline timer; skipped statements (metrics no property names, log, uid/peer/port, socket options, MeteredSocket) are assumed not to raise', 'FunctionalExtensionality.functional_extensionality_dep (Coq standard library) for the *_src_* theorems only']
ASSUMPTIONS = B.ASSUMPTIONS
ASPECTS = 'DFAB'
RULE = ('a well-behaved workload (2-4 connections that authenticate and only make permitted requests) generated together '
        'with hostile connection scripts (invalid AUTH variants, spoofed/forbidden requests, impersonation bursts, broker-only '
        'opcodes, undecodable / oversized / undersized / negative-length headers, truncated bodies, invalid UTF-8, random '
        'bytes) and faults (Lost, EOF, stalls, clock) at random points, in random chunkings and interleavings, each callback '
        'under a watchdog; non-trivial = at least one PUBLISH delivered; compared with the Coq model on aspects %s; oracles: '
        'judge.py (frame-normalised) and "a well-behaved, unfaulted connection is never disconnected and none of its '
        'callbacks raises, and the broker never stops reading from it"')
PLAN = [(50, 1200, dict(profile='benign', chunking='bursts', reauth=0.06, nops=10), True), (30, 500, dict(scenario='reauth_leave'), True), (110, 3000, dict(profile='mixed', faults=0.06), False),
        (70, 1500, dict(profile='hostile', nconn=4), False),
        (100, 2500, dict(profile='mixed', chunking='frames', faults=0.05), True),
        (30, 600, dict(profile='mixed', async_=True), False)]


def healthy_oracle(case, d):
    roles = case.get('_roles') or {}
    faulted = set()
    for ev in case['events']:
        if ev[0] in ('L', 'E', 'PW', 'RWPW'):
            faulted.add(ev[1])
    if case.get('async_'):
        return None
    for k, rec in enumerate(d.trace):
        ev = rec['ev']
        if rec['raised'] == 'Hang':
            return 'event %d %r: handling the chunk does not terminate' % (k, ev[:2])
        if ev[0] == 'D' and roles.get(str(ev[1])) == 'benign' and ev[1] not in faulted and rec['raised']:
            return 'event %d %r: a callback of well-behaved connection %d raised %s' % (k, ev[:2], ev[1], rec['raised'])
        # with a synchronous store the broker has nothing to wait for: it must keep reading from a well-behaved connection
        # whatever the others do (stall, leave, misbehave)
        for q, s in (rec.get('snap') or {}).items():
            if roles.get(str(q)) == 'benign' and q not in faulted and s.get('rpaused') and not s.get('closing'):
                return ('event %d %r: the broker stopped reading from well-behaved connection %d (synchronous store, the connection '
                        'itself did nothing wrong): its later requests are never looked at' % (k, ev[:2], q))
    last = d.trace[-1]['snap'] if d.trace else {}
    for q, s in last.items():
        if roles.get(str(q)) == 'benign' and q not in faulted and s['closing']:
            return 'well-behaved connection %d (never faulted) was disconnected by the broker' % q
    return None


def write_fault_probe(rng):
    """the real Server/Connection with subscribers one of whose transports raises from write() (a fault the Coq model does not
    have: its transports never raise): every OTHER subscriber must get exactly one copy of every message, in order, and stay
    connected; the publisher must be untouched; only the faulty subscriber may be closed.  -> failure text or None"""
    import asyncio
    import broker
    import hpfeeds.protocol as P
    from vloop import VLoop
    from hpfeeds.broker.server import Server
    from hpfeeds.broker.connection import Connection

    class Faulty(broker.SimTransport):
        broken = False

        def write(self, d):
            if self.broken:
                raise OSError(32, 'Broken pipe')
            return broker.SimTransport.write(self, d)
    loop = VLoop()
    asyncio.set_event_loop(loop)
    try:
        table = {'pub': broker.mkrow('pub', (b's', [b'x'], [b'x'])), 'sub': broker.mkrow('sub', (b't', [], [b'x']))}
        srv = Server(auth=broker.FutStore(table, False, loop), name='hpfeeds')
        n = rng.randint(2, 6)
        conns = []
        for q in range(n + 1):
            c = Connection(srv)
            t = Faulty(q)
            t.now = loop.time
            loop.call(c.connection_made, t)
            ident, secret = ('pub', 's') if q == 0 else ('sub', 't')
            loop.call(c.data_received, P.msgauth(bytes(c.authrand), ident, secret))
            if q:
                loop.call(c.data_received, P.msgsubscribe(ident, 'x'))
            conns.append((c, t))
        msgs = [bytes([65 + k]) * rng.randint(0, 5) + bytes([k]) for k in range(rng.randint(2, 5))]
        bad = set(rng.sample(range(1, n + 1), rng.choice([1, 1, 2]) if n > 2 else 1))
        when = rng.randrange(len(msgs))
        for k, m in enumerate(msgs):
            if k == when:
                for q in bad:
                    conns[q][1].broken = True
            try:
                loop.call(conns[0][0].data_received, P.msgpublish('pub', 'x', m))
            except Exception as e:  # noqa
                return 'a write fault of subscriber(s) %s made the PUBLISHER\'s data_received raise %s' % (sorted(bad), type(e).__name__)
            loop.idle()
        if conns[0][1].closing:
            return 'a write fault of subscriber(s) %s got the publisher disconnected' % sorted(bad)
        for q in range(1, n + 1):
            c, t = conns[q]
            got = [b for o, b in broker.split_frames(t.out)[0] if o == P.OP_PUBLISH]
            want = [P.strpack8('pub') + P.strpack8('x') + m for m in msgs]
            if q in bad:
                continue
            if t.closing:
                return 'healthy subscriber %d was disconnected after subscriber(s) %s had a write fault' % (q, sorted(bad))
            if got != want:
                return ('healthy subscriber %d received %d of %d messages (%s) after a write to subscriber(s) %s raised during message %d'
                        % (q, len(got), len(want), 'in order' if got == want[:len(got)] else 'not a prefix', sorted(bad), when))
        return None
    finally:
        loop.shutdown()
        asyncio.set_event_loop(None)


def run(ctx, res):
    res.rule = RULE % ASPECTS + ('; plus a probe of the real broker with subscribers whose transport.write() raises (not in the model): all other '
                                 'subscribers get every message once, in order, nobody else is disconnected')
    if ctx.scale == 1:
        for k in range(ctx.n(25, 300)):
            p = write_fault_probe(ctx.rng('wf%d' % k))
            res.evaluations += 1
            res.count('write_fault_probe')
            if p:
                res.failures.append(dict(signature='C10: write fault', what=p, case=dict(probe='write_fault', k=k)))
                break
    B.run(ctx, res, 'C10', ASPECTS, PLAN, extra_oracle=healthy_oracle)


def replay(ctx, case):
    if case.get('probe') == 'write_fault':
        return write_fault_probe(ctx.rng('wf%d' % case['k']))
    return B.replay_case('C10', case, healthy_oracle)
