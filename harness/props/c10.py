"""C10 — one connection's misbehaviour never harms another connection."""
from props import brokerprops as B

LEVEL = 'proof'
ASSUMPTIONS = B.ASSUMPTIONS
ASPECTS = 'DFAB'
RULE = ('a well-behaved workload (2-4 connections that authenticate and only make permitted requests) generated together '
        'with hostile connection scripts (invalid AUTH variants, spoofed/forbidden requests, impersonation bursts, broker-only '
        'opcodes, undecodable / oversized / undersized / negative-length headers, truncated bodies, invalid UTF-8, random '
        'bytes) and faults (Lost, EOF, stalls, clock) at random points, in random chunkings and interleavings, each callback '
        'under a watchdog; non-trivial = at least one PUBLISH delivered; compared with the Coq model on aspects %s; oracles: '
        'judge.py (frame-normalised) and "a well-behaved, unfaulted connection is never disconnected and none of its '
        'callbacks raises"')
PLAN = [(50, 1200, dict(profile='benign', chunking='bursts', reauth=0.06, nops=10), True), (30, 500, dict(scenario='reauth_leave'), True), (110, 3000, dict(profile='mixed', faults=0.06), False),
        (70, 1500, dict(profile='hostile', nconn=4), False),
        (100, 2500, dict(profile='mixed', chunking='frames', faults=0.05), True),
        (30, 600, dict(profile='mixed', async_=True), False)]


def healthy_oracle(case, d):
    roles = case.get('_roles') or {}
    faulted = set()
    for ev in case['events']:
        if ev[0] in ('L', 'E', 'PW', 'RWPW'):
            faulted.add(ev[1])
    if case.get('async_'):
        return None
    for k, rec in enumerate(d.trace):
        ev = rec['ev']
        if rec['raised'] == 'Hang':
            return 'event %d %r: handling the chunk does not terminate' % (k, ev[:2])
        if ev[0] == 'D' and roles.get(str(ev[1])) == 'benign' and ev[1] not in faulted and rec['raised']:
            return 'event %d %r: a callback of well-behaved connection %d raised %s' % (k, ev[:2], ev[1], rec['raised'])
    last = d.trace[-1]['snap'] if d.trace else {}
    for q, s in last.items():
        if roles.get(str(q)) == 'benign' and q not in faulted and s['closing']:
            return 'well-behaved connection %d (never faulted) was disconnected by the broker' % q
    return None


def run(ctx, res):
    res.rule = RULE % ASPECTS
    B.run(ctx, res, 'C10', ASPECTS, PLAN, extra_oracle=healthy_oracle)


def replay(ctx, case):
    return B.replay_case('C10', case, healthy_oracle)
