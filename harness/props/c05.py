"""C05 — every message builder is inverted exactly by the decoder."""
import common
import wire

LEVEL = 'proof'
TRUSTED_EXTRA = ['harness/pytrans.py: fail-closed translator hpfeeds/protocol.py -> coq/ProtoGen.v (regenerated on every run) and coq/PyPrim.v, its reading of the Python fragment used there (dynamic values, slices, struct.pack/unpack for !B and !iB, len of a str = code points, exceptions); the translated text is proved equal to the hand-written Wire.v in coq/ProtoGenEq.v, and the *_src_* theorems are about the translated text']
ASSUMPTIONS = ['a Python str is identified with its UTF-8 encoding (CPython codec is a bijection on valid UTF-8)',
               'struct.pack/unpack "!iB"/"!B" behave as big-endian two\'s complement',
               'frames of 2^31 bytes or more (struct.error in msghdr) are outside the modelled range']


def cases_for(ctx):
    rng = ctx.rng('c05')
    out = []
    P = wire.P
    # boundary payloads at limit-1, limit, limit+1 for PUBLISH and ERROR (run-length encoded)
    nbig = 1 if ctx.tier == 'quick' else 3
    for d in (-1, 0, 1)[: 3 if ctx.scale == 1 else 0]:
        for _ in range(nbig):
            i, c = wire.gen_str(rng), wire.gen_str(rng)
            n = wire.limit(3) - 7 - len(i) - len(c) + d
            out.append((3, [i, c, bytes([rng.randrange(256)]) * n], d <= 0))
        n = wire.limit(0) - 5 + d
        out.append((0, [b'e' * n], d <= 0))
    # 255 / 256 byte strings
    for op in (1, 2, 3, 4, 5):
        for n in (255, 256):
            f = wire.gen_fields(rng, op)
            k = 1 if op == 2 else 0
            f[k] = b'i' * n
            out.append((op, f, n <= 255))
        f = wire.gen_fields(rng, op)
        k = 1 if op == 2 else 0
        f[k] = ('é' * 127 + 'a').encode()      # 255 bytes, multi-byte
        out.append((op, f, True))
    for _ in range(ctx.n(260, 4000)):
        op = rng.randrange(6)
        f = wire.gen_fields(rng, op)
        inr = True
        if op == 1:
            inr = len(f[1]) <= 20
        if op == 0:
            inr = 5 + len(f[0]) <= wire.limit(0)
        out.append((op, f, inr))
    # builders given non-UTF-8 "strings" (bytes): the reader must refuse them — model and code must agree
    for _ in range(ctx.n(20, 200)):
        op = rng.choice([0, 3, 4, 5])
        f = wire.gen_fields(rng, op)
        f[rng.randrange(len(f) if op != 3 else 2)] = rng.choice([b'\xff', b'\xc0\x80', b'\xed\xa0\x80', b'\xf4\x90\x80\x80', b'a\x80', b'\xe2\x82'])
        out.append((op, f, False))
    return out


def run(ctx, res):
    if ctx.scale == 1:
        res.notes.append('probe (implementation only): 3-8 frames built by msg* go through ONE decoder, one of them arriving in pieces; every frame must come out when complete and read back to its fields')
        for k in range(ctx.n(60, 1500)):
            bad = wire.stream_roundtrip_probe(ctx.rng('stream%d' % k))
            res.evaluations += 1
            res.count('stream_roundtrip_probe')
            if bad:
                res.failures.append(dict(signature='C05: stream probe', what=bad, case=dict(probe='stream', k=k)))
                break
    res.rule = ('field tuples per opcode: table + random Unicode strings (empty, 255/256 bytes, 2/3/4-byte UTF-8, '
                'bytes that look like length prefixes), payloads 0..3000 bytes plus frames at limit-1/limit/limit+1; '
                'non-trivial = builder produced a frame; distinct by (opcode, field fingerprints)')
    cases = []
    for op, f, inrange in cases_for(ctx):
        obs, rec = wire.drive_build(op, f)
        orc = wire.oracle_c05(op, f, rec) if inrange else None
        cases.append(dict(input=dict(op=op, fields=[common.jbytes(x) for x in f], in_range=inrange),
                          expr=wire.expr_build(op, f), impl=obs, oracle=orc,
                          fsig=('C05 op%d: %s' % (op, orc)) if orc else None,
                          sig=(op, tuple(common.fp(x) for x in f)) if rec else None))
        res.count('op%d' % op)
        res.count('in_range' if inrange else 'out_of_range')
        res.count('builder_refused' if rec is None else 'built')
    common.correspond(ctx, res, cases, 'Bytes Wire Run')
    # SHA-1 and UTF-8 validator against CPython on their own
    import hashlib
    rng = ctx.rng('sha')
    aux = []
    for _ in range(ctx.n(40, 300)):
        m = bytes(rng.randrange(256) for _ in range(rng.choice([0, 1, 3, 55, 56, 63, 64, 65, 119, 120, 200])))
        aux.append(dict(input=dict(sha1_of=m.hex()), expr='run_sha1 %s' % common.coq_segs(m),
                        impl=common.fp(hashlib.sha1(m).digest()), oracle=None, sig=('sha', m)))
    for _ in range(ctx.n(150, 2000)):
        k = rng.random()
        if k < 0.4:
            m = wire.gen_str(rng)
        elif k < 0.7:
            m = bytes(rng.choice([0x41, 0x7f, 0x80, 0xbf, 0xc0, 0xc1, 0xc2, 0xdf, 0xe0, 0xa0, 0x9f, 0xed, 0xee, 0xef,
                                  0xf0, 0x90, 0x8f, 0xf4, 0xf5, 0xff]) for _ in range(rng.randint(1, 5)))
        else:
            m = bytearray(wire.gen_str(rng) or b'a')
            m[rng.randrange(len(m))] = rng.randrange(256)
            m = bytes(m)
        try:
            m.decode('utf-8')
            v = '1'
        except UnicodeDecodeError:
            v = '0'
        aux.append(dict(input=dict(utf8=m.hex()), expr='run_utf8 %s' % common.coq_segs(m), impl=v, oracle=None,
                        sig=('utf8', m)))
        res.count('utf8_valid' if v == '1' else 'utf8_invalid')
    common.correspond(ctx, res, aux, 'Bytes Wire Run', tag='aux')


def replay(ctx, case):
    if case.get('probe') == 'stream':
        return wire.stream_roundtrip_probe(ctx.rng('stream%d' % case['k']))
    f = [common.unjbytes(x) for x in case['fields']]
    obs, rec = wire.drive_build(case['op'], f)
    return wire.oracle_c05(case['op'], f, rec) if case.get('in_range') else None
