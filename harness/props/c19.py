"""C19 — exported connection and subscription gauges equal reality."""
from props import brokerprops as B
from common import unjbytes as common_unj

LEVEL = 'proof'
ASSUMPTIONS = B.ASSUMPTIONS + ['prometheus_client gauges/counters are read through collect(); the per-identity clause is checked by '
                               'the harness only (theorem covers the per-channel sums, the connection gauge and the counters)']
ASPECTS = 'GF'
RULE = ('random histories with redundant subscribes/unsubscribes, refused requests, re-authentication and disconnects at any point; '
        'after EVERY event the prometheus samples are compared with the harness\'s own count (open connections; per channel the '
        'connections whose active set holds it; made/lost counters) and with the Coq model (aspects %s); non-trivial = at least one '
        'subscription gauge was created')
PLAN = [(40, 600, dict(scenario='reauth_leave'), False), (40, 800, dict(profile='mixed', faults=0.1, nops=10, reauth=0.08), False), (120, 3000, dict(profile='mixed', faults=0.1, nops=10), False),
        (100, 2500, dict(profile='mixed', chunking='frames', faults=0.08, nops=10), True),
        (40, 800, dict(profile='hostile'), False),
        (30, 600, dict(profile='mixed', async_=True, faults=0.1), False)]


def gauge_oracle(case, d):
    import judge as J
    made = 0
    single_auth = True
    auths = {}
    fed = {}
    for k, rec in enumerate(d.trace):
        ev = rec['ev']
        if ev[0] == 'C' and rec['delivered']:
            made += 1
        if ev[0] == 'D' and rec['delivered']:
            # "connections authenticate once": decided from what the connection SENT (a second OP_AUTH may sit in
            # the same chunk as the first, so per-event snapshots of the identity are not enough)
            fed.setdefault(ev[1], []).append(common_unj(ev[2]))
            if sum(1 for op, _ in J.arrived_frames(fed[ev[1]]) if op == 2) > 1:
                single_auth = False
        if ev[0] == 'R':
            single_auth = single_auth and True
        g = rec['gauges']
        snap = rec['snap']
        nopen = sum(1 for s in snap.values() if s['open'])
        where = 'event %d %r: ' % (k, ev[:2])
        if g['conn'] != nopen:
            return where + 'client_connections gauge is %d but %d connection(s) are open' % (g['conn'], nopen)
        if g['made'] != made:
            return where + 'connection_made counter is %d after %d connection(s)' % (g['made'], made)
        if g['lost'] != made - nopen:
            return where + 'connection_lost counter is %d but %d connection(s) have gone' % (g['lost'], made - nopen)
        chans = set(c for (_, c) in g['subs']) | set(c for s in snap.values() for c in s['active'])
        for c in chans:
            total = sum(v for (i, cc), v in g['subs'].items() if cc == c)
            real = sum(1 for s in snap.values() if s['open'] and c in s['active'])
            if total != real:
                return where + 'subscription gauges for channel %r add up to %d but %d connection(s) are subscribed' % (c, total, real)
        for q, s in snap.items():
            if s['ak'] is not None:
                auths.setdefault(q, set()).add(s['ak'])
                if len(auths[q]) > 1:
                    single_auth = False
        if single_auth:
            for (i, c), v in g['subs'].items():
                real = sum(1 for s in snap.values() if s['open'] and s['ak'] == i and c in s['active'])
                if v < 0:
                    return where + 'subscription gauge (%r, %r) is negative (%d)' % (i, c, v)
                if v != real:
                    return where + 'subscription gauge (%r, %r) is %d but %d such connection(s) are subscribed' % (i, c, v, real)
        if nopen == 0 and (g['conn'] != 0 or any(v != 0 for v in g['subs'].values())):
            return where + 'gauges are not zero although every client has gone'
    return None


def run(ctx, res):
    res.rule = RULE % ASPECTS
    B.run(ctx, res, 'C19', ASPECTS, PLAN, extra_oracle=gauge_oracle)


def replay(ctx, case):
    return B.replay_case('C19', case, gauge_oracle)
