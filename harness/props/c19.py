"""C19 — exported connection and subscription gauges equal reality."""
from props import brokerprops as B
from common import unjbytes as common_unj

LEVEL = 'proof'
TRUSTED_EXTRA = ['harness/pytrans3.py: fail-closed translator of Server.subscribe/unsubscribe/publish (hpfeeds/broker/server.py) and Connection.is_closing/connection_lost/on_publish/on_subscribe/on_unsubscribe/authenticate/on_auth/on_auth_result/message_received/connection_made (hpfeeds/broker/connection.py) and BaseProtocol.message_received (hpfeeds/asyncio/protocol.py) -> coq/BrokerGen.v (regenerated on every run), with coq/PyBroker.v, its reading of the objects (a Connection = its index; self.server None / not in server.connections = one flag; sets and the subscriber list as lists; which metrics, log calls and attributes are skipped; where the ghost log of accepted actions is appended); each translated method is proved equal to the hand-written model in coq/BrokerGenEq.v and run_src = run in coq/BrokerGenRun.v; hand-written there: the frame loop of process_pending, the object before connection_made, which queued completion an event runs, transport callbacks, the deadline timer; skipped statements (metrics no property names, log, uid/peer/port, socket options, MeteredSocket) are assumed not to raise', 'FunctionalExtensionality.functional_extensionality_dep (Coq standard library) for the *_src_* theorems only']
ASSUMPTIONS = B.ASSUMPTIONS + ['prometheus_client gauges/counters are read through collect(); the per-identity clause is checked by '
                               'the harness only (theorem covers the per-channel sums, the connection gauge and the counters)']
ASPECTS = 'GF'
RULE = ('random histories with redundant subscribes/unsubscribes, refused requests, re-authentication and disconnects at any point; '
        'after EVERY event the prometheus samples are compared with the harness\'s own count (open connections; per channel the '
        'connections whose active set holds it; made/lost counters) and with the Coq model (aspects %s); non-trivial = at least one '
        'subscription gauge was created')
PLAN = [(40, 600, dict(scenario='reauth_leave'), False), (40, 800, dict(profile='mixed', faults=0.1, nops=10, reauth=0.08), False), (120, 3000, dict(profile='mixed', faults=0.1, nops=10), False),
        (100, 2500, dict(profile='mixed', chunking='frames', faults=0.08, nops=10), True),
        (40, 800, dict(profile='hostile'), False),
        (30, 600, dict(profile='mixed', async_=True, faults=0.1), False)]


def gauge_oracle(case, d):
    import judge as J
    made = 0
    single_auth = True
    auths = {}
    fed = {}
    for k, rec in enumerate(d.trace):
        ev = rec['ev']
        if ev[0] == 'C' and rec['delivered']:
            made += 1
        if ev[0] == 'D' and rec['delivered']:
            # "connections authenticate once": decided from what the connection SENT (a second OP_AUTH may sit in
            # the same chunk as the first, so per-event snapshots of the identity are not enough)
            fed.setdefault(ev[1], []).append(common_unj(ev[2]))
            if sum(1 for op, _ in J.arrived_frames(fed[ev[1]]) if op == 2) > 1:
                single_auth = False
        if ev[0] == 'R':
            single_auth = single_auth and True
        g = rec['gauges']
        snap = rec['snap']
        nopen = sum(1 for s in snap.values() if s['open'])
        where = 'event %d %r: ' % (k, ev[:2])
        if g['conn'] != nopen:
            return where + 'client_connections gauge is %d but %d connection(s) are open' % (g['conn'], nopen)
        if g['made'] != made:
            return where + 'connection_made counter is %d after %d connection(s)' % (g['made'], made)
        if g['lost'] != made - nopen:
            return where + 'connection_lost counter is %d but %d connection(s) have gone' % (g['lost'], made - nopen)
        chans = set(c for (_, c) in g['subs']) | set(c for s in snap.values() for c in s['active'])
        for c in chans:
            total = sum(v for (i, cc), v in g['subs'].items() if cc == c)
            real = sum(1 for s in snap.values() if s['open'] and c in s['active'])
            if total != real:
                return where + 'subscription gauges for channel %r add up to %d but %d connection(s) are subscribed' % (c, total, real)
        for q, s in snap.items():
            if s['ak'] is not None:
                auths.setdefault(q, set()).add(s['ak'])
                if len(auths[q]) > 1:
                    single_auth = False
        if single_auth:
            for (i, c), v in g['subs'].items():
                real = sum(1 for s in snap.values() if s['open'] and s['ak'] == i and c in s['active'])
                if v < 0:
                    return where + 'subscription gauge (%r, %r) is negative (%d)' % (i, c, v)
                if v != real:
                    return where + 'subscription gauge (%r, %r) is %d but %d such connection(s) are subscribed' % (i, c, v, real)
        if nopen == 0 and (g['conn'] != 0 or any(v != 0 for v in g['subs'].values())):
            return where + 'gauges are not zero although every client has gone'
    return None


def setup_fault_probe(rng):
    """the real Server/Connection when connection_made itself fails part-way (a fault the Coq model does not have: its
    do_connect never raises): the peer was reset between accept and the callback, so get_extra_info('peername') is None, or
    setsockopt() raises OSError on the dead socket.  asyncio logs the exception and later reports the loss as usual.  After
    every step: the connections gauge = the broker's own connection set = connections made and not yet lost; made - lost
    counters agree; once everybody has gone every gauge is zero.  -> failure text or None"""
    import asyncio
    import broker
    import hpfeeds.protocol as P
    from vloop import VLoop
    from hpfeeds.broker import prometheus
    from hpfeeds.broker.server import Server
    from hpfeeds.broker.connection import Connection

    class DeadSock:
        def setsockopt(self, *a):
            raise OSError(9, 'Bad file descriptor')

    class Half(broker.SimTransport):
        fault = None

        def get_extra_info(self, k, default=None):
            if k == 'peername' and self.fault == 'peername':
                return None
            if k == 'socket' and self.fault == 'sockopt':
                return DeadSock()
            return broker.SimTransport.get_extra_info(self, k, default)
    loop = VLoop()
    asyncio.set_event_loop(loop)
    try:
        prometheus.reset()
        table = {'ali': broker.mkrow('ali', (b's', [b'x'], [b'x', b'y']))}
        srv = Server(auth=broker.FutStore(table, False, loop), name='hpfeeds')
        n = rng.randint(2, 6)
        conns = {}
        alive = set()
        steps = []
        for q in range(n):
            steps.append(('made', q, rng.choice([None, 'peername', 'sockopt', None])))
        for q in range(n):
            steps.append(('lost', q, None))
        # keep per-connection order (made before lost), shuffle across connections
        order = []
        pools = {q: [s for s in steps if s[1] == q] for q in range(n)}
        while any(pools.values()):
            q = rng.choice([k for k, v in pools.items() if v])
            order.append(pools[q].pop(0))

        def gauges():
            lost = sum(int(v) for nm, l, v in broker.samples(prometheus.CONNECTION_LOST) if not nm.endswith('_created'))
            subs = {(l['ident'], l['chan']): int(v) for nm, l, v in broker.samples(prometheus.SUBSCRIPTIONS)}
            return (int(prometheus.CLIENT_CONNECTIONS._value.get()), int(prometheus.CONNECTION_MADE._value.get()), lost, subs)
        made = 0
        for what, q, fault in order:
            if what == 'made':
                c = Connection(srv)
                t = Half(q)
                t.fault = fault
                t.now = loop.time
                conns[q] = (c, t, fault)
                made += 1
                alive.add(q)
                try:
                    loop.call(c.connection_made, t)
                except Exception:      # asyncio's loop logs it (call_exception_handler) and carries on
                    pass
                if fault is None and rng.random() < 0.7:
                    loop.call(c.data_received, P.msgauth(bytes(c.authrand), 'ali', 's'))
                    loop.call(c.data_received, P.msgsubscribe('ali', rng.choice(['x', 'y'])))
            else:
                c, t, fault = conns[q]
                alive.discard(q)
                try:
                    loop.call(c.connection_lost, None)
                except Exception:
                    pass
            g_conn, g_made, g_lost, g_subs = gauges()
            where = 'after %s of connection %d%s: ' % (what, q, (' (connection_made failed: %s)' % fault) if fault else '')
            if g_conn != len(alive):
                return where + 'client_connections gauge is %d but %d connection(s) are open' % (g_conn, len(alive))
            if len(srv.connections) != len(alive):
                return where + 'the broker lists %d connection(s) but %d are open' % (len(srv.connections), len(alive))
            if g_made - g_lost != len(alive):
                return where + 'connection_made - connection_lost = %d but %d connection(s) are open' % (g_made - g_lost, len(alive))
        g_conn, g_made, g_lost, g_subs = gauges()
        if g_conn != 0 or any(v != 0 for v in g_subs.values()):
            return 'every client has gone but the gauges are not zero (connections %d, subscriptions %r)' % (g_conn, g_subs)
        return None
    finally:
        loop.shutdown()
        asyncio.set_event_loop(None)


def run(ctx, res):
    res.rule = RULE % ASPECTS + ('; plus a probe of the real broker with connections whose connection_made fails part-way (peer reset '
                                 'before the callback: no peername / setsockopt raises; not in the model): gauges, counters and the '
                                 'connection set agree after every step and return to zero')
    if ctx.scale == 1:
        for k in range(ctx.n(30, 400)):
            p = setup_fault_probe(ctx.rng('sf%d' % k))
            res.evaluations += 1
            res.count('setup_fault_probe')
            if p:
                res.failures.append(dict(signature='C19: setup fault', what=p, case=dict(probe='setup_fault', k=k)))
                break
    B.run(ctx, res, 'C19', ASPECTS, PLAN, extra_oracle=gauge_oracle)


def replay(ctx, case):
    if case.get('probe') == 'setup_fault':
        return setup_fault_probe(ctx.rng('sf%d' % case['k']))
    return B.replay_case('C19', case, gauge_oracle)
