"""C02 — see DESIGN.md §6 and coq/Properties/C02.v"""
from props import brokerprops as B

LEVEL = 'proof'
TRUSTED_EXTRA = ['harness/pytrans3.py: fail-closed translator of Server.subscribe/unsubscribe/publish (hpfeeds/broker/server.py) and Connection.is_closing/connection_lost/on_publish/on_subscribe/on_unsubscribe/authenticate/on_auth/on_auth_result/message_received/connection_made (hpfeeds/broker/connection.py) and BaseProtocol.message_received (hpfeeds/asyncio/protocol.py) -> coq/BrokerGen.v (regenerated on every run), with coq/PyBroker.v, its reading of the objects (a Connection = its index; self.server None / not in server.connections = one flag; sets and the subscriber list as lists; which metrics, log calls and attributes are skipped; where the ghost log of accepted actions is appended); each translated method is proved equal to the hand-written model in coq/BrokerGenEq.v and run_src = run in coq/BrokerGenRun.v; hand-written there: the frame loop of process_pending, the object before connection_made, which queued completion an event runs, transport callbacks, the deadline timer; skipped statements (metrics no property names, log, uid/peer/port, socket options, MeteredSocket) are assumed not to raise', 'FunctionalExtensionality.functional_extensionality_dep (Coq standard library) for the *_src_* theorems only']
ASSUMPTIONS = B.ASSUMPTIONS
ASPECTS = 'WFA'
RULE = ('random histories of 2-5 connections over two permission tables: per-connection scripts of AUTH (valid and ten invalid '
        'digest variants), SUBSCRIBE/UNSUBSCRIBE/PUBLISH (mostly permitted, some forbidden or spoofed), malformed frames; '
        'streams cut at random (whole, per frame, per byte, inside headers, pipelined bursts of 1-4 whole frames); some plans add valid re-authentication under another identity and a directed scenario (subscribe, re-authenticate, leave, then others publish on every channel ever held); a directed scenario in which the (synchronous) credential store changes between callbacks - a secret is rotated, channel lists change, an entry is removed - and fresh connections present the old and the new secret while earlier ones go on under the row they authenticated with; events interleaved at random with Lost, EOF, '
        'pause/resume-writing and clock ticks; non-trivial = at least one PUBLISH was delivered; distinct by event list. '
        'Compared with the Coq model on aspects %s; frame-normalised synchronous-store histories (one frame per read, or a read of several permitted frames) are '
        'also judged by harness/judge.py')
PLAN = [(30, 400, dict(scenario='store_change'), False), (20, 300, dict(scenario='reauth_stale'), True), (100, 2500, dict(profile='hostile'), False), (100, 2500, dict(profile='hostile', chunking='frames'), True), (50, 1000, dict(profile='mixed'), False)]


def nosecret_probe(rng):
    """the real broker with a store whose rows have no usable secret (the key is missing, or None as a NULL column gives):
    no digest whatever may authenticate such an identity - in particular not SHA1(nonce) alone - and nothing pipelined
    behind the OP_AUTH may take effect.  (Such rows are outside the Coq model, whose rows always carry a secret.)"""
    import asyncio
    import hashlib
    import broker
    import hpfeeds.protocol as P
    from vloop import VLoop
    from hpfeeds.broker.server import Server
    from hpfeeds.broker.connection import Connection
    loop = VLoop()
    asyncio.set_event_loop(loop)
    try:
        table = {'alice': dict(secret='s3cret', owner='o', pubchans=['x'], subchans=['x']),
                 'nokey': dict(owner='o', pubchans=['x'], subchans=['x']),
                 'null': dict(secret=None, owner='o', pubchans=['x'], subchans=['x'])}
        srv = Server(auth=broker.FutStore(table, False, loop), name='hpfeeds')
        la = Connection(srv)
        lt = broker.SimTransport(0)
        loop.call(la.connection_made, lt)
        loop.call(la.data_received, P.msgauth(bytes(la.authrand), 'alice', 's3cret') + P.msgsubscribe('alice', 'x'))
        n0 = len(broker.split_frames(lt.out)[0])
        for q in range(1, 9):
            c = Connection(srv)
            t = broker.SimTransport(q)
            loop.call(c.connection_made, t)
            ident = rng.choice(['nokey', 'null'])
            nonce = bytes(c.authrand)
            dg = rng.choice([hashlib.sha1(nonce).digest(), hashlib.sha1(nonce + b'None').digest(), hashlib.sha1(nonce + b'').digest(),
                             b'', bytes(20), hashlib.sha1(b'').digest()])
            frames = [broker.auth_frame(ident, dg), P.msgsubscribe(ident, 'x'), P.msgpublish(ident, 'x', b'forged')]
            try:
                if rng.random() < 0.5:
                    loop.call(c.data_received, b''.join(frames))
                else:
                    for f in frames:
                        if not t.closing:
                            loop.call(c.data_received, f)
            except Exception:
                t.abort()          # an exception escaping data_received: asyncio drops the transport
            loop.idle()
            if c.ak is not None or c.active_subscriptions:
                return ('connection %d counts as %r (subscribed %r) although the store holds no usable secret for it (digest %s)'
                        % (q, c.ak, sorted(c.active_subscriptions), dg.hex()[:16]))
            if len(broker.split_frames(lt.out)[0]) != n0:
                return 'a PUBLISH from connection %d (identity %r without a usable secret) was delivered' % (q, ident)
            if not t.closing:
                return 'connection %d presented an OP_AUTH for %r (no usable secret) and was not disconnected' % (q, ident)
        return None
    finally:
        loop.shutdown()
        asyncio.set_event_loop(None)


def run(ctx, res):
    if ctx.scale == 1:
        for k in range(ctx.n(6, 60)):
            p = nosecret_probe(ctx.rng('nosecret%d' % k))
            res.evaluations += 1
            res.count('nosecret_probe')
            if p:
                res.failures.append(dict(signature='C02: no usable secret', what=p, case=dict(probe='nosecret', k=k)))
                break
    res.rule = RULE % ASPECTS
    B.run(ctx, res, 'C02', ASPECTS, PLAN)


def replay(ctx, case):
    if isinstance(case, dict) and case.get('probe') == 'nosecret':
        return nosecret_probe(ctx.rng('nosecret%d' % case['k']))
    return B.replay_case('C02', case)
