"""C02 — see DESIGN.md §6 and coq/Properties/C02.v"""
from props import brokerprops as B

LEVEL = 'proof'
ASSUMPTIONS = B.ASSUMPTIONS
ASPECTS = 'WFA'
RULE = ('random histories of 2-5 connections over two permission tables: per-connection scripts of AUTH (valid and ten invalid '
        'digest variants), SUBSCRIBE/UNSUBSCRIBE/PUBLISH (mostly permitted, some forbidden or spoofed), malformed frames; '
        'streams cut at random (whole, per frame, per byte, inside headers, pipelined bursts of 1-4 whole frames); some plans add valid re-authentication under another identity and a directed scenario (subscribe, re-authenticate, leave, then others publish on every channel ever held); a directed scenario in which the (synchronous) credential store changes between callbacks - a secret is rotated, channel lists change, an entry is removed - and fresh connections present the old and the new secret while earlier ones go on under the row they authenticated with; events interleaved at random with Lost, EOF, '
        'pause/resume-writing and clock ticks; non-trivial = at least one PUBLISH was delivered; distinct by event list. '
        'Compared with the Coq model on aspects %s; frame-normalised synchronous-store histories (one frame per read, or a read of several permitted frames) are '
        'also judged by harness/judge.py')
PLAN = [(30, 400, dict(scenario='store_change'), False), (20, 300, dict(scenario='reauth_stale'), True), (100, 2500, dict(profile='hostile'), False), (100, 2500, dict(profile='hostile', chunking='frames'), True), (50, 1000, dict(profile='mixed'), False)]


def run(ctx, res):
    res.rule = RULE % ASPECTS
    B.run(ctx, res, 'C02', ASPECTS, PLAN)


def replay(ctx, case):
    return B.replay_case('C02', case)
