"""C13 — clients come back after any connection loss and stop when told to."""
from props import clientprops as cp

LEVEL = cp.LEVEL
TRUSTED_EXTRA = ['harness/pytrans6.py: _Protocol.connection_lost and the start of the close() coroutine of hpfeeds/asyncio/client.py (and connectionLost of the Twisted glue) are translated into coq/AioGen.v on every run and proved to be the callback part of the model\'s do_lost (coq/AioGenEq.v, no axioms); the reconnect / close coroutines and the other clients are hand-written, tied by the correspondence check only']
ASSUMPTIONS = cp.ASSUMPTIONS


def run(ctx, res):
    cp.run('C13', ctx, res,
           'same histories as C11, each followed by an epilogue (every transport reports its loss, the loop runs, 3 s pass); close() '
           '/ stopService() / stop() at a random point of half of them. Compared with the model: connection attempts, pending '
           'attempt, closing flags, close() state after every event. Oracle: no attempt after close()/stopService()/stop(), close() '
           'and stopService() complete once the losses are reported, run() returns iff stop() was called, a session that was not '
           'closed is dialling again at the end. Non-trivial = data reached a connection')


def replay(ctx, case):
    return cp.replay('C13', ctx, case)
