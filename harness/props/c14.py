"""C14 — with an asynchronous credential store, pipelined frames wait for the verdict."""
from props import brokerprops as B

LEVEL = 'proof'
TRUSTED_EXTRA = ['harness/pytrans3.py: fail-closed translator of Server.subscribe/unsubscribe/publish (hpfeeds/broker/server.py) and Connection.is_closing/connection_lost/on_publish/on_subscribe/on_unsubscribe/authenticate/on_auth/on_auth_result/message_received/connection_made (hpfeeds/broker/connection.py) and BaseProtocol.message_received (hpfeeds/asyncio/protocol.py) -> coq/BrokerGen.v (regenerated on every run), with coq/PyBroker.v, its reading of the objects (a Connection = its index; self.server None / not in server.connections = one flag; sets and the subscriber list as lists; which metrics, log calls and attributes are skipped; where the ghost log of accepted actions is appended); each translated method is proved equal to the hand-written model in coq/BrokerGenEq.v and run_src = run in coq/BrokerGenRun.v; hand-written there: the frame loop of process_pending, the object before connection_made, which queued completion an event runs, transport callbacks, the deadline timer; skipped statements (metrics no property names, log, uid/peer/port, socket options, MeteredSocket) are assumed not to raise', 'FunctionalExtensionality.functional_extensionality_dep (Coq standard library) for the *_src_* theorems only']
ASSUMPTIONS = B.ASSUMPTIONS + [
    'lookups are futures the driver completes (ok / none / exception) in any order relative to other events, FIFO per connection',
    'the full "same outcome as a synchronous store consulted at completion" statement is checked by the correspondence with the '
    'model (whose completion path IS the synchronous authenticate, theorem C14_completion), not proved as one theorem']
ASPECTS = 'DFRAB'
RULE = ('histories with an asynchronous store: AUTH with requests pipelined behind it (same chunk and later chunks), lookups '
        'completed with the right row / another row / nothing / an exception at random points between other connections\' '
        'traffic, Lost/EOF while a lookup is pending, several lookups in flight; non-trivial = at least one PUBLISH delivered; '
        'compared with the Coq model on aspects %s; oracles: (1) no input is read from a connection while one of its lookups is '
        'pending, (2) an exception while applying a verdict does not leave the connection open, (3) an ended connection is forgotten, (4) no connection stays paused once no lookup is in flight, (5) a lookup that finds nothing or raises only refuses that connection (no delivery, no further lookup, no change of identity); plus a directed scenario: several connections authenticating as the same ident with lookups in flight at once, some leaving before the verdict')
PLAN = [(40, 800, dict(scenario='same_ident_inflight'), False), (150, 4000, dict(profile='mixed', async_=True), False),
        (80, 2000, dict(profile='mixed', async_=True, faults=0.1), False),
        (60, 1500, dict(profile='hostile', async_=True), False),
        (30, 500, dict(profile='benign', async_=True, nconn=4, nops=8), False)]


def async_oracle(case, d):
    if not case.get('async_'):
        return None
    prev = None
    gone = set()
    for k, rec in enumerate(d.trace):
        ev = rec['ev']
        where = 'event %d %r: ' % (k, ev[:2])
        if ev[0] == 'L' and rec['delivered']:
            gone.add(ev[1])
        if ev[0] == 'R' and rec['delivered'] and ev[1] in gone and prev is not None:
            s = rec['snap'][ev[1]]
            if s['active'] or s['registered'] or any(rec['snap'][q]['nframes'] != prev[q]['nframes'] for q in prev if q != ev[1]):
                return where + ('frames queued behind OP_AUTH by a peer that disconnected before the verdict took effect when '
                                'the lookup completed (subscribed=%s, listed under %s)' % (s['active'], s['registered']))
        if ev[0] == 'D' and rec['delivered'] and rec.get('pending_before', 0) > 0:
            changed = prev is not None and any(
                (rec['snap'][q]['nframes'], rec['snap'][q]['active'], rec['snap'][q]['registered']) !=
                (prev[q]['nframes'], prev[q]['active'], prev[q]['registered']) for q in prev if q in rec['snap'])
            if changed:
                return where + ('frames behind a pending OP_AUTH were acted on while its lookup was pending '
                                '(reading was not paused)')
        if ev[0] == 'R' and rec['delivered'] and rec['loop_errors'] > rec['errors_before']:
            s = rec['snap'].get(ev[1])
            if s and not s['closing']:
                return where + 'an exception while applying the verdict was swallowed: connection %d stays open' % ev[1]
        # (5) never after a failed lookup: a verdict "no such identity" must only refuse this connection - nothing it had
        # queued behind the OP_AUTH may reach anybody, start another lookup or change who it is
        if ev[0] == 'R' and rec['delivered'] and ev[2] in ('none', 'raise') and prev is not None and ev[1] in prev:
            q = ev[1]
            nothing = 'found nothing' if ev[2] == 'none' else 'raised'
            others = [r for r in prev if r != q and r in rec['snap'] and rec['snap'][r]['nframes'] != prev[r]['nframes']]
            if others:
                return where + ('after the lookup for connection %d %s, connection(s) %s were sent something: frames queued '
                                'behind the failed OP_AUTH took effect' % (q, nothing, others))
            if rec.get('pending_after', 0) > rec.get('pending_before', 0) - 1:
                return where + ('after the lookup for connection %d %s, another credential lookup was started for it: a frame '
                                'queued behind the failed OP_AUTH was acted on' % (q, nothing))
            if rec['snap'][q]['ak'] != prev[q]['ak'] or rec['snap'][q]['active'] != prev[q]['active']:
                return where + 'after the lookup for connection %d %s its identity / subscriptions changed' % (q, nothing)
            if not rec['snap'][q]['closing']:
                return where + 'after the lookup for connection %d %s it was not disconnected' % (q, nothing)
        # (4) neither acted on nor dropped: a connection that is open with reading paused although the store has no lookup
        # in flight any more (all completed, or cancelled by the broker) will never look at the frames behind its OP_AUTH
        for q, s in rec['snap'].items():
            if s['rpaused'] and not s['closing'] and not s['lost'] and s.get('store_pending') == 0:
                return where + ('connection %d is open with reading paused although no credential lookup is in flight: the frames '
                                'behind its OP_AUTH are neither acted on nor dropped' % q)
        prev = rec['snap']
    return None


def run(ctx, res):
    res.rule = RULE % ASPECTS
    B.run(ctx, res, 'C14', ASPECTS, PLAN, extra_oracle=async_oracle)


def replay(ctx, case):
    return B.replay_case('C14', case, async_oracle)
