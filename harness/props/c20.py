"""C20 — blocking write path: whole frames, FIFO, no loss under partial sends."""
import errno
import socket
import threading
import time

import common
import reactor_drv as rd

LEVEL = 'proof'
TRUSTED_EXTRA = ['harness/pytrans5.py: fail-closed translator of Reactor.write / _socket_write_ready / _outbox_read_ready (hpfeeds/blocking/reactor.py) -> coq/ReactorGen.v (regenerated on every run), with coq/PyReactor.v (what sock.send and get_nowait do on a call is an oracle argument: took n bytes / socket.error(errno) / queue.Empty); the translated methods are proved to be the steps of the model in coq/ReactorGenEq.v (rrun_src = rrun, no axioms); Queue.put / Queue.get (hpfeeds/blocking/queue.py) are translated into their sequences of primitive steps of the queue model; Reactor._select is translated too (descriptor lists as pairs, select() an oracle intersected with what was asked for); hand-written: WHAT select() reports (the socket writable when asked, the outbox readable iff it holds a frame, nothing to read on the socket during a write-path step), the atomicity of each primitive and the enabling conditions of the queue model, threads']
ASSUMPTIONS = ['thread interleaving is abstracted to atomic sub-steps (enqueue item / send wake byte; receive wake byte / dequeue); '
               'pre-emption inside queue.Queue.put or socket.send is the runtime\'s and is not modelled',
               'one connection: frames written while the reactor is between connections are outside the modelled write path']
IMPORTS = 'Bytes Run Reactor ClientRun'


def gen_events(rng):
    evs = []
    nput = 0
    for _ in range(rng.randint(4, 40)):
        r = rng.random()
        if r < 0.35:
            n = rng.choice([0, 1, 2, 5, 17, 64, 300])
            evs.append(('put', bytes((nput * 7 + i) % 251 for i in range(n))))
            nput += 1
        elif r < 0.5:
            evs.append(('block', rng.choice([errno.EAGAIN, errno.EWOULDBLOCK])))
        else:
            evs.append(('accept', rng.choice([1, 1, 2, 3, 7, 50, 1000])))
    for _ in range(rng.randint(0, 20)):
        evs.append(('accept', rng.choice([1, 5, 1000])))
    return evs


def stream_oracle(evs, sock_sent, buffer, outbox_items):
    want = b''.join(e[1] for e in evs if e[0] == 'put')
    have = bytes(sock_sent) + bytes(buffer) + b''.join(outbox_items)
    if not want.startswith(bytes(sock_sent)):
        n = next(i for i in range(len(sock_sent)) if i >= len(want) or sock_sent[i] != want[i])
        return 'bytes on the socket are not a prefix of the frames in put order (first difference at offset %d)' % n
    if have != want:
        return 'frames were lost, repeated or reordered: %d bytes accounted for, %d handed over' % (len(have), len(want))
    return None


def threaded_soak(rng, seconds=1.0):
    """real threads, real socketpair with a tiny send buffer: whole frames, per-producer FIFO"""
    from hpfeeds.blocking import reactor as R
    a, b = socket.socketpair()
    a.setsockopt(socket.SOL_SOCKET, socket.SO_SNDBUF, 4096)

    class Sock:
        def __init__(s, real):
            s.real = real

        def setsockopt(s, *x):
            pass

        def __getattr__(s, n):
            return getattr(s.real, n)
    r = R.ThreadReactor(rd.DummyProtocol, lambda: Sock(a))
    r.start()
    r.when_connected.wait(5)
    nprod, nframes = 3, 60
    frames = {p: [bytes([p]) + n.to_bytes(2, 'big') + bytes([(p * 31 + n) % 256]) * (n * 37 % 900) for n in range(nframes)] for p in range(nprod)}

    def producer(p):
        for f in frames[p]:
            r.write(len(f).to_bytes(4, 'big') + f)
    ths = [threading.Thread(target=producer, args=(p,)) for p in range(nprod)]
    for t in ths:
        t.start()
    total = sum(4 + len(f) for p in frames for f in frames[p])
    got = bytearray()
    b.settimeout(5)
    try:
        while len(got) < total:
            d = b.recv(65536)
            if not d:
                break
            got.extend(d)
    except socket.timeout:
        pass
    for t in ths:
        t.join()
    r.closing = True
    r.write(b'')          # wake the reactor so that it notices
    try:
        a.close()
    except Exception:
        pass
    r._thread.join(2)
    b.close()
    # parse length-prefixed frames
    off, seen = 0, {p: [] for p in range(nprod)}
    while off + 4 <= len(got):
        n = int.from_bytes(got[off:off + 4], 'big')
        f = bytes(got[off + 4:off + 4 + n])
        if len(f) < n or not f or f[0] >= nprod:
            return 'a frame arrived truncated or interleaved at offset %d' % off
        seen[f[0]].append(f)
        off += 4 + n
    for p in range(nprod):
        if seen[p] != frames[p]:
            return 'producer %d: %d of %d frames arrived, or out of order' % (p, len(seen[p]), len(frames[p]))
    return None


def run(ctx, res):
    res.rule = ('sequences of Reactor.write(frame) (frames of 0-300 bytes) and _select() passes with scripted send() outcomes (accept 1, '
                '2, 3, 7, 50 or all bytes; EAGAIN; EWOULDBLOCK) on the real Reactor with a scripted socket and the real wake-up Queue; '
                'after every step bytes-on-socket / unsent tail / queue length are compared with the Coq model, the stream with the '
                'frames in put order, and select()-readability of the queue with qsize(); plus probes of the real Queue (random put/get; a 700-item backlog put by a producer thread while the consumer is not looking, '
                'then drained only while select()-readable) and (thorough) '
                'a threaded soak over a socketpair with a 4 KiB send buffer; and every interleaving of the primitives (superclass put/get/empty, send/recv of the wake-up byte) of a few concurrent put()/get() calls on the real Queue, threads released one primitive at a time (harness/qsched.py: five scenarios, all schedules; plus two threads calling Reactor.write() with frames up to 40 KiB, all interleavings of their outbox operations, the socket must get A+B or B+A), each judged on the real object and compared with the Coq queue model run on the same primitive trace; plus a probe with the real run_forever on a scripted socket/select in which a protocol callback (on the reactor thread itself) writes frames after the write() of another thread had returned: one FIFO, the earlier write reaches the socket first; non-trivial = a partial send or would-block happened, or a queue schedule')
    cases = []
    if ctx.scale == 1:
        for k in range(ctx.n(5, 40)):
            p = rd.queue_probe(ctx.rng('q%d' % k))
            res.evaluations += 1
            res.count('queue_probe')
            if p:
                res.failures.append(dict(signature='C20: ' + p.split(' but ')[0], what=p, case=dict(probe='queue', k=k)))
        for k in range(ctx.n(40, 600)):
            p = rd.callback_write_probe(ctx.rng('cb%d' % k))
            res.evaluations += 1
            res.count('callback_write_probe')
            if p:
                res.failures.append(dict(signature='C20: callback write order', what=p, case=dict(probe='callback', k=k)))
                break
        for k in range(ctx.n(1, 3)):
            p = rd.queue_backlog_probe()
            res.evaluations += 1
            res.count('queue_backlog_probe')
            if p:
                res.failures.append(dict(signature='C20: queue backlog', what=p, case=dict(probe='backlog', k=k)))
        if ctx.tier == 'thorough':
            for k in range(3):
                p = threaded_soak(ctx.rng('soak%d' % k))
                res.evaluations += 1
                res.count('threaded_soak')
                if p:
                    res.failures.append(dict(signature='C20: threaded soak', what=p, case=dict(probe='soak', k=k)))
    for k in range(ctx.n(260, 5000)):
        rng = ctx.rng('c20/%d' % k)
        evs = gen_events(rng)
        rig = rd.Rig()
        try:
            obs = [rig.apply(e) for e in evs]
            items = list(rig.r._outbox.queue)
            orc = stream_oracle(evs, rig.sock.sent, rig.r._buffer, items)
            if rig.problems and not orc:
                orc = rig.problems[0]
        finally:
            rig.close()
        partial = any(e[0] == 'block' for e in evs) or any(e[0] == 'accept' and e[1] < 50 for e in evs)
        res.count('events', len(evs))
        cases.append(dict(input=dict(events=[[e[0], (common.jbytes(e[1]) if e[0] == 'put' else e[1])] for e in evs]),
                          expr=rd.coq_events(evs), impl=obs, oracle=orc,
                          fsig=('C20: ' + orc.split(' (')[0].split(':')[0]) if orc else None,
                          sig=repr(evs) if partial else None))
    # every interleaving of the sub-steps of a few put()/get() calls on the real Queue (harness/qsched.py): the property on
    # the real object, and the Coq model of the queue run on the very trace of primitives the real threads performed
    import qsched
    for r in qsched.explore(max_runs=ctx.n(400, 3000)):
        items, wake, got = r['impl']
        impl = [len(items), wake, len(got)] + list(items) + sorted(got)
        orc = r['failure']
        res.count('queue_schedules')
        res.count('queue_scenario:' + r['scenario'])
        cases.append(dict(input=dict(probe='schedule', scenario=r['scenario'], schedule=r['schedule'], primitives=r['trace']),
                          expr='run_queue [%s]' % '; '.join(r['model_events']), impl=('Q', impl), oracle=orc,
                          fsig=('C20: queue schedule: ' + orc.split(' (')[0][:80]) if orc else None,
                          sig=('Q', r['scenario'], tuple(r['schedule']))))

    # two producer threads calling Reactor.write(): every interleaving of their operations on the outbox (one put per frame
    # on the unchanged tree); the frames must reach the socket whole, once, A+B or B+A
    for r in qsched.explore_writes(max_runs=ctx.n(100, 400)):
        res.evaluations += 1
        res.count('writer_schedules')
        res.signatures.add(('W', r['scenario'], tuple(r['schedule'])))
        if r['failure']:
            res.failures.append(dict(signature='C20: writers: ' + r['failure'].split(';')[0][:60], what=r['failure'],
                                     case=dict(probe='writers', scenario=r['scenario'], schedule=r['schedule'])))
            break

    def cmp(c, m):
        if isinstance(c['impl'], tuple) and c['impl'][0] == 'Q':
            want = c['impl'][1]
            n, w, g = m[0], m[1], m[2]
            mm = [n, w, g] + m[3:3 + n] + sorted(m[3 + n:])
            return None if mm == want else ('wake-up queue after schedule %r of %r: the real queue holds items/wake-up bytes/handed out %r, '
                                             'the model %r' % (c['input']['schedule'], c['input']['scenario'], want, mm))
        return None if m == c['impl'] else 'reactor state fingerprints differ at step %d' % next(
            (i for i, (a, b) in enumerate(zip(c['impl'], m)) if a != b), -1)
    common.correspond(ctx, res, cases, IMPORTS,
                      compare=cmp,
                      sample=lambda c: dict(events=(c['input'].get('events') or c['input'].get('primitives'))[:10], oracle=c['oracle']))


def replay(ctx, case):
    if case.get('probe') == 'schedule':
        import qsched
        sc = next(x for x in qsched.SCENARIOS if x[0] == case['scenario'])
        s = qsched.Sched(sc[1], sc[2])
        try:
            out = s.run(case['schedule'])
            r = qsched.judge(sc, out, s)
            if out['deadlock']:
                s.unblock()
            return r
        finally:
            s.close()
    if case.get('probe') == 'writers':
        import qsched
        for r in qsched.explore_writes():
            if r['failure']:
                return r['failure']
        return None
    if case.get('probe') == 'callback':
        return rd.callback_write_probe(ctx.rng('cb%d' % case['k']))
    if case.get('probe') == 'queue':
        return rd.queue_probe(ctx.rng('q%d' % case['k']))
    if case.get('probe') == 'backlog':
        return rd.queue_backlog_probe()
    if case.get('probe') == 'soak':
        return threaded_soak(ctx.rng('soak'))
    evs = [(e[0], common.unjbytes(e[1]) if e[0] == 'put' else e[1]) for e in case['events']]
    rig = rd.Rig()
    try:
        for e in evs:
            rig.apply(e)
        return stream_oracle(evs, rig.sock.sent, rig.r._buffer, list(rig.r._outbox.queue)) or (rig.problems[0] if rig.problems else None)
    finally:
        rig.close()
