(* Stores.v — executable models of the credential stores (hpfeeds/broker/auth/*.py) and of the JSON
   user-file reload.  Libraries underneath (json, sqlite3, os.environ, str.upper) are modelled:
   a parsed JSON document is an AST, an SQLite table a list of rows in rowid order, the process
   environment a finite map, str.upper a function parameter. *)
From Coq Require Import ZArith List Bool String.
From Coq Require Import Strings.Byte.
From HP Require Import Bytes.
Import ListNotations.

Definition B (s : string) : bytes := list_byte_of_string s.
Global Arguments B : simpl never.

(* ---- JSON documents as json.load returns them -------------------------------------------------------- *)
Inductive json :=
| JAtom (a : bytes)                       (* any scalar, by its canonical JSON text *)
| JArr (l : list json)
| JObj (l : list (bytes * json)).         (* a dict: keys unique, insertion order *)

Fixpoint jassoc (k : bytes) (l : list (bytes * json)) : option json :=
  match l with [] => None | (k', v) :: t => if bytes_eqb k' k then Some v else jassoc k t end.
Definition jhas (k : bytes) (l : list (bytes * json)) : bool :=
  match jassoc k l with Some _ => true | None => false end.
Definition jis_list (k : bytes) (l : list (bytes * json)) : bool :=
  match jassoc k l with Some (JArr _) => true | _ => false end.

(* ---- json.Authenticator.load --------------------------------------------------------------------------- *)
Definition table := list (bytes * json).      (* Authenticator.db *)

(* the body of "for key, value in db.items()": False = one of the early returns was taken *)
Definition entry_ok (v : json) : bool :=
  match v with
  | JObj f =>
      jhas (B "owner") f && jhas (B "secret") f && jhas (B "pubchans") f && jhas (B "subchans") f &&
      jis_list (B "pubchans") f && jis_list (B "subchans") f
  | _ => false
  end.
Fixpoint check_all (es : table) : bool :=
  match es with [] => true | (_, v) :: t => if entry_ok v then check_all t else false end.
(* parsed = None: open()/json.load raised (missing file, truncated or non-JSON content) *)
Definition load (db : table) (parsed : option json) : table :=
  match parsed with
  | Some (JObj es) => if check_all es then es else db
  | _ => db
  end.

(* ---- what a store answers ---------------------------------------------------------------------------- *)
Record cred := mkcred { c_secret : bytes; c_owner : bytes; c_pub : list bytes; c_sub : list bytes }.

(* memory.Authenticator: creds.get(ident); falsy -> None *)
Fixpoint assocb {A} (k : bytes) (l : list (bytes * A)) : option A :=
  match l with [] => None | (k', v) :: t => if bytes_eqb k' k then Some v else assocb k t end.
Definition mem_get (creds : list (bytes * option cred)) (i : bytes) : option cred :=
  match assocb i creds with Some (Some c) => Some c | _ => None end.

(* sqlite.Authenticator: "select * from authkeys where ident=?" with a bound parameter; fetchone() *)
Record sqlrow := mksql { s_owner : bytes; s_ident : bytes; s_secret : bytes; s_pub : list bytes; s_sub : list bytes }.
Fixpoint sql_get (rows : list sqlrow) (i : bytes) : option cred :=
  match rows with
  | [] => None
  | r :: t => if bytes_eqb (s_ident r) i then Some (mkcred (s_secret r) (s_owner r) (s_pub r) (s_sub r))
              else sql_get t i
  end.

(* json.Authenticator.get_authkey on a loaded table *)
Fixpoint jstrs (l : list json) : list bytes :=
  match l with [] => [] | JAtom a :: t => a :: jstrs t | _ :: t => B "?" :: jstrs t end.
Definition jatom (j : option json) : bytes := match j with Some (JAtom a) => a | _ => B "?" end.
Definition jlist (j : option json) : list bytes := match j with Some (JArr l) => jstrs l | _ => [] end.
Definition json_get (db : table) (i : bytes) : option cred :=
  match jassoc i db with
  | Some (JObj f) =>
      match f with
      | [] => None                                  (* "if not res": an empty mapping is falsy *)
      | _ => Some (mkcred (jatom (jassoc (B "secret") f)) (jatom (jassoc (B "owner") f))
                          (jlist (jassoc (B "pubchans") f)) (jlist (jassoc (B "subchans") f)))
      end
  | _ => None
  end.

(* env.Authenticator *)
Section Env.
Variable upper : bytes -> bytes.               (* str.upper *)
Definition env_key (i f : bytes) : bytes := B "HPFEEDS_" ++ upper i ++ B "_" ++ f.
(* str.split(',') *)
Fixpoint split_go (l cur : bytes) : list bytes :=
  match l with
  | [] => [rev cur]
  | c :: t => if Byte.eqb c "," then rev cur :: split_go t [] else split_go t (c :: cur)
  end.
Definition split_commas (l : bytes) : list bytes := split_go l [].
Definition nonempty (l : list bytes) : list bytes := filter (fun x => negb (bytes_eqb x [])) l.
Definition env_list (env : list (bytes * bytes)) (i f : bytes) : list bytes :=
  nonempty (split_commas (match assocb (env_key i f) env with Some v => v | None => [] end)).
Definition env_get (env : list (bytes * bytes)) (i : bytes) : option cred :=
  match assocb (env_key i (B "SECRET")) env with
  | Some s => if bytes_eqb s [] then None else
      Some (mkcred s (match assocb (env_key i (B "OWNER")) env with Some o => o | None => i end)
                   (env_list env i (B "PUBCHANS")) (env_list env i (B "SUBCHANS")))
  | None => None
  end.
End Env.

(* multi.Authenticator: the first member with a truthy answer *)
Fixpoint multi_get (stack : list (bytes -> option cred)) (i : bytes) : option cred :=
  match stack with
  | [] => None
  | s :: t => match s i with Some c => Some c | None => multi_get t i end
  end.
