(* Broker.v — executable model of hpfeeds/broker/server.py + hpfeeds/broker/connection.py +
   hpfeeds/asyncio/protocol.py (BaseProtocol) on top of Wire.v, driven by asyncio's callbacks.
   Definitions only; the proofs are in BrokerInv.v / BrokerRefine.v / ...

   One event = one callback asyncio makes (they are atomic: the broker is single-threaded), so
   "every schedule" = "every list of events".  The transport contract (which callbacks asyncio can make
   in which transport state) is part of [step]: an event the transport would not deliver is ignored.

   Python                                            | here
   --------------------------------------------------+---------------------------------------------
   Connection.connection_made                        | do_connect
   BaseProtocol.data_received / process_pending      | do_data / pp (fuel = S (length buffer))
   Connection.message_received + BaseProtocol's      | handle
   Connection.on_auth / authenticate / on_auth_result| on_auth / authenticate / do_lookup_done
   Connection.on_publish + Server.publish            | on_publish / publish / deliver
   Connection.on_subscribe + Server.subscribe        | on_subscribe / sub
   Connection.on_unsubscribe + Server.unsubscribe    | on_unsubscribe / unsub
   Connection.connection_lost                        | lostp (body), do_lost (callback)
   Connection.pause_writing / resume_writing + timer | do_pausew / do_resumew / do_tick
   an exception escaping a callback                  | Raise s  (state as mutated at the raise)

   Ghost (not in the code): alog, the log of accepted actions, newest first. *)
From Coq Require Import ZArith List Bool Arith.
From Coq Require Import Strings.Byte.
From HP Require Import Bytes Utf8 Sha1 Wire ParamsOK.
Import ListNotations.
Open Scope Z_scope.

Definition ident := bytes.
Definition chan := bytes.
Record row := mkrow { r_secret : bytes; r_pub : list chan; r_sub : list chan }.
Inductive lookup := LNone | LRow (r : row).              (* falsy / a credentials row *)
Inductive lres := RLook (l : lookup) | RRaise.           (* completion of an asynchronous lookup *)
(* what the broker writes; OP_ERROR texts are not modelled (no property mentions them) *)
Inductive frame := FInfo (name n : bytes) | FError | FPub (i : ident) (c : chan) (d : bytes).
Inductive action :=
| AConn (q : nat) (n : bytes)
| AAuth (q : nat) (i : ident) (r : row) (dg : bytes)
| ASub (q : nat) (c : chan) | AUnsub (q : nat) (c : chan)
| APub (p : nat) (i : ident) (c : chan) (d : bytes)
| AClose (q : nat) | AGone (q : nat).

Record conn := mkconn {
  made : bool;
  copen : bool;
  lost : bool;
  aborted : bool;
  nonce : bytes;
  ak : option ident;
  pubchans : list chan;
  subchans : list chan;
  active : list chan;
  buf : bytes;
  closing : bool;
  rpaused : bool;
  wpaused : bool;
  pending : list (ident * bytes);
  timer : option nat;
  out : list frame }.
Definition set_made (v : bool) (x : conn) : conn := mkconn v (copen x) (lost x) (aborted x) (nonce x) (ak x) (pubchans x) (subchans x) (active x) (buf x) (closing x) (rpaused x) (wpaused x) (pending x) (timer x) (out x).
Definition set_copen (v : bool) (x : conn) : conn := mkconn (made x) v (lost x) (aborted x) (nonce x) (ak x) (pubchans x) (subchans x) (active x) (buf x) (closing x) (rpaused x) (wpaused x) (pending x) (timer x) (out x).
Definition set_lost (v : bool) (x : conn) : conn := mkconn (made x) (copen x) v (aborted x) (nonce x) (ak x) (pubchans x) (subchans x) (active x) (buf x) (closing x) (rpaused x) (wpaused x) (pending x) (timer x) (out x).
Definition set_aborted (v : bool) (x : conn) : conn := mkconn (made x) (copen x) (lost x) v (nonce x) (ak x) (pubchans x) (subchans x) (active x) (buf x) (closing x) (rpaused x) (wpaused x) (pending x) (timer x) (out x).
Definition set_nonce (v : bytes) (x : conn) : conn := mkconn (made x) (copen x) (lost x) (aborted x) v (ak x) (pubchans x) (subchans x) (active x) (buf x) (closing x) (rpaused x) (wpaused x) (pending x) (timer x) (out x).
Definition set_ak (v : option ident) (x : conn) : conn := mkconn (made x) (copen x) (lost x) (aborted x) (nonce x) v (pubchans x) (subchans x) (active x) (buf x) (closing x) (rpaused x) (wpaused x) (pending x) (timer x) (out x).
Definition set_pubchans (v : list chan) (x : conn) : conn := mkconn (made x) (copen x) (lost x) (aborted x) (nonce x) (ak x) v (subchans x) (active x) (buf x) (closing x) (rpaused x) (wpaused x) (pending x) (timer x) (out x).
Definition set_subchans (v : list chan) (x : conn) : conn := mkconn (made x) (copen x) (lost x) (aborted x) (nonce x) (ak x) (pubchans x) v (active x) (buf x) (closing x) (rpaused x) (wpaused x) (pending x) (timer x) (out x).
Definition set_active (v : list chan) (x : conn) : conn := mkconn (made x) (copen x) (lost x) (aborted x) (nonce x) (ak x) (pubchans x) (subchans x) v (buf x) (closing x) (rpaused x) (wpaused x) (pending x) (timer x) (out x).
Definition set_buf (v : bytes) (x : conn) : conn := mkconn (made x) (copen x) (lost x) (aborted x) (nonce x) (ak x) (pubchans x) (subchans x) (active x) v (closing x) (rpaused x) (wpaused x) (pending x) (timer x) (out x).
Definition set_closing (v : bool) (x : conn) : conn := mkconn (made x) (copen x) (lost x) (aborted x) (nonce x) (ak x) (pubchans x) (subchans x) (active x) (buf x) v (rpaused x) (wpaused x) (pending x) (timer x) (out x).
Definition set_rpaused (v : bool) (x : conn) : conn := mkconn (made x) (copen x) (lost x) (aborted x) (nonce x) (ak x) (pubchans x) (subchans x) (active x) (buf x) (closing x) v (wpaused x) (pending x) (timer x) (out x).
Definition set_wpaused (v : bool) (x : conn) : conn := mkconn (made x) (copen x) (lost x) (aborted x) (nonce x) (ak x) (pubchans x) (subchans x) (active x) (buf x) (closing x) (rpaused x) v (pending x) (timer x) (out x).
Definition set_pending (v : list (ident * bytes)) (x : conn) : conn := mkconn (made x) (copen x) (lost x) (aborted x) (nonce x) (ak x) (pubchans x) (subchans x) (active x) (buf x) (closing x) (rpaused x) (wpaused x) v (timer x) (out x).
Definition set_timer (v : option nat) (x : conn) : conn := mkconn (made x) (copen x) (lost x) (aborted x) (nonce x) (ak x) (pubchans x) (subchans x) (active x) (buf x) (closing x) (rpaused x) (wpaused x) (pending x) v (out x).
Definition set_out (v : list frame) (x : conn) : conn := mkconn (made x) (copen x) (lost x) (aborted x) (nonce x) (ak x) (pubchans x) (subchans x) (active x) (buf x) (closing x) (rpaused x) (wpaused x) (pending x) (timer x) v.

Record state := mkstate {
  conns : nat -> conn;
  subs : chan -> list nat;
  ids : list nat;
  g_conn : Z;
  g_made : Z;
  g_lost : Z;
  g_subs : list (ident * chan * Z);
  alog : list action }.
Definition set_conns (v : nat -> conn) (x : state) : state := mkstate v (subs x) (ids x) (g_conn x) (g_made x) (g_lost x) (g_subs x) (alog x).
Definition set_subs (v : chan -> list nat) (x : state) : state := mkstate (conns x) v (ids x) (g_conn x) (g_made x) (g_lost x) (g_subs x) (alog x).
Definition set_ids (v : list nat) (x : state) : state := mkstate (conns x) (subs x) v (g_conn x) (g_made x) (g_lost x) (g_subs x) (alog x).
Definition set_g_conn (v : Z) (x : state) : state := mkstate (conns x) (subs x) (ids x) v (g_made x) (g_lost x) (g_subs x) (alog x).
Definition set_g_made (v : Z) (x : state) : state := mkstate (conns x) (subs x) (ids x) (g_conn x) v (g_lost x) (g_subs x) (alog x).
Definition set_g_lost (v : Z) (x : state) : state := mkstate (conns x) (subs x) (ids x) (g_conn x) (g_made x) v (g_subs x) (alog x).
Definition set_g_subs (v : list (ident * chan * Z)) (x : state) : state := mkstate (conns x) (subs x) (ids x) (g_conn x) (g_made x) (g_lost x) v (alog x).
Definition set_alog (v : list action) (x : state) : state := mkstate (conns x) (subs x) (ids x) (g_conn x) (g_made x) (g_lost x) (g_subs x) v.

Definition conn0 : conn :=
  mkconn false false false false [] None [] [] [] [] false false false [] None [].
Definition state0 : state := mkstate (fun _ => conn0) (fun _ => []) [] 0 0 0 [] [].

Definition upd {A} (f : nat -> A) (k : nat) (v : A) : nat -> A :=
  fun x => if Nat.eqb x k then v else f x.
Definition updc {A} (f : chan -> A) (k : chan) (v : A) : chan -> A :=
  fun x => if bytes_eqb x k then v else f x.
Definition modc (q : nat) (f : conn -> conn) (s : state) : state :=
  set_conns (upd (conns s) q (f (conns s q))) s.
Definition logA (a : action) (s : state) : state := set_alog (a :: alog s) s.

Definition memc (c : chan) (l : list chan) : bool := existsb (bytes_eqb c) l.
Definition memn (x : nat) (l : list nat) : bool := existsb (Nat.eqb x) l.
Fixpoint rmc (c : chan) (l : list chan) : list chan :=       (* set.remove / list.remove: first occurrence *)
  match l with [] => [] | y :: t => if bytes_eqb y c then t else y :: rmc c t end.
Fixpoint rmn (x : nat) (l : list nat) : list nat :=
  match l with [] => [] | y :: t => if Nat.eqb y x then t else y :: rmn x t end.

(* labelled gauge (prometheus _metrics dict): label -> value, created on first use *)
Definition lbl_eqb (a b : ident * chan) : bool := bytes_eqb (fst a) (fst b) && bytes_eqb (snd a) (snd b).
Fixpoint gadd (k : ident * chan) (d : Z) (g : list (ident * chan * Z)) : list (ident * chan * Z) :=
  match g with
  | [] => [(k, d)]
  | (k', v) :: t => if lbl_eqb k' k then (k', v + d) :: t else (k', v) :: gadd k d t
  end.

Inductive res := Ok (s : state) | Raise (s : state) | Fuel (s : state).
Definition st (r : res) : state := match r with Ok s | Raise s | Fuel s => s end.

Definition akl (c : conn) : ident := match ak c with Some i => i | None => [] end.

(* ---- transport primitives ------------------------------------------------------------------ *)
(* transport.write: recorded while the transport still takes bytes (also after close(), until it is
   reported lost — the closing window of C04); dropped after an abort or the loss *)
Definition wr (q : nat) (f : frame) (s : state) : state :=
  let c := conns s q in
  if lost c || aborted c then s else modc q (set_out (f :: out c)) s.
(* transport.close() *)
Definition cl (q : nat) (s : state) : state :=
  if closing (conns s q) then s else logA (AClose q) (modc q (set_closing true) s).
Definition pause_r (q : nat) (s : state) : state :=
  let c := conns s q in if closing c || rpaused c then s else modc q (set_rpaused true) s.
Definition resume_r (q : nat) (s : state) : state :=
  let c := conns s q in if closing c || negb (rpaused c) then s else modc q (set_rpaused false) s.
(* self.error(...); self.transport.close() *)
Definition bad (q : nat) (s : state) : state := cl q (wr q FError s).

(* ---- Server.subscribe / unsubscribe / connection_lost / publish ---------------------------- *)
Definition sub_raw (q : nat) (c : chan) (s : state) : state :=
  let cq := conns s q in
  if memc c (active cq) then s else
  set_g_subs (gadd (akl cq, c) 1 (g_subs s))
    (set_subs (updc (subs s) c (q :: subs s c)) (modc q (set_active (c :: active cq)) s)).
Definition sub (q : nat) (c : chan) (s : state) : state := logA (ASub q c) (sub_raw q c s).
Definition unsub_raw (q : nat) (c : chan) (s : state) : state :=
  let cq := conns s q in
  if memc c (active cq) then
    set_g_subs (gadd (akl cq, c) (-1) (g_subs s))
      (set_subs (updc (subs s) c (rmn q (subs s c))) (modc q (set_active (rmc c (active cq))) s))
  else s.
Definition unsub (q : nat) (c : chan) (s : state) : state := logA (AUnsub q c) (unsub_raw q c s).

(* body of Connection.connection_lost when the connection is still registered *)
Definition lostp (q : nat) (s : state) : state :=
  let s1 := fold_left (fun s c => unsub_raw q c s) (active (conns s q)) s in
  logA (AGone q)
    (set_g_conn (g_conn s1 - 1) (set_g_lost (g_lost s1 + 1) (modc q (set_copen false) s1))).

Definition deliver (i : ident) (c : chan) (d : bytes) (r : res) (dest : nat) : res :=
  match r with
  | Ok s =>
      let cd := conns s dest in
      if closing cd then (if copen cd then Ok (lostp dest s) else Raise s)
      else Ok (wr dest (FPub i c d) s)
  | _ => r
  end.
Definition publish (p : nat) (c : chan) (d : bytes) (s : state) : res :=
  let i := akl (conns s p) in
  fold_left (deliver i c d) (nodup Nat.eq_dec (subs s c)) (Ok (logA (APub p i c d) s)).

Section Broker.
Variable bname : bytes.              (* Server.name *)
Variable store : ident -> lookup.    (* Server.get_authkey for a synchronous store *)
Variable async_store : bool.         (* get_authkey returns an awaitable; LookupDone carries the result *)

(* ---- Connection.* -------------------------------------------------------------------------- *)
(* authenticate(): a connection that authenticates again under ANOTHER identity keeps its subscriptions; from then
   on they are counted under the new identity (SUBSCRIPTIONS.labels(old, chan).dec(); .labels(new, chan).inc()) *)
Definition regauge_g (q : nat) (i : ident) (s : state) : list (ident * chan * Z) :=
  match ak (conns s q) with
  | Some old =>
      if bytes_eqb old i then g_subs s
      else fold_left (fun g c => gadd (i, c) 1 (gadd (old, c) (-1) g)) (active (conns s q)) (g_subs s)
  | None => g_subs s
  end.
Definition regauge (q : nat) (i : ident) (s : state) : state := set_g_subs (regauge_g q i s) s.

Definition authenticate (k : state -> res) (q : nat) (i : ident) (dg : bytes) (l : lookup) (s : state) : res :=
  match l with
  | LNone => Ok (bad q s)
  | LRow r =>
      if bytes_eqb (sha1 (nonce (conns s q) ++ r_secret r)) dg then
        let s1 := logA (AAuth q i r dg)
                    (modc q (fun c => set_subchans (r_sub r) (set_pubchans (r_pub r) (set_ak (Some i) c))) (regauge q i s)) in
        match k s1 with                      (* self.process_pending() *)
        | Ok s2 => Ok (match pending (conns s2 q) with      (* if not self._lookups_pending: *)
                       | [] => resume_r q s2                (*     self.transport.resume_reading() *)
                       | _ => s2 end)
        | r' => r'
        end
      else Ok (bad q s)
  end.

Definition on_auth (k : state -> res) (q : nat) (i : ident) (dg : bytes) (s : state) : res * bool :=
  if negb (copen (conns s q)) then (Raise s, false)          (* self.server is None *)
  else if async_store then
    (Ok (pause_r q (modc q (fun c => set_pending (pending c ++ [(i, dg)]) c) s)), true)
  else (authenticate k q i dg (store i) s, false).

Definition on_publish (q : nat) (i : ident) (c : chan) (d : bytes) (s : state) : res :=
  let cq := conns s q in
  match ak cq with
  | Some me =>
      if negb (bytes_eqb i me) then Ok (bad q s)
      else if negb (memc c (pubchans cq)) then Ok (bad q s)
      else if negb (copen cq) then Raise s
      else publish q c d s
  | None => Ok (bad q s)
  end.
Definition on_subscribe (q : nat) (c : chan) (s : state) : res :=
  let cq := conns s q in
  if negb (memc c (subchans cq)) then Ok (bad q s)
  else if negb (copen cq) then Raise s
  else Ok (sub q c s).
Definition on_unsubscribe (q : nat) (c : chan) (s : state) : res :=
  if negb (copen (conns s q)) then Raise s else Ok (unsub q c s).

(* Connection.message_received + BaseProtocol.message_received; the bool is the truthy return that
   makes process_pending break *)
Definition handle (k : state -> res) (q : nat) (op : Z) (body : bytes) (s : state) : res * bool :=
  let cq := conns s q in
  if op =? 2 then
    match readauth body with
    | Some (i, dg) => on_auth k q i dg s
    | None => (Raise s, false)
    end
  else match ak cq with
  | None => (Ok (bad q s), false)                            (* "First message was not AUTH" *)
  | Some _ =>
      if op =? 3 then
        match readpublish body with
        | Some (i, c, d) => (on_publish q i c d s, false)
        | None => (Raise s, false) end
      else if op =? 4 then
        match readsubscribe body with
        | Some (_, c) => (on_subscribe q c s, false)
        | None => (Raise s, false) end
      else if op =? 5 then
        match readunsubscribe body with
        | Some (_, c) => (on_unsubscribe q c s, false)
        | None => (Raise s, false) end
      else (Raise s, false)                                   (* OP_ERROR / OP_INFO: NotImplementedError *)
  end.

(* BaseProtocol.process_pending *)
Fixpoint pp (fuel : nat) (q : nat) (s : state) : res :=
  match fuel with
  | O => Fuel s
  | S f =>
      match next limitP (buf (conns s q)) with
      | NeedMore => Ok s
      | Bad _ => Ok (cl q s)
      | Ready op body rest =>
          let s1 := modc q (set_buf rest) s in
          match handle (pp f q) q op body s1 with
          | (Ok s2, true) => Ok s2
          | (Ok s2, false) => pp f q s2
          | (r, _) => r
          end
      end
  end.
Definition ppq (q : nat) (s : state) : res := pp (S (length (buf (conns s q)))) q s.

(* ---- the callbacks asyncio makes ------------------------------------------------------------ *)
Inductive event :=
| Connect (q : nat) (n : bytes)
| Data (q : nat) (chunk : bytes)
| PeerClosed (q : nat)
| Lost (q : nat)
| LookupDone (q : nat) (r : lres)
| PauseW (q : nat) | ResumeW (q : nat)
| Tick.

Definition abort (q : nat) (s : state) : state := cl q (modc q (set_aborted true) s).

Definition do_connect (q : nat) (n : bytes) (s : state) : state :=
  if made (conns s q) then s else
  let c := set_nonce n (set_copen true (set_made true conn0)) in
  wr q (FInfo bname n)
    (logA (AConn q n)
      (set_ids (q :: ids s) (set_g_made (g_made s + 1) (set_g_conn (g_conn s + 1)
        (set_conns (upd (conns s) q c) s))))).

Definition can_read (c : conn) : bool := made c && negb (closing c) && negb (rpaused c) && negb (lost c).

Definition do_data (q : nat) (chunk : bytes) (s : state) : state :=
  let c := conns s q in
  if can_read c then
    match ppq q (modc q (set_buf (buf c ++ chunk)) s) with
    | Ok s2 => s2
    | Raise s2 => abort q s2                  (* asyncio: _fatal_error -> _force_close *)
    | Fuel s2 => s2
    end
  else s.

Definition do_peer_closed (q : nat) (s : state) : state :=
  if can_read (conns s q) then cl q s else s.   (* eof_received() returns None -> transport.close() *)

Definition do_lost (q : nat) (s : state) : state :=
  let c := conns s q in
  if made c && negb (lost c) then
    let s1 := cl q s in
    let s2 := if copen (conns s1 q) then lostp q s1 else s1 in   (* second call raises; swallowed *)
    modc q (set_lost true) s2
  else s.

Definition do_lookup_done (q : nat) (r : lres) (s : state) : state :=
  if negb (async_store && made (conns s q)) then s else   (* only an asynchronous store completes lookups *)
  match pending (conns s q) with
  | [] => s
  | (i, dg) :: rest =>
      let s1 := modc q (set_pending rest) s in
      match r with
      | RRaise => bad q s1
      | RLook l =>
          match authenticate (ppq q) q i dg l s1 with
          | Raise s2 => cl q s2          (* on_auth_result: except Exception: ...; self.transport.close() *)
          | r' => st r'
          end
      end
  end.

Definition grace : nat := 60.
Definition do_pausew (q : nat) (s : state) : state :=
  let c := conns s q in
  if made c && negb (lost c) && negb (wpaused c) then
    modc q (fun c => set_timer (Some grace) (set_wpaused true c)) s
  else s.
Definition do_resumew (q : nat) (s : state) : state :=
  let c := conns s q in
  if made c && negb (lost c) && wpaused c then
    modc q (fun c => set_timer None (set_wpaused false c)) s
  else s.
Definition tick1 (s : state) (q : nat) : state :=
  match timer (conns s q) with
  | None => s
  | Some n =>
      if (n <=? 1)%nat then bad q (modc q (set_timer None) s)
      else modc q (set_timer (Some (n - 1)%nat)) s
  end.
Definition do_tick (s : state) : state := fold_left tick1 (rev (ids s)) s.

Definition step (s : state) (e : event) : state :=
  match e with
  | Connect q n => do_connect q n s
  | Data q ch => do_data q ch s
  | PeerClosed q => do_peer_closed q s
  | Lost q => do_lost q s
  | LookupDone q r => do_lookup_done q r s
  | PauseW q => do_pausew q s
  | ResumeW q => do_resumew q s
  | Tick => do_tick s
  end.
Definition run (h : list event) : state := fold_left step h state0.
End Broker.

(* the rows a fixed synchronous store vouches for *)
Definition srow (st : ident -> lookup) : ident -> row -> Prop := fun i r => st i = LRow r.
