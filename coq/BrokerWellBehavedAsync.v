(* BrokerWellBehavedAsync.v — C10 / C14 with an asynchronous credential store: the standard client (one OP_AUTH, requests
   pipelined behind it and sent afterwards, all permitted) is never disconnected, for every history, whatever the other
   connections do; and the requests parked behind its OP_AUTH are all accepted when the right verdict arrives. *)
From Coq Require Import ZArith List Bool Arith Lia.
From Coq Require Import Strings.Byte.
From HP Require Import Bytes Utf8 Sha1 Wire WireFacts ParamsOK Broker BrokerSpec BrokerLemmas BrokerInv BrokerStep BrokerTrace
                       BrokerLocal BrokerTimer BrokerProps BrokerProps2 BrokerBenign BrokerBlame BrokerWellBehaved.
Import ListNotations.

Section WBA.
Variable bname : bytes.
Variable store : ident -> lookup.
Variable async_store : bool.
Notation Good := (Good (srow store) async_store).
Notation pp := (pp store async_store).
Notation ppq := (ppq store async_store).
Notation step := (step bname store async_store).
Notation run := (run bname store async_store).

(* requests other than OP_AUTH, all permitted under the identity me with stored row r *)
Fixpoint wb_plain (me : ident) (r : row) (fs : list (Z * bytes)) : Prop :=
  match fs with
  | [] => True
  | (op, body) :: t =>
      (if op =? 3 then exists c d, readpublish body = Some (me, c, d) /\ In c (r_pub r)
       else if op =? 4 then exists i c, readsubscribe body = Some (i, c) /\ In c (r_sub r)
       else if op =? 5 then exists i c, readunsubscribe body = Some (i, c)
       else False) /\ wb_plain me r t
  end.

(* process_pending over permitted non-AUTH requests (any kind of store: they do not consult it) *)
Lemma pp_plain q : forall fs fuel s me r rest,
  Good s -> healthy s q -> agrees s q (Some (me, r)) ->
  buf (conns s q) = concat (map enc fs) ++ rest -> next limitP rest = NeedMore -> Forall wf fs ->
  wb_plain me r fs -> (length (buf (conns s q)) < fuel)%nat ->
  exists s', pp fuel q s = Ok s' /\ Good s' /\ healthy s' q /\ agrees s' q (Some (me, r)) /\ buf (conns s' q) = rest /\
             nonce (conns s' q) = nonce (conns s q) /\ timer (conns s' q) = timer (conns s q) /\
             lost (conns s' q) = lost (conns s q).
Proof.
  induction fs as [|[op body] fs IH]; intros fuel s me r rest G H A Hb Hr Hw W Hf.
  - cbn in Hb. destruct fuel as [|f]; [lia|]. cbn [Broker.pp]. rewrite Hb, Hr. exists s. rewrite Hb. auto 10.
  - destruct fuel as [|f]; [lia|]. cbn [Broker.pp].
    inversion Hw as [|x l Hw1 Hw2]; subst. destruct Hw1 as (Ho & Hl & Hl2). cbn [fst snd] in *.
    cbn [map concat] in Hb. change (enc (op, body)) with (hdr op body) in Hb. rewrite <- app_assoc in Hb. rewrite Hb.
    rewrite (next_hdr limitP op body (concat (map enc fs) ++ rest) Ho Hl Hl2).
    remember (modc q (set_buf (concat (map enc fs) ++ rest)) s) as s1 eqn:Es1.
    assert (G1 : Good s1) by (rewrite Es1; apply modc_inert_good; [exact G|intros c; reflexivity]).
    assert (C1 : conns s1 q = set_buf (concat (map enc fs) ++ rest) (conns s q)) by (rewrite Es1; cbn; apply upd_same).
    clear Es1.
    assert (H1 : healthy s1 q) by (destruct H as (X & Y & Z); unfold healthy; rewrite C1; auto).
    assert (A1 : agrees s1 q (Some (me, r))) by (unfold agrees in *; rewrite C1; exact A).
    assert (B1 : buf (conns s1 q) = concat (map enc fs) ++ rest) by (rewrite C1; reflexivity).
    assert (N1 : nonce (conns s1 q) = nonce (conns s q)) by (rewrite C1; reflexivity).
    assert (T1 : timer (conns s1 q) = timer (conns s q)) by (rewrite C1; reflexivity).
    assert (L1 : lost (conns s1 q) = lost (conns s q)) by (rewrite C1; reflexivity).
    assert (F1 : (length (buf (conns s1 q)) < f)%nat).
    { rewrite B1. rewrite Hb in Hf. rewrite app_length in Hf. pose proof (hdr_length op body) as HL. pose proof (zlen_nonneg body). unfold zlen in *. lia. }
    cbn [wb_plain] in W. destruct W as (Wop & Wt).
    assert (CONT : forall s2, Good s2 -> keeps q s1 s2 ->
              exists s', pp f q s2 = Ok s' /\ Good s' /\ healthy s' q /\ agrees s' q (Some (me, r)) /\ buf (conns s' q) = rest /\
                         nonce (conns s' q) = nonce (conns s q) /\ timer (conns s' q) = timer (conns s q) /\
                         lost (conns s' q) = lost (conns s q)).
    { intros s2 G2 K2. pose proof (healthy_keeps _ _ _ K2 H1) as H2. pose proof (agrees_keeps q s1 s2 _ K2 A1) as A2.
      destruct K2 as [C2 _ _]. injection C2 as E1 E2 E3 E4 E5 E6 E7.
      assert (B2 : buf (conns s2 q) = concat (map enc fs) ++ rest) by congruence.
      assert (F2 : (length (buf (conns s2 q)) < f)%nat) by (replace (buf (conns s2 q)) with (buf (conns s1 q)) by congruence; exact F1).
      destruct (IH f s2 me r rest G2 H2 A2 B2 Hr Hw2 Wt F2) as (s' & P & G' & H' & A' & B' & N' & T' & L').
      exists s'. split; [exact P|]. split; [exact G'|]. split; [exact H'|]. split; [exact A'|]. split; [exact B'|].
      repeat split; congruence. }
    unfold Broker.handle.
    assert (E2 : (op =? 2) = false).
    { destruct (op =? 3) eqn:X3; [lia|]. destruct (op =? 4) eqn:X4; [lia|]. destruct (op =? 5) eqn:X5; [lia|contradiction]. }
    rewrite E2. destruct A1 as (Ak & Ap & As). rewrite Ak.
    destruct H1 as (Hm1 & Ho1 & Hc1).
    destruct (op =? 3) eqn:E3.
    + destruct Wop as (c & d & Rp & Hc). rewrite Rp.
      destruct (permitted_publish store async_store q me c d s1 G1 Ak ltac:(rewrite Ap; exact Hc) Ho1) as (s2 & P2 & _ & G2).
      rewrite P2. pose proof (publish_keeps q q c d s1) as K2.
      unfold on_publish in P2. rewrite Ak, bytes_eqb_refl in P2. cbn [negb] in P2.
      assert (Hm : memc c (pubchans (conns s1 q)) = true) by (apply memc_In; rewrite Ap; exact Hc).
      rewrite Hm, Ho1 in P2. cbn [negb] in P2. rewrite P2 in K2. cbn [st] in K2.
      apply (CONT s2 G2 K2).
    + destruct (op =? 4) eqn:E4.
      * destruct Wop as (i & c & Rp & Hc). rewrite Rp.
        destruct (permitted_subscribe q c s1 ltac:(rewrite As; exact Hc) Ho1) as (P2 & _). rewrite P2.
        assert (G2 : Good (sub q c s1)).
        { pose proof (on_subscribe_good store async_store q c s1 G1 ltac:(rewrite Ak; discriminate)) as X. rewrite P2 in X. exact X. }
        apply (CONT (sub q c s1) G2 (sub_keeps q q c s1)).
      * destruct (op =? 5) eqn:E5; [|contradiction].
        destruct Wop as (i & c & Rp). rewrite Rp.
        destruct (any_unsubscribe q c s1 Ho1) as (P2 & _). rewrite P2.
        assert (G2 : Good (unsub q c s1)).
        { pose proof (on_unsubscribe_good store async_store q c s1 G1 ltac:(rewrite Ak; discriminate)) as X. rewrite P2 in X. exact X. }
        apply (CONT (unsub q c s1) G2 (unsub_keeps q q c s1)).
Qed.
End WBA.

Section Async.
Variable bname : bytes.
Variable store : ident -> lookup.
Notation Good := (Good (srow store) true).
Notation step := (step bname store true).
Notation run := (run bname store true).

(* one read of permitted non-AUTH requests by an authenticated connection *)
Lemma do_data_plain q s me r chunk fs rest : Good s -> healthy s q -> agrees s q (Some (me, r)) ->
  buf (conns s q) ++ chunk = concat (map enc fs) ++ rest -> next limitP rest = NeedMore -> Forall wf fs -> wb_plain me r fs ->
  healthy (do_data store true q chunk s) q /\ timer (conns (do_data store true q chunk s) q) = timer (conns s q).
Proof.
  intros G H A Hb Hr Hw W. unfold do_data.
  destruct (can_read (conns s q)) eqn:CR; [|split; [exact H|reflexivity]].
  remember (modc q (set_buf (buf (conns s q) ++ chunk)) s) as s0 eqn:Es0.
  assert (G0 : Good s0) by (rewrite Es0; apply modc_inert_good; [exact G|intros c; reflexivity]).
  assert (C0 : conns s0 q = set_buf (buf (conns s q) ++ chunk) (conns s q)) by (rewrite Es0; cbn; apply upd_same).
  clear Es0.
  assert (H0 : healthy s0 q) by (destruct H as (X & Y & Z); unfold healthy; rewrite C0; auto).
  assert (A0 : agrees s0 q (Some (me, r))) by (unfold agrees in *; rewrite C0; exact A).
  assert (B0 : buf (conns s0 q) = concat (map enc fs) ++ rest) by (rewrite C0; exact Hb).
  unfold ppq.
  destruct (pp_plain store true q fs (S (length (buf (conns s0 q)))) s0 me r rest G0 H0 A0 B0 Hr Hw W ltac:(lia))
    as (s' & P & G' & H' & _ & _ & _ & T' & _).
  rewrite P. split; [exact H'|]. rewrite T', C0. reflexivity.
Qed.

(* a read that starts with a well-formed OP_AUTH: the lookup is started, reading paused, everything behind it stays
   buffered; nothing else about the connection changes *)
Lemma data_auth_parks q s chunk body i dg tailb : healthy s q -> can_read (conns s q) = true ->
  buf (conns s q) ++ chunk = hdr 2 body ++ tailb -> wf (2, body) -> readauth body = Some (i, dg) ->
  let s' := do_data store true q chunk s in
  healthy s' q /\ buf (conns s' q) = tailb /\ pending (conns s' q) = pending (conns s q) ++ [(i, dg)] /\
  timer (conns s' q) = timer (conns s q) /\ nonce (conns s' q) = nonce (conns s q) /\
  (ak (conns s' q), pubchans (conns s' q), subchans (conns s' q)) = (ak (conns s q), pubchans (conns s q), subchans (conns s q)).
Proof.
  intros (Hm & Ho & Hc) CR Hb (Hop & Hl & Hl2) Ra. cbv zeta. unfold do_data. rewrite CR. unfold ppq.
  cbn [Broker.pp]. cbn [conns modc set_conns]. rewrite upd_same. cbn [buf set_buf]. rewrite Hb.
  cbn [fst snd] in *. rewrite (next_hdr limitP 2 body tailb Hop Hl Hl2).
  unfold Broker.handle. change (2 =? 2) with true. cbv iota. rewrite Ra. unfold on_auth.
  cbn [conns modc set_conns]. rewrite !upd_same. cbn [copen set_buf]. rewrite Ho. cbn [negb].
  unfold pause_r. cbn [conns modc set_conns]. rewrite !upd_same. cbn [closing rpaused set_buf set_pending].
  rewrite Hc. unfold can_read in CR. rewrite Hm, Hc in CR. cbn in CR.
  destruct (rpaused (conns s q)) eqn:Rp; [discriminate|]. cbn [orb].
  unfold healthy. cbn. rewrite !upd_same. cbn. auto 10.
Qed.

(* the verdict for the connection's oldest pending OP_AUTH is the row r whose secret the digest was made with: it is
   authenticated as (i, r) and every permitted request parked behind the OP_AUTH is accepted, in order *)
Lemma lookup_done_wb q s i r post rest more : Good s -> healthy s q ->
  pending (conns s q) = (i, sha1 (nonce (conns s q) ++ r_secret r)) :: more ->
  buf (conns s q) = concat (map enc post) ++ rest -> next limitP rest = NeedMore -> Forall wf post -> wb_plain i r post ->
  let s' := do_lookup_done store true q (RLook (LRow r)) s in
  healthy s' q /\ agrees s' q (Some (i, r)) /\ buf (conns s' q) = rest /\ timer (conns s' q) = timer (conns s q).
Proof.
  intros G H Hp Hb Hr Hw W. cbv zeta. destruct H as (Hm & Ho & Hc).
  rewrite (completion_is_sync_authenticate store true q (LRow r) s i _ more eq_refl Hm Hp).
  remember (modc q (set_pending more) s) as s1 eqn:Es1.
  assert (G1 : Good s1) by (rewrite Es1; apply modc_inert_good; [exact G|intros c; reflexivity]).
  assert (C1 : conns s1 q = set_pending more (conns s q)) by (rewrite Es1; cbn; apply upd_same).
  clear Es1.
  unfold authenticate. rewrite C1. cbn [nonce set_pending]. rewrite bytes_eqb_refl. cbv zeta.
  match goal with |- context [Broker.ppq _ _ q ?X] => set (s1a := X) end.
  assert (G1a : Good s1a).
  { apply (auth_set_good store true).
    - apply regauge_good. exact G1.
    - cbn [regauge conns set_g_subs]. rewrite C1. exact Hm.
    - cbn [regauge conns set_g_subs]. rewrite C1. reflexivity.
    - intros X. discriminate X. }
  assert (C1a : conns s1a q = set_subchans (r_sub r) (set_pubchans (r_pub r) (set_ak (Some i) (conns s1 q)))).
  { unfold s1a. cbn. apply upd_same. }
  assert (H1a : healthy s1a q) by (unfold healthy; rewrite C1a, C1; cbn; auto).
  assert (A1a : agrees s1a q (Some (i, r))) by (unfold agrees; rewrite C1a; auto).
  assert (B1a : buf (conns s1a q) = concat (map enc post) ++ rest) by (rewrite C1a, C1; exact Hb).
  unfold Broker.ppq.
  destruct (pp_plain store true q post (S (length (buf (conns s1a q)))) s1a i r rest G1a H1a A1a B1a Hr Hw W ltac:(lia))
    as (s2 & P2 & G2 & H2 & A2 & B2 & _ & T2 & _).
  rewrite P2.
  set (s3 := match pending (conns s2 q) with [] => resume_r q s2 | _ :: _ => s2 end).
  assert (K3 : keeps q s2 s3) by (unfold s3; destruct (pending (conns s2 q)); [apply resume_r_keeps|apply keeps_refl]).
  cbn [st]. split; [apply (healthy_keeps _ _ _ K3 H2)|]. split; [apply (agrees_keeps _ _ _ _ K3 A2)|].
  destruct K3 as [C3 _ _]. injection C3 as E1 E2 E3 E4 E5 E6 E7.
  split; [congruence|]. rewrite E6, T2, C1a, C1. reflexivity.
Qed.

(* ---- whole histories ---- *)
Definition wb_event_a (q : nat) (s : state) (e : event) : Prop :=
  ~ own q s e \/ (exists n, e = Connect q n) \/
  (exists chunk me r fs rest, e = Data q chunk /\ agrees s q (Some (me, r)) /\
     buf (conns s q) ++ chunk = concat (map enc fs) ++ rest /\ next limitP rest = NeedMore /\ Forall wf fs /\ wb_plain me r fs) \/
  (exists chunk body i dg tailb, e = Data q chunk /\ buf (conns s q) ++ chunk = hdr 2 body ++ tailb /\ wf (2, body) /\
     readauth body = Some (i, dg)) \/
  (exists i r post rest more, e = LookupDone q (RLook (LRow r)) /\
     pending (conns s q) = (i, sha1 (nonce (conns s q) ++ r_secret r)) :: more /\
     buf (conns s q) = concat (map enc post) ++ rest /\ next limitP rest = NeedMore /\ Forall wf post /\ wb_plain i r post).
Fixpoint wb_hist_a (q : nat) (s : state) (h : list event) : Prop :=
  match h with
  | [] => True
  | e :: t => wb_event_a q s e /\ wb_hist_a q (step s e) t
  end.

Lemma wb_step_a q s e : Good s -> calm s q -> wb_event_a q s e -> calm (step s e) q.
Proof.
  intros G (Hc & Ht & Ho) [N|[(n & ->)|[(chunk & me & r & fs & rest & -> & A & Hb & Hr & Hw & W)|
                           [(chunk & body & i & dg & tailb & -> & Hb & Hw & Ra)|(i & r & post & rest & more & -> & Hp & Hb & Hr & Hw & W)]]]].
  - destruct (foreign_step bname store true q s e G N) as [S _ _ L]. injection S as E1 E2 E3 E4 E5 E6 E7 E8 E9 E10 E11 E12.
    destruct (L Hc) as (X & Y & Z). unfold calm. rewrite X, E12, E1, Y. auto.
  - cbn [Broker.step]. unfold do_connect. destruct (made (conns s q)) eqn:Hm; [unfold calm; auto|].
    unfold calm, wr. cbn. rewrite !upd_same. cbn. rewrite !upd_same. cbn. auto.
  - cbn [Broker.step]. destruct (made (conns s q)) eqn:Hm.
    + assert (H : healthy s q) by (unfold healthy; auto).
      destruct (do_data_plain q s me r chunk fs rest G H A Hb Hr Hw W) as ((X & Y & Z) & T). unfold calm. rewrite Z, T. auto.
    + unfold do_data, can_read. rewrite Hm. cbn. unfold calm. split; [exact Hc|]. split; [exact Ht|]. rewrite Hm. discriminate.
  - cbn [Broker.step]. destruct (can_read (conns s q)) eqn:CR.
    + assert (Hm : made (conns s q) = true) by (unfold can_read in CR; destruct (made (conns s q)); [reflexivity|discriminate]).
      assert (H : healthy s q) by (unfold healthy; auto).
      destruct (data_auth_parks q s chunk body i dg tailb H CR Hb Hw Ra) as ((X & Y & Z) & _ & _ & T & _). unfold calm. rewrite Z, T. auto.
    + unfold do_data. rewrite CR. unfold calm. auto.
  - cbn [Broker.step]. destruct (made (conns s q)) eqn:Hm.
    + assert (H : healthy s q) by (unfold healthy; auto).
      destruct (lookup_done_wb q s i r post rest more G H Hp Hb Hr Hw W) as ((X & Y & Z) & _ & _ & T). unfold calm. rewrite Z, T. auto.
    + unfold do_lookup_done. rewrite Hm. cbn. unfold calm. split; [exact Hc|]. split; [exact Ht|]. rewrite Hm. discriminate.
Qed.

Lemma wb_steps_a q h : forall s, Good s -> calm s q -> wb_hist_a q s h -> calm (fold_left step h s) q.
Proof.
  induction h as [|e h IH]; intros s G C W; cbn; [exact C|]. cbn [wb_hist_a] in W. destruct W as [We Wt].
  apply IH; [apply (step_good bname store true); exact G|apply wb_step_a; assumption|exact Wt].
Qed.

(* asynchronous store, every history: a connection whose own events are its connection, reads that start with a
   well-formed OP_AUTH, the verdicts that match the digests it sent, and permitted requests - parked behind an OP_AUTH or
   sent afterwards, in any chunking - is never disconnected, whatever the other connections do *)
Theorem well_behaved_never_closed_async h q : wb_hist_a q state0 h ->
  closing (conns (run h) q) = false /\ (made (conns (run h) q) = true -> copen (conns (run h) q) = true).
Proof.
  intros W. destruct (wb_steps_a q h state0 (good_state0 bname store true) ltac:(unfold calm; cbn; auto) W) as (A & _ & B). auto.
Qed.
End Async.

(* non-vacuity: connection 0 sends OP_AUTH with a SUBSCRIBE and a PUBLISH pipelined behind it; while its lookup is in
   flight connection 1 is dropped for an undersized frame and the clock ticks; the verdict arrives; it publishes again *)
Module AsyncExample.
Definition ra : row := mkrow [x6b] [[x78]] [[x78]].
Definition st (i : ident) : lookup := LNone.
Definition n0 : bytes := [x01; x02; x03; x04].
Definition auth_body : bytes := x01 :: x61 :: sha1 (n0 ++ [x6b]).
Definition post : list (Z * bytes) := [(4%Z, [x01; x61; x78]); (3%Z, [x01; x61; x01; x78; x2a])].
Definition later : list (Z * bytes) := [(3%Z, [x01; x61; x01; x78; x2b; x2c])].
Definition h : list event :=
  [Connect 0 n0; Data 0 (hdr 2 auth_body ++ concat (map enc post));
   Connect 1 [x05; x06; x07; x08]; Data 1 [x00; x00; x00; x00; x00]; Tick;
   LookupDone 0 (RLook (LRow ra)); Data 0 (concat (map enc later)); Lost 1].

Lemma wf_all : wf (2%Z, auth_body) /\ Forall wf post /\ Forall wf later.
Proof. split; [|split]; repeat constructor; vm_compute; discriminate. Qed.

Example wb_async_example : wb_hist_a [] st 0 state0 h /\
  closing (conns (run [] st true h) 1) = true /\
  length (pubs (out (conns (run [] st true h) 0))) = 2%nat.
Proof.
  split; [|split; vm_compute; reflexivity].
  unfold h. cbn [wb_hist_a].
  split; [right; left; eexists; reflexivity|].
  split.
  { right; right; right; left. exists (hdr 2 auth_body ++ concat (map enc post)), auth_body, [x61], (sha1 (n0 ++ [x6b])), (concat (map enc post)).
    split; [reflexivity|]. split; [vm_compute; reflexivity|]. split; [apply wf_all|]. vm_compute. reflexivity. }
  split; [left; intros [H|[H1 H2]]; discriminate|].
  split; [left; intros [H|[H1 H2]]; discriminate|].
  split; [left; intros [H|[H1 H2]]; [discriminate|apply H2; vm_compute; reflexivity]|].
  split.
  { right; right; right; right. exists [x61], ra, post, [], []. split; [reflexivity|]. split; [vm_compute; reflexivity|].
    split; [vm_compute; reflexivity|]. split; [reflexivity|]. split; [apply wf_all|].
    unfold post. cbn [wb_plain Z.eqb Pos.eqb]. split; [exists [x61], [x78]; split; [vm_compute; reflexivity|left; reflexivity]|].
    split; [|exact I]. exists [x78], [x2a]. split; [vm_compute; reflexivity|left; reflexivity]. }
  split.
  { right; right; left. exists (concat (map enc later)), [x61], ra, later, []. split; [reflexivity|].
    split; [vm_compute; repeat split|]. split; [vm_compute; reflexivity|]. split; [reflexivity|]. split; [apply wf_all|].
    unfold later. cbn [wb_plain Z.eqb Pos.eqb]. split; [|exact I]. exists [x78], [x2b; x2c]. split; [vm_compute; reflexivity|left; reflexivity]. }
  split; [left; intros [H|[H1 H2]]; discriminate|exact I].
Qed.
End AsyncExample.
