(* Bytes.v — bytes as [list Byte.byte], byte<->Z, Python's struct '!i' (signed big-endian 32 bit). *)
From Coq Require Import ZArith NArith List Lia Bool ZifyBool ZifyN.
From Coq Require Import Strings.Byte.
Import ListNotations.
Ltac Zify.zify_post_hook ::= Z.to_euclidean_division_equations.
Open Scope Z_scope.

(* keep simpl/cbn/injection from unfolding binary arithmetic (lia then finds no witness) *)
Global Arguments Z.add : simpl never.
Global Arguments Z.sub : simpl never.
Global Arguments Z.mul : simpl never.
Global Arguments Z.div : simpl never.
Global Arguments Z.modulo : simpl never.
Global Arguments Z.of_nat : simpl never.
Global Arguments Z.to_nat : simpl never.
Global Arguments Z.ltb : simpl never.
Global Arguments Z.leb : simpl never.
Global Arguments Z.eqb : simpl never.
Global Arguments Z.geb : simpl never.

Definition bytes := list byte.
Definition zlen {A} (l : list A) : Z := Z.of_nat (length l).

Definition bz (b : byte) : Z := Z.of_N (Byte.to_N b).
Definition zb (z : Z) : byte :=
  match Byte.of_N (Z.to_N (z mod 256)) with Some b => b | None => x00 end.

Definition byte_eqb (a b : byte) : bool := Byte.eqb a b.
Fixpoint bytes_eqb (a b : bytes) : bool :=
  match a, b with
  | [], [] => true
  | x :: a', y :: b' => Byte.eqb x y && bytes_eqb a' b'
  | _, _ => false
  end.

(* struct.pack('!i', z) for 0 <= z < 2^31 (the only range the builders use) *)
Definition be32 (z : Z) : bytes :=
  [zb (z / 16777216); zb (z / 65536); zb (z / 256); zb z].
(* struct.unpack('!i', b0 b1 b2 b3): signed *)
Definition de32 (b0 b1 b2 b3 : byte) : Z :=
  let u := bz b0 * 16777216 + bz b1 * 65536 + bz b2 * 256 + bz b3 in
  if u >=? 2147483648 then u - 4294967296 else u.

Lemma zlen_nonneg {A} (l : list A) : 0 <= zlen l.
Proof. unfold zlen. lia. Qed.
Lemma zlen_app {A} (a b : list A) : zlen (a ++ b) = zlen a + zlen b.
Proof. unfold zlen. rewrite app_length. lia. Qed.
Lemma zlen_cons {A} (x : A) l : zlen (x :: l) = 1 + zlen l.
Proof. unfold zlen. cbn [length]. lia. Qed.
Lemma zlen_nil {A} : zlen (@nil A) = 0.
Proof. reflexivity. Qed.

Lemma bz_range b : 0 <= bz b < 256.
Proof. unfold bz. pose proof (Byte.to_N_bounded b). lia. Qed.

Lemma bz_zb z : 0 <= z < 256 -> bz (zb z) = z.
Proof.
  intros H. unfold bz, zb. rewrite Z.mod_small by lia.
  destruct (Byte.of_N (Z.to_N z)) eqn:E.
  - apply Byte.to_of_N in E. rewrite E. lia.
  - exfalso. pose proof (Byte.of_N_None_iff (Z.to_N z)) as [HH _]. specialize (HH E). lia.
Qed.

Lemma bz_zb_mod z : bz (zb z) = z mod 256.
Proof.
  assert (0 <= z mod 256 < 256) by (apply Z.mod_pos_bound; lia).
  replace (zb z) with (zb (z mod 256)).
  - apply bz_zb; lia.
  - unfold zb. rewrite Z.mod_mod by lia. reflexivity.
Qed.

Lemma zb_bz b : zb (bz b) = b.
Proof.
  unfold zb, bz. pose proof (Byte.to_N_bounded b). rewrite Z.mod_small by lia.
  rewrite N2Z.id. rewrite Byte.of_to_N. reflexivity.
Qed.

Lemma bz_inj a b : bz a = bz b -> a = b.
Proof. intros H. rewrite <- (zb_bz a), <- (zb_bz b), H. reflexivity. Qed.

Lemma de32_be32 z : 0 <= z < 2147483648 ->
  de32 (zb (z / 16777216)) (zb (z / 65536)) (zb (z / 256)) (zb z) = z.
Proof.
  intros H. unfold de32. cbv zeta. rewrite !bz_zb_mod.
  destruct (_ >=? _) eqn:G; lia.
Qed.

Lemma de32_range a b c d : -2147483648 <= de32 a b c d < 2147483648.
Proof.
  unfold de32. cbv zeta.
  pose proof (bz_range a); pose proof (bz_range b); pose proof (bz_range c); pose proof (bz_range d).
  destruct (_ >=? _) eqn:G; lia.
Qed.

Lemma bytes_eqb_eq a b : bytes_eqb a b = true <-> a = b.
Proof.
  revert b; induction a as [|x a IH]; intros [|y b]; cbn; split; intros H; try congruence; try reflexivity.
  - apply andb_true_iff in H. destruct H as [H1 H2]. apply Byte.byte_dec_bl in H1. apply IH in H2. congruence.
  - inversion H; subst. apply andb_true_iff. split; [apply Byte.byte_dec_lb; reflexivity | apply IH; reflexivity].
Qed.

Lemma bytes_eqb_refl a : bytes_eqb a a = true.
Proof. apply bytes_eqb_eq. reflexivity. Qed.

Lemma bytes_eqb_neq a b : bytes_eqb a b = false <-> a <> b.
Proof. rewrite <- bytes_eqb_eq. destruct (bytes_eqb a b); split; congruence. Qed.

Definition bytes_eq_dec (a b : bytes) : {a = b} + {a <> b}.
Proof. destruct (bytes_eqb a b) eqn:E; [left; apply bytes_eqb_eq; exact E | right; apply bytes_eqb_neq; exact E]. Defined.

(* firstn/skipn helpers *)
Lemma firstn_app_exact {A} (a b : list A) : firstn (length a) (a ++ b) = a.
Proof. rewrite firstn_app, Nat.sub_diag, firstn_all. cbn. apply app_nil_r. Qed.
Lemma skipn_app_exact {A} (a b : list A) : skipn (length a) (a ++ b) = b.
Proof. rewrite skipn_app, Nat.sub_diag, skipn_all. reflexivity. Qed.
