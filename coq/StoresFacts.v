(* StoresFacts.v — C17 / C18 facts about Stores.v. *)
From Coq Require Import ZArith List Bool String Lia.
From Coq Require Import Strings.Byte.
From HP Require Import Bytes Stores.
Import ListNotations.

(* ---- C18 -------------------------------------------------------------------------------------------------- *)
Definition valid_table (es : table) : Prop := Forall (fun kv => entry_ok (snd kv) = true) es.

Lemma check_all_spec es : check_all es = true <-> valid_table es.
Proof.
  unfold valid_table. induction es as [|[k v] t IH]; cbn; [split; [constructor|reflexivity]|].
  destruct (entry_ok v) eqn:E.
  - rewrite IH. split; [intros H; constructor; [exact E|exact H]|intros H; inversion H; assumption].
  - split; [discriminate|intros H; inversion H; cbn in *; congruence].
Qed.

(* what an entry must look like *)
Lemma entry_ok_spec v : entry_ok v = true <->
  exists f, v = JObj f /\ jhas (B "owner") f = true /\ jhas (B "secret") f = true /\
            (exists l, jassoc (B "pubchans") f = Some (JArr l)) /\ (exists l, jassoc (B "subchans") f = Some (JArr l)).
Proof.
  destruct v as [a|l|f]; cbn; try (split; [discriminate|intros (f' & H & _); discriminate]).
  rewrite !andb_true_iff. unfold jis_list. split.
  - intros (((((A & B0) & C) & D) & E) & F). exists f. split; [reflexivity|]. split; [exact A|]. split; [exact B0|].
    destruct (jassoc (B "pubchans") f) as [[| l1 |]|]; try discriminate.
    destruct (jassoc (B "subchans") f) as [[| l2 |]|]; try discriminate. split; eexists; reflexivity.
  - intros (f' & E & A & B0 & (l1 & P) & (l2 & S)). inversion E; subst f'. unfold jhas in *. rewrite P, S. repeat split; auto.
Qed.

(* all-or-nothing, as a decision rule *)
Theorem load_rule db p :
  (exists es, p = Some (JObj es) /\ valid_table es /\ load db p = es) \/
  ((forall es, p = Some (JObj es) -> ~ valid_table es) /\ load db p = db).
Proof.
  unfold load. destruct p as [[a|l|es]|]; try (right; split; [intros es' H; discriminate|reflexivity]).
  destruct (check_all es) eqn:E.
  - left. exists es. split; [reflexivity|]. split; [apply check_all_spec; exact E|reflexivity].
  - right. split; [|reflexivity]. intros es' H. inversion H; subst. intro V. apply check_all_spec in V. congruence.
Qed.

(* a sequence of reloads: the database is the last acceptable file, or the initial one *)
Definition accepted (p : option json) : option table :=
  match p with Some (JObj es) => if check_all es then Some es else None | _ => None end.
Fixpoint last_accepted (ps : list (option json)) : option table :=
  match ps with
  | [] => None
  | p :: t => match last_accepted t with Some es => Some es | None => accepted p end
  end.
Lemma load_accepted db p : load db p = match accepted p with Some es => es | None => db end.
Proof. unfold load, accepted. destruct p as [[a|l|es]|]; try reflexivity. destruct (check_all es); reflexivity. Qed.
Theorem load_sequence ps : forall db0,
  fold_left load ps db0 = match last_accepted ps with Some es => es | None => db0 end.
Proof.
  induction ps as [|p ps IH]; intros db0; [reflexivity|].
  cbn [fold_left last_accepted]. rewrite IH, load_accepted.
  destruct (last_accepted ps); [reflexivity|]. destruct (accepted p); reflexivity.
Qed.
Lemma accepted_valid p es : accepted p = Some es -> p = Some (JObj es) /\ valid_table es.
Proof.
  unfold accepted. destruct p as [[a|l|es']|]; try discriminate. destruct (check_all es') eqn:E; [|discriminate].
  intros H; inversion H; subst. split; [reflexivity|apply check_all_spec; exact E].
Qed.

(* ---- C17 -------------------------------------------------------------------------------------------------- *)
Lemma assocb_in {A} k (v : A) l : NoDup (map fst l) -> In (k, v) l -> assocb k l = Some v.
Proof.
  induction l as [|[k' v'] t IH]; cbn; [tauto|]. intros ND [E|H].
  - inversion E; subst. rewrite bytes_eqb_refl. reflexivity.
  - inversion ND as [|? ? Hn ND']; subst. destruct (bytes_eqb k' k) eqn:E.
    + apply bytes_eqb_eq in E. subst. exfalso. apply Hn. apply in_map_iff. exists (k, v). auto.
    + apply IH; assumption.
Qed.
Lemma assocb_notin {A} k (l : list (bytes * A)) : ~ In k (map fst l) -> assocb k l = None.
Proof.
  induction l as [|[k' v'] t IH]; cbn; [reflexivity|]. intros H.
  destruct (bytes_eqb k' k) eqn:E; [apply bytes_eqb_eq in E; subst; tauto|]. apply IH. tauto.
Qed.
Lemma assocb_some {A} k (v : A) l : assocb k l = Some v -> In (k, v) l.
Proof.
  induction l as [|[k' v'] t IH]; cbn; [discriminate|]. destruct (bytes_eqb k' k) eqn:E.
  - apply bytes_eqb_eq in E. subst. intros H; inversion H; subst. left. reflexivity.
  - intros H. right. apply IH. exact H.
Qed.

Theorem mem_hit creds i c : NoDup (map fst creds) -> In (i, Some c) creds -> mem_get creds i = Some c.
Proof. intros ND H. unfold mem_get. rewrite (assocb_in i (Some c) creds ND H). reflexivity. Qed.
Theorem mem_miss creds i : ~ In i (map fst creds) -> mem_get creds i = None.
Proof. intros H. unfold mem_get. rewrite (assocb_notin i creds H). reflexivity. Qed.
Theorem mem_exact creds i c : mem_get creds i = Some c -> In (i, Some c) creds.
Proof. unfold mem_get. destruct (assocb i creds) as [[c'|]|] eqn:E; try discriminate. intros H; inversion H; subst. apply assocb_some. exact E. Qed.

Definition cred_of (r : sqlrow) : cred := mkcred (s_secret r) (s_owner r) (s_pub r) (s_sub r).
Theorem sql_exact rows i c : sql_get rows i = Some c -> exists r, In r rows /\ s_ident r = i /\ c = cred_of r.
Proof.
  induction rows as [|r t IH]; cbn; [discriminate|]. destruct (bytes_eqb (s_ident r) i) eqn:E.
  - apply bytes_eqb_eq in E. intros H; inversion H; subst. exists r. auto.
  - intros H. destruct (IH H) as (r' & A & B0 & C). exists r'. auto.
Qed.
Theorem sql_hit rows r : NoDup (map s_ident rows) -> In r rows -> sql_get rows (s_ident r) = Some (cred_of r).
Proof.
  induction rows as [|r' t IH]; cbn; [tauto|]. intros ND [E|H].
  - subst. rewrite bytes_eqb_refl. reflexivity.
  - inversion ND as [|? ? Hn ND']; subst. destruct (bytes_eqb (s_ident r') (s_ident r)) eqn:E.
    + apply bytes_eqb_eq in E. exfalso. apply Hn. rewrite E. apply in_map. exact H.
    + apply IH; assumption.
Qed.
Theorem sql_miss rows i : ~ In i (map s_ident rows) -> sql_get rows i = None.
Proof.
  induction rows as [|r t IH]; cbn; [reflexivity|]. intros H.
  destruct (bytes_eqb (s_ident r) i) eqn:E; [apply bytes_eqb_eq in E; tauto|]. apply IH. tauto.
Qed.

Theorem multi_first stack i c : multi_get stack i = Some c ->
  exists pre s post, stack = pre ++ s :: post /\ s i = Some c /\ Forall (fun s' => s' i = None) pre.
Proof.
  induction stack as [|s t IH]; cbn; [discriminate|]. destruct (s i) as [c'|] eqn:E.
  - intros H; inversion H; subst. exists [], s, t. split; [reflexivity|]. split; [exact E|constructor].
  - intros H. destruct (IH H) as (pre & s' & post & A & B0 & C). exists (s :: pre), s', post.
    split; [rewrite A; reflexivity|]. split; [exact B0|constructor; assumption].
Qed.
Theorem multi_miss stack i : Forall (fun s => s i = None) stack -> multi_get stack i = None.
Proof. induction 1 as [|s t H _ IH]; cbn; [reflexivity|]. rewrite H. exact IH. Qed.

(* ---- environment store --------------------------------------------------------------------------------- *)
Section EnvFacts.
Variable upper : bytes -> bytes.
Notation env_key := (env_key upper).
Notation env_get := (env_get upper).
Notation env_list := (env_list upper).

Definition FIELDS : list bytes := [B "SECRET"; B "OWNER"; B "SUBCHANS"; B "PUBCHANS"].

Lemma app_inv_len {A} (a b x y : list A) : (a ++ x = b ++ y)%list -> List.length x = List.length y -> a = b /\ x = y.
Proof.
  revert b. induction a as [|h a IH]; intros b H L.
  - destruct b as [|h' b]; [auto|]. cbn in H. subst x. cbn in L. rewrite app_length in L. lia.
  - destruct b as [|h' b].
    + cbn in H. subst y. cbn in L. rewrite app_length in L. lia.
    + cbn in H. inversion H; subst. destruct (IH b H2 L) as [-> ->]. auto.
Qed.
Lemma last_eq {A} (a b : list A) (x y : A) : (a ++ [x] = b ++ [y])%list -> x = y.
Proof. intros H. apply app_inv_len in H; [|reflexivity]. destruct H as [_ H]. inversion H. reflexivity. Qed.

(* the variable name determines the (upper-cased) identity and the field: lookups for one identity can
   never read a variable that belongs to another *)
Theorem env_key_injective i1 f1 i2 f2 : In f1 FIELDS -> In f2 FIELDS ->
  env_key i1 f1 = env_key i2 f2 -> upper i1 = upper i2 /\ f1 = f2.
Proof.
  intros H1 H2 E. unfold Stores.env_key in E. apply app_inv_head in E.
  assert (Hf : f1 = f2).
  { unfold FIELDS in H1, H2. cbn in H1, H2.
    destruct H1 as [<-|[<-|[<-|[<-|[]]]]]; destruct H2 as [<-|[<-|[<-|[<-|[]]]]]; try reflexivity; exfalso;
      rewrite !app_assoc in E;
      match type of E with
      | ?a ++ B ?s = ?b ++ B ?t => 
          let s' := eval vm_compute in (removelast (B s)) in let x := eval vm_compute in (last (B s) x00) in
          let t' := eval vm_compute in (removelast (B t)) in let y := eval vm_compute in (last (B t) x00) in
          change (B s) with (s' ++ [x]) in E; change (B t) with (t' ++ [y]) in E;
          rewrite !app_assoc in E; try (apply last_eq in E; discriminate)
      end.
    - (* SUBCHANS vs PUBCHANS: same length *)
      rewrite <- !app_assoc in E. apply app_inv_len in E; [|reflexivity]. destruct E as [_ E]. discriminate.
    - rewrite <- !app_assoc in E. apply app_inv_len in E; [|reflexivity]. destruct E as [_ E]. discriminate. }
  subst f2. rewrite !app_assoc in E. apply app_inv_tail in E. apply app_inv_tail in E. auto.
Qed.

(* the answer for an identity depends only on its own four variables *)
Theorem env_get_own (env env' : list (bytes * bytes)) i :
  (forall f, In f FIELDS -> assocb (env_key i f) env' = assocb (env_key i f) env) -> env_get env' i = env_get env i.
Proof.
  intros H. unfold Stores.env_get, Stores.env_list.
  rewrite (H (B "SECRET")), (H (B "OWNER")), (H (B "PUBCHANS")), (H (B "SUBCHANS")); try reflexivity;
    unfold FIELDS; cbn; auto.
Qed.

Lemma nonempty_spec l x : In x (nonempty l) <-> In x l /\ x <> [].
Proof.
  unfold nonempty. rewrite filter_In. split; intros [A B0]; split; try exact A.
  - intro; subst. discriminate.
  - destruct x; [congruence|reflexivity].
Qed.
(* an identity configured without channels is granted none, and nobody is ever granted the channel '' *)
Theorem env_no_channels (env : list (bytes * bytes)) i f : assocb (env_key i f) env = None \/ assocb (env_key i f) env = Some [] ->
  env_list env i f = [].
Proof. intros [H|H]; unfold Stores.env_list; rewrite H; reflexivity. Qed.
Theorem env_never_empty_channel (env : list (bytes * bytes)) i f : ~ In [] (env_list env i f).
Proof. unfold Stores.env_list. intro H. apply nonempty_spec in H. tauto. Qed.
Theorem env_unconfigured (env : list (bytes * bytes)) i : assocb (env_key i (B "SECRET")) env = None -> env_get env i = None.
Proof. intros H. unfold Stores.env_get. rewrite H. reflexivity. Qed.
Theorem env_hit (env : list (bytes * bytes)) i s : assocb (env_key i (B "SECRET")) env = Some s -> s <> [] ->
  env_get env i = Some (mkcred s (match assocb (env_key i (B "OWNER")) env with Some o => o | None => i end)
                               (env_list env i (B "PUBCHANS")) (env_list env i (B "SUBCHANS"))).
Proof. intros H N. unfold Stores.env_get. rewrite H. destruct s; [congruence|reflexivity]. Qed.
(* identities that upper-case to the same string are the same identity to this store *)
Theorem env_case_insensitive (env : list (bytes * bytes)) i1 i2 : upper i1 = upper i2 ->
  option_map (fun c => (c_secret c, c_pub c, c_sub c)) (env_get env i1) =
  option_map (fun c => (c_secret c, c_pub c, c_sub c)) (env_get env i2).
Proof.
  intros H. unfold Stores.env_get, Stores.env_list, Stores.env_key. rewrite H.
  destruct (assocb _ env) as [s|]; [|reflexivity]. destruct (bytes_eqb s []); reflexivity.
Qed.
End EnvFacts.

(* splitting on commas and joining back *)
Example split_examples :
  split_commas (B "a,b,c") = [B "a"; B "b"; B "c"] /\ split_commas (B "") = [[]] /\
  nonempty (split_commas (B "")) = [] /\ nonempty (split_commas (B "a,,b,")) = [B "a"; B "b"].
Proof. vm_compute. auto. Qed.
