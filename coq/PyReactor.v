(* PyReactor.v — the layer harness/pytrans5.py translates the write path of hpfeeds/blocking/reactor.py into
   (Reactor.write, _socket_write_ready, _outbox_read_ready; definitions only; equalities with Reactor.v in ReactorGenEq.v).

   State: the model's rstate (outbox = the frames in self._outbox, buffer = self._buffer, sent = what the socket has
   accepted so far, puts = ghost) plus "the connection was reported lost".  The socket and the queue are oracles: what
   sock.send / get_nowait do THIS time is an argument of the translated method.
     sock.send(data)        SendN n: the kernel took n <= len(data) bytes (they are on the wire), returns n
                            SendErr e: raises socket.error with errno e
     outbox.get_nowait()    GetHead: returns the oldest queued frame; GetEmpty: raises queue.Empty; GetErr e: socket.error
   A method ends with a value, or with a propagating socket.error / queue.Empty.  logging.* is skipped. *)
From Coq Require Import List Bool Arith.
From HP Require Import Bytes Reactor.
Import ListNotations.

Inductive errkind := EAGAIN | EWOULDBLOCK | EOTHER.
Definition errkind_eqb (a b : errkind) : bool :=
  match a, b with EAGAIN, EAGAIN | EWOULDBLOCK, EWOULDBLOCK | EOTHER, EOTHER => true | _, _ => false end.
Inductive sendout := SendN (n : nat) | SendErr (e : errkind).
Inductive getout := GetHead | GetEmpty | GetErr (e : errkind).

Record pstate := mkp { rs : rstate; plost : bool }.
Inductive pres (A : Type) := POk (a : A) (s : pstate) | PSockErr (e : errkind) (s : pstate) | PEmpty (s : pstate).
Arguments POk {A} a s.
Arguments PSockErr {A} e s.
Arguments PEmpty {A} s.
Definition PM (A : Type) := pstate -> pres A.
Definition pret {A} (a : A) : PM A := fun s => POk a s.
Definition pbind {A B} (m : PM A) (f : A -> PM B) : PM B :=
  fun s => match m s with POk a s' => f a s' | PSockErr e s' => PSockErr e s' | PEmpty s' => PEmpty s' end.
(* statement lists: None = fell off the end, Some v = `return v` (v : option bool: None / True / False) *)
Definition pctl := option (option bool).
Definition pseq (m k : PM pctl) : PM pctl := pbind m (fun c => match c with None => k | Some v => pret (Some v) end).
Definition pfall : PM pctl := pret None.
Definition preturn (v : option bool) : PM pctl := pret (Some v).
Definition peff (f : rstate -> rstate) : PM pctl := fun s => POk None (mkp (f (rs s)) (plost s)).
Definition pif (c : bool) (t e : PM pctl) : PM pctl := if c then t else e.
Definition pfn (m : PM pctl) : PM (option bool) :=
  pbind m (fun c => pret (match c with Some v => v | None => None end)).
Definition pcall (m : PM (option bool)) : PM pctl := pbind m (fun _ => pfall).
(* try: <body>  except socket.error as e: <handler e>  [except queue.Empty: <handler2>] *)
Definition ptry (m : PM pctl) (hs : errkind -> PM pctl) (he : option (PM pctl)) : PM pctl :=
  fun s => match m s with
           | PSockErr e s' => hs e s'
           | PEmpty s' => match he with Some h => h s' | None => PEmpty s' end
           | r => r
           end.
Definition praise_sock (e : errkind) : PM pctl := fun s => PSockErr e s.        (* bare `raise` in the handler *)

(* ---- primitives ---------------------------------------------------------------------------------------- *)
Definition set_outbox v (r : rstate) := mkr v (buffer r) (sent r) (puts r).
Definition set_buffer v (r : rstate) := mkr (outbox r) v (sent r) (puts r).
(* self._outbox.put_nowait(data) *)
Definition p_put (f : bytes) (r : rstate) : rstate := mkr (outbox r ++ [f]) (buffer r) (sent r) (puts r ++ [f]).
(* X = self.sock.send(data) *)
Definition sock_send (o : sendout) (data : bytes) : PM nat := fun s =>
  match o with
  | SendN n => let k := Nat.min n (length data) in
               POk k (mkp (mkr (outbox (rs s)) (buffer (rs s)) (sent (rs s) ++ firstn k data) (puts (rs s))) (plost s))
  | SendErr e => PSockErr e s
  end.
(* X = self._outbox.get_nowait() *)
Definition outbox_get (o : getout) : PM bytes := fun s =>
  match o with
  | GetHead => match outbox (rs s) with
               | f :: rest => POk f (mkp (set_outbox rest (rs s)) (plost s))
               | [] => PEmpty s
               end
  | GetEmpty => PEmpty s
  | GetErr e => PSockErr e s
  end.
(* self._connection_lost(reason) *)
Definition p_conn_lost : PM pctl := fun s => POk None (mkp (rs s) true).

(* try: X = <call>  except socket.error as e: <hs e>  [except queue.Empty: <he>]   then, on success, <k X> *)
Definition ptry_bind {A} (m : PM A) (hs : errkind -> PM pctl) (he : option (PM pctl)) (k : A -> PM pctl) : PM pctl :=
  fun s => match m s with
           | POk a s' => k a s'
           | PSockErr e s' => hs e s'
           | PEmpty s' => match he with Some h => h s' | None => PEmpty s' end
           end.

(* ---- _select: descriptor lists as (has the socket, has the outbox) -------------------------------------------------- *)
Definition fdset := (bool * bool)%type.
Definition fd_add_sock (f : fdset) : fdset := (true, snd f).
Definition fd_add_outbox (f : fdset) : fdset := (fst f, true).
Definition fd_inter (a b : fdset) : fdset := (fst a && fst b, snd a && snd b).      (* select() reports only what was asked for *)
Definition truthy (v : option bool) : bool := match v with Some true => true | _ => false end.
(* if X in r and not self.m(): return   ...   (m is called only when X was reported) *)
Definition pif_call (b : bool) (call : PM (option bool)) (rest : PM pctl) : PM pctl :=
  if b then pbind call (fun v => if negb (truthy v) then preturn None else rest) else rest.
