(* BrokerLocal.v — C10: handling an event of connection p does nothing to another connection q except
   deliver PUBLISH frames to it — or, if q was already closing, reap it.  (frame locality) *)
From Coq Require Import ZArith List Bool Arith Lia.
From HP Require Import Bytes Sha1 Wire WireFacts ParamsOK Broker BrokerSpec BrokerLemmas BrokerInv BrokerStep BrokerTrace BrokerEvo.
Import ListNotations.

Definition is_pubf (f : frame) : Prop := match f with FPub _ _ _ => True | _ => False end.

(* what the rest of the system may do to q *)
Record untouched (c c' : conn) : Prop := {
  u_same : (made c', lost c', aborted c', nonce c', ak c', pubchans c', subchans c', buf c', rpaused c', wpaused c',
            pending c', timer c') =
           (made c, lost c, aborted c, nonce c, ak c, pubchans c, subchans c, buf c, rpaused c, wpaused c,
            pending c, timer c);
  u_out : exists l, out c' = l ++ out c /\ Forall is_pubf l;           (* only PUBLISH frames are added *)
  u_closing : closing c = true -> closing c' = true;
  u_alive : closing c = false ->                                        (* a healthy connection stays as it is *)
            closing c' = false /\ copen c' = copen c /\ active c' = active c }.

Lemma untouched_refl c : untouched c c.
Proof. constructor; auto. exists []. split; [reflexivity|constructor]. Qed.
Lemma untouched_trans c1 c2 c3 : untouched c1 c2 -> untouched c2 c3 -> untouched c1 c3.
Proof.
  intros [S1 [l1 [O1 F1]] K1 A1] [S2 [l2 [O2 F2]] K2 A2]. constructor.
  - congruence.
  - exists (l2 ++ l1). split; [rewrite O2, O1, app_assoc; reflexivity|apply Forall_app; auto].
  - auto.
  - intros H. destruct (A1 H) as (B1 & B2 & B3). destruct (A2 B1) as (C1 & C2 & C3). repeat split; congruence.
Qed.

Definition local (p : nat) (s s' : state) : Prop := forall q, q <> p -> untouched (conns s q) (conns s' q).
Lemma local_refl p s : local p s s.
Proof. intros q _. apply untouched_refl. Qed.
Lemma local_trans p s1 s2 s3 : local p s1 s2 -> local p s2 s3 -> local p s1 s3.
Proof. intros A B q N. eapply untouched_trans; [apply A|apply B]; exact N. Qed.
Lemma local_same p s s' : (forall q, q <> p -> conns s' q = conns s q) -> local p s s'.
Proof. intros H q N. rewrite (H q N). apply untouched_refl. Qed.

Section Local.
Variable bname : bytes.
Variable store : ident -> lookup.
Variable async_store : bool.
Notation Good := (Good (srow store) async_store).
Notation Good0 := (Good0 (srow store) async_store).

Lemma unsub_raw_extra d c s0 :
  (buf (conns (unsub_raw d c s0) d), rpaused (conns (unsub_raw d c s0) d), wpaused (conns (unsub_raw d c s0) d),
   pending (conns (unsub_raw d c s0) d), timer (conns (unsub_raw d c s0) d)) =
  (buf (conns s0 d), rpaused (conns s0 d), wpaused (conns s0 d), pending (conns s0 d), timer (conns s0 d)).
Proof.
  unfold unsub_raw. destruct (memc c (active (conns s0 d))); [|reflexivity]. cbn. unfold upd. rewrite Nat.eqb_refl. reflexivity.
Qed.
Lemma unsub_all_extra l : forall s0 d,
  (buf (conns (unsub_all d l s0) d), rpaused (conns (unsub_all d l s0) d), wpaused (conns (unsub_all d l s0) d),
   pending (conns (unsub_all d l s0) d), timer (conns (unsub_all d l s0) d)) =
  (buf (conns s0 d), rpaused (conns s0 d), wpaused (conns s0 d), pending (conns s0 d), timer (conns s0 d)).
Proof.
  induction l as [|c l IH]; intros s0 d; [reflexivity|].
  change (unsub_all d (c :: l) s0) with (unsub_all d l (unsub_raw d c s0)). rewrite IH. apply unsub_raw_extra.
Qed.

Lemma lostp_untouched d s : copen (conns s d) = true -> closing (conns s d) = true ->
  untouched (conns s d) (conns (lostp d s) d).
Proof.
  intros Ho Hc. unfold lostp. fold (unsub_all d (active (conns s d)) s).
  destruct (unsub_all_frame (active (conns s d)) s d) as (_ & _ & Fr).
  set (s1 := unsub_all d (active (conns s d)) s) in *.
  pose proof (unsub_all_extra (active (conns s d)) s d) as Fx.
  fold s1 in Fx. injection Fx. intros X1 X2 X3 X4 X5.
  apply rest_inv in Fr. destruct Fr as (Fm & Fc & Fl & Fab & Fn & Fk & Fp & Fs & Fcl & Fout).
  cbn. unfold upd. rewrite Nat.eqb_refl. cbn. constructor; cbn.
  - congruence.
  - exists []. split; [exact Fout|constructor].
  - intros _. congruence.
  - intros H. congruence.
Qed.

Lemma deliver_local i c dt s d : Good0 s -> copen (conns s d) = true ->
  exists s', deliver i c dt (Ok s) d = Ok s' /\ Good0 s' /\
    (forall q, q <> d -> conns s' q = conns s q) /\ untouched (conns s d) (conns s' d).
Proof.
  intros G Ho. unfold deliver. destruct (closing (conns s d)) eqn:Ec.
  - rewrite Ho. destruct (lostp_good0 (srow store) async_store d s G Ho) as (G' & _ & _ & Fo & _).
    exists (lostp d s). split; [reflexivity|]. split; [exact G'|]. split; [exact Fo|]. apply lostp_untouched; assumption.
  - exists (wr d (FPub i c dt) s). split; [reflexivity|]. split; [apply wr_good0; exact G|].
    assert (NL : lost (conns s d) || aborted (conns s d) = false).
    { destruct G as ([_ _ _ _ _ I6 I7 _] & _ & _).
      destruct (lost (conns s d)) eqn:E1; [rewrite (I6 _ E1) in Ec; discriminate|].
      destruct (aborted (conns s d)) eqn:E2; [rewrite (I7 _ E2) in Ec; discriminate|]. reflexivity. }
    unfold wr. rewrite NL. cbn. unfold upd. rewrite Nat.eqb_refl. cbn.
    split; [intros q N; destruct (Nat.eqb_spec q d); [congruence|reflexivity]|].
    constructor; cbn; auto.
    exists [FPub i c dt]. split; [reflexivity|]. constructor; [exact I|constructor].
Qed.

Lemma deliver_loop_local i c dt : forall todo s, NoDup todo -> Good0 s ->
  (forall q, In q todo -> copen (conns s q) = true) ->
  exists s', fold_left (deliver i c dt) todo (Ok s) = Ok s' /\ forall q, untouched (conns s q) (conns s' q).
Proof.
  induction todo as [|d todo IH]; intros s ND G Ho.
  - exists s. split; [reflexivity|]. intros q. apply untouched_refl.
  - inversion ND as [|? ? Hd ND']; subst.
    destruct (deliver_local i c dt s d G (Ho d (or_introl eq_refl))) as (s1 & E1 & G1 & Fo & Fu).
    destruct (IH s1 ND' G1) as (s2 & E2 & U2).
    { intros q Hq. rewrite Fo; [apply Ho; right; exact Hq|]. intro; subst; contradiction. }
    exists s2. cbn [fold_left]. rewrite E1. split; [exact E2|].
    intros q. eapply untouched_trans; [|apply U2].
    destruct (Nat.eq_dec q d) as [->|N]; [exact Fu|rewrite (Fo q N); apply untouched_refl].
Qed.

Lemma pstep_local p s s' : Good s -> pstep bname store async_store p s s' -> local p s s'.
Proof.
  intros G H. destruct H.
  - apply local_same. intros q N. cbn. unfold upd. destruct (Nat.eqb_spec q p); [congruence|reflexivity].
  - apply local_same. intros q N. unfold wr. destruct (_ || _); [reflexivity|]. cbn. unfold upd.
    destruct (Nat.eqb_spec q p); [congruence|reflexivity].
  - apply local_same. intros q N. unfold cl. destruct (closing _); [reflexivity|]. cbn. unfold upd.
    destruct (Nat.eqb_spec q p); [congruence|reflexivity].
  - apply local_same. intros q N. cbn. unfold upd. destruct (Nat.eqb_spec q p); [congruence|reflexivity].
  - apply local_same. intros q N. unfold sub. cbn. destruct (sub_raw_frame p c s) as (_ & Fo & _). apply Fo. exact N.
  - apply local_same. intros q N. unfold unsub. cbn. destruct (unsub_raw_frame p c s) as (_ & Fo & _). apply Fo. exact N.
  - apply local_same. intros q N. destruct (lostp_good0 (srow store) async_store p s (proj1 G) H) as (_ & _ & _ & Fo & _). apply Fo. exact N.
  - apply local_same. intros q N. cbn. unfold upd. destruct (Nat.eqb_spec q p); [congruence|reflexivity].
  - unfold publish in H1. destruct G as (G0 & _).
    assert (G00 : Good0 (logA (APub p (akl (conns s p)) c d) s)).
    { destruct G0 as (I0 & [R1 R2] & [L1 L2 L3]). split; [apply inv_logA; exact I0|]. split.
      - constructor; intros q; cbn; [apply R1|apply R2].
      - constructor; cbn.
        + intros q. specialize (L1 q). unfold ak_link in *. cbn. exact L1.
        + intros q. specialize (L2 q). unfold nonce_link in *. cbn. exact L2.
        + split; [|exact L3]. exists r. split; [|exact H0].
          specialize (L1 p). unfold ak_link in L1. rewrite H in L1. unfold akl. destruct L1 as (-> & _). exact H. }
    destruct (deliver_loop_local (akl (conns s p)) c d (nodup Nat.eq_dec (subs s c)) _ (NoDup_nodup _ _) G00) as (s2 & E2 & U2).
    { intros q Hq. apply nodup_In in Hq. destruct G0 as ([I1 _ _ _ _ _ _ _] & _ & _). apply (I1 _ _ Hq). }
    cbn in E2. rewrite E2 in H1. inversion H1; subst. intros q _. apply (U2 q).
  - apply local_same. intros q N. destruct (do_connect_fresh bname p n s H) as (_ & Eo & _). apply Eo. exact N.
  - apply local_same. intros q N. unfold abort, cl. cbn. unfold upd. rewrite Nat.eqb_refl. cbn.
    destruct (closing (conns s p)); cbn; unfold upd; destruct (Nat.eqb_spec q p); try congruence; reflexivity.
Qed.

Lemma psteps_local p s s' : Good s -> psteps bname store async_store p s s' -> local p s s'.
Proof.
  intros G H. induction H; [apply local_refl|].
  eapply local_trans; [eapply pstep_local; eassumption|]. apply IHpsteps. eapply pstep_good; eassumption.
Qed.

(* C10, frame locality: an event of connection p leaves every other connection untouched *)
Theorem event_local s e p q : Good s -> actor e = Some p -> q <> p ->
  untouched (conns s q) (conns (step bname store async_store s e) q).
Proof. intros G Ha N. apply (psteps_local p); [exact G|apply step_conn_tr; assumption|exact N]. Qed.

(* a clock tick touches only connections that are on a back-pressure deadline *)
Lemma tick1_other s x q : Good s -> q <> x -> untouched (conns s q) (conns (tick1 s x) q).
Proof. intros G N. apply (psteps_local x s (tick1 s x) G (tick1_tr bname store async_store s x)). exact N. Qed.
Lemma tick1_idle s q : timer (conns s q) = None -> tick1 s q = s.
Proof. intros H. unfold tick1. rewrite H. reflexivity. Qed.
Theorem tick_local s q : Good s -> timer (conns s q) = None ->
  untouched (conns s q) (conns (do_tick s) q).
Proof.
  intros G Ht. unfold do_tick. generalize (rev (ids s)). intros l. revert s G Ht.
  induction l as [|x l IH]; intros s G Ht; cbn; [apply untouched_refl|].
  destruct (Nat.eq_dec q x) as [->|N].
  - rewrite tick1_idle by exact Ht. apply IH; assumption.
  - pose proof (tick1_other s x q G N) as U. eapply untouched_trans; [exact U|].
    apply IH; [apply tick1_good; exact G|].
    destruct U as [S _ _ _]. injection S. intros. congruence.
Qed.

(* ---- termination of every callback: the fuel given to process_pending is never exhausted ---------- *)
Definition samebuf (s s' : state) : Prop := forall q, buf (conns s' q) = buf (conns s q).
Lemma samebuf_refl s : samebuf s s. Proof. intros q. reflexivity. Qed.
Lemma samebuf_trans a b c : samebuf a b -> samebuf b c -> samebuf a c.
Proof. intros X Y q. rewrite Y, X. reflexivity. Qed.
Lemma modc_samebuf q f s : (forall c, buf (f c) = buf c) -> samebuf s (modc q f s).
Proof. intros H q'. cbn. unfold upd. destruct (Nat.eqb_spec q' q); subst; auto. Qed.
Lemma wr_samebuf q f s : samebuf s (wr q f s).
Proof. unfold wr. destruct (_ || _); [apply samebuf_refl|]. apply modc_samebuf. reflexivity. Qed.
Lemma cl_samebuf q s : samebuf s (cl q s).
Proof. unfold cl. destruct (closing _); [apply samebuf_refl|]. intros q'. cbn. unfold upd. destruct (Nat.eqb_spec q' q); subst; reflexivity. Qed.
Lemma bad_samebuf q s : samebuf s (bad q s).
Proof. unfold bad. eapply samebuf_trans; [apply wr_samebuf|apply cl_samebuf]. Qed.
Lemma sub_samebuf q c s : samebuf s (sub q c s).
Proof. unfold sub, sub_raw. intros q'. destruct (memc _ _); cbn; [reflexivity|]. unfold upd. destruct (Nat.eqb_spec q' q); subst; reflexivity. Qed.
Lemma unsub_raw_samebuf q c s : samebuf s (unsub_raw q c s).
Proof. unfold unsub_raw. destruct (memc _ _); cbn; [|apply samebuf_refl]. intros q'. cbn. unfold upd. destruct (Nat.eqb_spec q' q); subst; reflexivity. Qed.
Lemma unsub_samebuf q c s : samebuf s (unsub q c s).
Proof. unfold unsub. intros q'. cbn. apply unsub_raw_samebuf. Qed.
Lemma lostp_samebuf q s : samebuf s (lostp q s).
Proof.
  unfold lostp. intros q'. cbn. unfold upd.
  assert (X : forall l s0, samebuf s0 (fold_left (fun s c => unsub_raw q c s) l s0)).
  { induction l as [|c l IH]; intros s0; cbn; [apply samebuf_refl|]. eapply samebuf_trans; [apply unsub_raw_samebuf|apply IH]. }
  destruct (Nat.eqb_spec q' q); subst; cbn; apply X.
Qed.
Lemma deliver_samebuf i c d r dest : samebuf (st r) (st (deliver i c d r dest)).
Proof.
  unfold deliver. destruct r as [s|s|s]; cbn; try apply samebuf_refl.
  destruct (closing _); [destruct (copen _); cbn; [apply lostp_samebuf|apply samebuf_refl]|cbn; apply wr_samebuf].
Qed.
Lemma publish_samebuf p c d s : samebuf s (st (publish p c d s)).
Proof.
  unfold publish. assert (X : forall l r, samebuf (st r) (st (fold_left (deliver (akl (conns s p)) c d) l r))).
  { induction l as [|x l IH]; intros r; cbn; [apply samebuf_refl|]. eapply samebuf_trans; [apply deliver_samebuf|apply IH]. }
  intros q. rewrite (X _ (Ok _) q). reflexivity.
Qed.

Definition blen (s : state) (q : nat) : nat := length (buf (conns s q)).
Definition not_fuel (r : res) : Prop := match r with Fuel _ => False | _ => True end.
(* a continuation that terminates and does not grow q's buffer *)
Definition kterm (q n : nat) (k : state -> res) : Prop :=
  forall s, (blen s q < n)%nat -> not_fuel (k s) /\ (blen (st (k s)) q <= blen s q)%nat.

Lemma authenticate_term k q n i dg l s : kterm q n k -> (blen s q < n)%nat ->
  not_fuel (authenticate k q i dg l s) /\ (blen (st (authenticate k q i dg l s)) q <= blen s q)%nat.
Proof.
  intros Hk Hn. unfold authenticate. destruct l as [|r].
  - cbn. split; [exact I|]. unfold blen. rewrite (bad_samebuf q s q). lia.
  - destruct (bytes_eqb _ _).
    + match goal with |- context [k ?X] => assert (B : blen X q = blen s q)
        by (unfold blen; cbn; unfold upd; rewrite Nat.eqb_refl; reflexivity);
        destruct (Hk X ltac:(lia)) as [N L]; destruct (k X) end; cbn in *; try tauto; try (split; [exact I|lia]).
      split; [exact I|]. destruct (pending _); [|lia]. unfold resume_r. destruct (_ || _); [lia|]. unfold blen in *. cbn. unfold upd. rewrite Nat.eqb_refl. cbn. lia.
    + cbn. split; [exact I|]. unfold blen. rewrite (bad_samebuf q s q). lia.
Qed.

Lemma handle_term k q n op body s : kterm q n k -> (blen s q < n)%nat ->
  not_fuel (fst (handle store async_store k q op body s)) /\
  (blen (st (fst (handle store async_store k q op body s))) q <= blen s q)%nat.
Proof.
  intros Hk Hn. unfold handle.
  assert (Same : forall s', samebuf s s' -> (blen s' q <= blen s q)%nat) by (intros s' H; unfold blen; rewrite (H q); lia).
  destruct (Z.eqb op 2).
  { destruct (readauth body) as [[i dg]|]; [|cbn; split; [exact I|lia]].
    unfold on_auth. destruct (negb _); cbn; [split; [exact I|lia]|].
    destruct async_store; cbn.
    - split; [exact I|]. unfold pause_r. destruct (_ || _); unfold blen; cbn; unfold upd; rewrite ?Nat.eqb_refl; cbn; lia.
    - eapply authenticate_term; eassumption. }
  destruct (ak _); [|cbn; split; [exact I|apply Same; apply bad_samebuf]].
  destruct (Z.eqb op 3).
  { destruct (readpublish body) as [[[i3 c3] d3]|]; [|cbn; split; [exact I|lia]]. cbn. unfold on_publish.
    destruct (ak _); [|cbn; split; [exact I|apply Same; apply bad_samebuf]].
    destruct (negb _); [cbn; split; [exact I|apply Same; apply bad_samebuf]|].
    destruct (negb _); [cbn; split; [exact I|apply Same; apply bad_samebuf]|].
    destruct (negb _); [cbn; split; [exact I|lia]|].
    split; [|apply Same; apply publish_samebuf].
    unfold publish. generalize (nodup Nat.eq_dec (subs s c3)). intros l.
    assert (X : forall l r, not_fuel r -> not_fuel (fold_left (deliver (akl (conns s q)) c3 d3) l r)).
    { induction l0 as [|x l0 IH]; intros r Hr; cbn; [exact Hr|]. apply IH. unfold deliver. destruct r; cbn in *; try tauto.
      destruct (closing _); [destruct (copen _)|]; exact I. }
    apply X. exact I. }
  destruct (Z.eqb op 4).
  { destruct (readsubscribe body) as [[i4 c4]|]; [|cbn; split; [exact I|lia]]. cbn. unfold on_subscribe.
    destruct (negb _); [cbn; split; [exact I|apply Same; apply bad_samebuf]|].
    destruct (negb _); cbn; split; try exact I; [lia|apply Same; apply sub_samebuf]. }
  destruct (Z.eqb op 5).
  { destruct (readunsubscribe body) as [[i5 c5]|]; [|cbn; split; [exact I|lia]]. cbn. unfold on_unsubscribe.
    destruct (negb _); cbn; split; try exact I; [lia|apply Same; apply unsub_samebuf]. }
  cbn. split; [exact I|lia].
Qed.

Lemma pp_term fuel q : forall s, (blen s q < fuel)%nat ->
  not_fuel (pp store async_store fuel q s) /\ (blen (st (pp store async_store fuel q s)) q <= blen s q)%nat.
Proof.
  induction fuel as [|f IH]; intros s Hf; [lia|].
  cbn [pp]. destruct (next limitP (buf (conns s q))) as [|c|op body rest] eqn:En.
  - cbn. split; [exact I|lia].
  - cbn. split; [exact I|]. unfold blen. rewrite (cl_samebuf q s q). lia.
  - apply ready_shrinks in En.
    set (s1 := modc q (set_buf rest) s).
    assert (B1 : (blen s1 q + 5 <= blen s q)%nat).
    { unfold blen, s1. cbn. unfold upd. rewrite Nat.eqb_refl. cbn. exact En. }
    (* the nested continuation is only ever applied to states whose buffer is short enough *)
    assert (HT : forall s', (blen s' q < f)%nat ->
                 not_fuel (fst (handle store async_store (pp store async_store f q) q op body s')) /\
                 (blen (st (fst (handle store async_store (pp store async_store f q) q op body s'))) q <= blen s' q)%nat).
    { intros s' Hs'. apply (handle_term _ q f); [exact IH|exact Hs']. }
    destruct (HT s1 ltac:(lia)) as [N L].
    destruct (handle store async_store (pp store async_store f q) q op body s1) as [r b]. cbn in N, L.
    destruct r as [s2|s2|s2]; cbn in *; try tauto; try (split; [exact I|lia]).
    destruct b; [cbn; split; [exact I|lia]|].
    destruct (IH s2 ltac:(lia)) as [N2 L2]. split; [exact N2|lia].
Qed.
End Local.
