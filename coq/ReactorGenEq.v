(* ReactorGenEq.v — Reactor.write / _socket_write_ready / _outbox_read_ready as translated from the Python source on every
   run (ReactorGen.v, written by harness/pytrans5.py) are the steps of the model of Reactor.v; C20's theorems restated for
   the loop that runs the translated methods.  No axioms. *)
From Coq Require Import List Bool Arith Lia.
From HP Require Import Bytes Reactor PyReactor ReactorGen.
Import ListNotations.

Ltac unfP := unfold pfn, pseq, pbind, pret, pfall, preturn, peff, pif, pcall, ptry_bind, praise_sock, p_conn_lost.

Lemma rstate_eta : forall r, mkr (outbox r) (buffer r) (sent r) (puts r) = r.
Proof. intros []; reflexivity. Qed.

Theorem write_src_eq : forall f r l, Reactor_write f (mkp r l) = POk None (mkp (rstep r (Put f)) l).
Proof. intros. reflexivity. Qed.

(* the socket took n bytes, 1 <= n <= what it was offered *)
Theorem write_ready_src_accept : forall n r l, (1 <= n <= length (buffer r))%nat ->
  Reactor_socket_write_ready (SendN n) (mkp r l) = POk (Some true) (mkp (write_ready (Accept n) r) l).
Proof.
  intros n r l H. unfold Reactor_socket_write_ready, write_ready, clamp. unfP. unfold sock_send. cbn [rs plost buffer outbox sent puts].
  replace (Nat.min n (length (buffer r))) with n by lia.
  replace (Nat.max 1 n) with n by lia.
  destruct (Nat.eqb_spec n 0) as [E|E]; [lia|]. reflexivity.
Qed.

(* EAGAIN / EWOULDBLOCK: nothing happens, try again later *)
Theorem write_ready_src_block : forall e r l, e = EAGAIN \/ e = EWOULDBLOCK ->
  Reactor_socket_write_ready (SendErr e) (mkp r l) = POk (Some true) (mkp (write_ready WouldBlock r) l).
Proof. intros e r l [-> | ->]; reflexivity. Qed.

(* send() returned 0: the connection is reported lost, nothing was written, the unsent bytes stay *)
Theorem write_ready_src_zero : forall r l, Reactor_socket_write_ready (SendN 0) (mkp r l) = POk (Some false) (mkp r true).
Proof.
  intros r l. unfold Reactor_socket_write_ready. unfP. unfold sock_send. cbn [rs plost buffer outbox sent puts Nat.min firstn Nat.eqb].
  rewrite app_nil_r, rstate_eta. reflexivity.
Qed.

(* any other socket error propagates; nothing was written *)
Theorem write_ready_src_error : forall r l, Reactor_socket_write_ready (SendErr EOTHER) (mkp r l) = PSockErr EOTHER (mkp r l).
Proof. intros. reflexivity. Qed.

(* the outbox had a frame: it is appended to the unsent bytes, then _socket_write_ready runs (its verdict is dropped) *)
Theorem outbox_read_ready_src : forall so f rest r l, outbox r = f :: rest ->
  Reactor_outbox_read_ready GetHead so (mkp r l) =
  match Reactor_socket_write_ready so (mkp (mkr rest (buffer r ++ f) (sent r) (puts r)) l) with
  | POk _ s' => POk None s' | PSockErr e s' => PSockErr e s' | PEmpty s' => PEmpty s' end.
Proof.
  intros so f rest r l H. unfold Reactor_outbox_read_ready.
  unfold pfn, pbind at 1, pseq at 1, pbind at 1, ptry_bind, outbox_get. cbn [rs plost]. rewrite H.
  unfold peff, set_outbox, set_buffer. cbn [rs plost buffer outbox sent puts].
  unfold pseq, pbind, pcall, pbind, pfall, pret.
  destruct (Reactor_socket_write_ready so (mkp (mkr rest (buffer r ++ f) (sent r) (puts r)) l)); reflexivity.
Qed.

Theorem outbox_read_ready_src_empty : forall so s, Reactor_outbox_read_ready GetEmpty so s = POk (Some true) s.
Proof. intros. reflexivity. Qed.

(* ---- the reactor's write loop with the translated methods plugged in ------------------------------------------ *)
Definition conv (o : sendres) (len : nat) : sendout :=
  match o with Accept k => SendN (clamp k len) | WouldBlock => SendErr EAGAIN end.
Definition st {A} (r : pres A) : rstate := match r with POk _ s | PSockErr _ s | PEmpty s => rs s end.

(* one pass of _select as the model reads it (hand-written: which of the two the select() reports): with unsent bytes the
   socket is polled for writing; otherwise the outbox is polled *)
Definition rstep_src (s : rstate) (e : rev_) : rstate :=
  match e with
  | Put f => st (Reactor_write f (mkp s false))
  | Iter o =>
      match buffer s with
      | _ :: _ => st (Reactor_socket_write_ready (conv o (length (buffer s))) (mkp s false))
      | [] => match outbox s with
              | [] => s
              | f :: _ => st (Reactor_outbox_read_ready GetHead (conv o (length f)) (mkp s false))
              end
      end
  end.
Definition rrun_src (es : list rev_) : rstate := fold_left rstep_src es rstate0.

Lemma clamp_range : forall k len, (1 <= len)%nat -> (1 <= clamp k len <= len)%nat.
Proof. intros k len H. unfold clamp. lia. Qed.

Lemma write_ready_nothing : forall o r, buffer r = [] -> write_ready o r = r.
Proof.
  intros o r B. destruct o as [k|]; [|reflexivity]. unfold write_ready. rewrite B.
  rewrite skipn_nil, firstn_nil, app_nil_r. rewrite <- B. apply rstate_eta.
Qed.
Lemma src_nothing : forall n r, buffer r = [] -> st (Reactor_socket_write_ready (SendN n) (mkp r false)) = r.
Proof.
  intros n r B. unfold Reactor_socket_write_ready. unfP. unfold sock_send. cbn [rs plost]. rewrite B.
  cbn [length]. rewrite Nat.min_0_r. cbn [Nat.eqb firstn st rs]. rewrite app_nil_r. rewrite <- B. apply rstate_eta.
Qed.

Lemma wr_src : forall o r, st (Reactor_socket_write_ready (conv o (length (buffer r))) (mkp r false)) = write_ready o r.
Proof.
  intros o r. destruct o as [k|]; [|reflexivity]. cbn [conv].
  destruct (buffer r) as [|b bt] eqn:B.
  - (* nothing to send: the model's step is the identity; the code sees send() return 0 *)
    rewrite write_ready_nothing by exact B. apply src_nothing. exact B.
  - rewrite <- B. rewrite write_ready_src_accept.
    + cbn [st rs]. unfold write_ready.
      replace (clamp (clamp k (length (buffer r))) (length (buffer r))) with (clamp k (length (buffer r))); [reflexivity|].
      unfold clamp. rewrite B. cbn [length]. lia.
    + apply clamp_range. rewrite B. cbn [length]. lia.
Qed.

Theorem rstep_src_eq : forall s e, rstep_src s e = rstep s e.
Proof.
  intros s [f|o]; [reflexivity|]. unfold rstep_src, rstep.
  destruct (buffer s) as [|b bt] eqn:B.
  - destruct (outbox s) as [|f rest] eqn:O; [reflexivity|].
    rewrite (outbox_read_ready_src _ f rest s false O). rewrite B. cbn [app].
    pose proof (wr_src o (mkr rest f (sent s) (puts s))) as W. cbn [buffer] in W. rewrite <- W.
    destruct (Reactor_socket_write_ready (conv o (length f)) (mkp (mkr rest f (sent s) (puts s)) false)); reflexivity.
  - rewrite <- B. apply wr_src.
Qed.

Theorem rrun_src_eq : forall es, rrun_src es = rrun es.
Proof.
  intro es. unfold rrun_src, rrun. generalize rstate0. induction es as [|e t IH]; intro s; [reflexivity|].
  cbn [fold_left]. rewrite rstep_src_eq. apply IH.
Qed.

(* C20 for the loop that runs the translated methods *)
Theorem src_conservation : forall es, conserved (rrun_src es).
Proof. intro es. rewrite rrun_src_eq. apply conservation. Qed.
Theorem src_sent_is_prefix : forall es, exists rest, concat (puts (rrun_src es)) = sent (rrun_src es) ++ rest.
Proof. intro es. rewrite rrun_src_eq. apply sent_is_prefix. Qed.

(* ---- the wake-up queue: Queue.put / Queue.get as translated (their primitive steps, in the source's order) ------------ *)
Inductive qcall := QPut (x : nat) | QGet.
Definition qcall_steps (c : qcall) : list qev := match c with QPut x => Queue_put x | QGet => Queue_get end.

(* any interleaving of the primitive steps of any calls keeps the invariant (it holds for every list of steps) *)
Theorem src_queue_invariant : forall es, qinv (qrun es).
Proof. exact queue_invariant. Qed.

(* between calls - after any sequence of put() and get() calls that were not interleaved with each other - no call is half
   done, so the queue is select()-readable exactly as many times as it holds items; a get() on an empty queue blocks (its
   steps are not enabled) *)
Lemma whole_call_quiescent : forall c s, qinv s -> pputs s = O -> pgets s = O ->
  let s' := fold_left qstep (qcall_steps c) s in pputs s' = O /\ pgets s' = O.
Proof.
  intros c [it wk pp pg gt pl] [I1 I2] P G. cbn in *. subst pp pg.
  destruct c as [x|]; cbn.
  - auto.
  - destruct wk as [|w]; cbn; [auto|]. destruct it as [|y t]; cbn in *; [lia|auto].
Qed.
Theorem src_queue_whole_calls : forall calls,
  let s := qrun (concat (map qcall_steps calls)) in
  pputs s = O /\ pgets s = O /\ wake s = length (items s).
Proof.
  intro calls. cbv zeta.
  assert (X : forall s, qinv s -> pputs s = O -> pgets s = O ->
              let s' := fold_left qstep (concat (map qcall_steps calls)) s in qinv s' /\ pputs s' = O /\ pgets s' = O).
  { induction calls as [|c t IH]; intros s I P G; cbn [map concat fold_left]; [auto|].
    rewrite fold_left_app. 
    assert (I' : qinv (fold_left qstep (qcall_steps c) s)).
    { clear - I. generalize (qcall_steps c) as l. intro l. revert s I. induction l as [|e l IHl]; intros s I; cbn; [exact I|].
      apply IHl. apply qstep_inv. exact I. }
    destruct (whole_call_quiescent c s I P G) as [P' G']. apply IH; assumption. }
  destruct (X qstate0) as (I & P & G); [split; reflexivity|reflexivity|reflexivity|].
  unfold qrun. split; [exact P|]. split; [exact G|]. destruct I as [I1 _]. rewrite P, G in I1. 
  rewrite Nat.add_0_r, Nat.add_0_r in I1. symmetry. exact I1.
Qed.

(* ---- Reactor._select as translated: one pass of the write loop ------------------------------------------------------- *)
(* a pass in which the socket has nothing to read; select() reports the socket writable whenever that was asked for, and the
   outbox readable exactly when it holds a frame (src_queue_whole_calls) *)
Definition sel_for (s : rstate) : fdset * fdset :=
  ((false, match outbox s with [] => false | _ :: _ => true end), (true, false)).
Definition offered (s : rstate) : nat :=
  match buffer s with [] => match outbox s with f :: _ => length f | [] => O end | _ :: _ => length (buffer s) end.
Definition rstep_sel (rr : PM (option bool)) (s : rstate) (e : rev_) : rstate :=
  match e with
  | Put f => st (Reactor_write f (mkp s false))
  | Iter o => st (Reactor_select (sel_for s) rr GetHead (conv o (offered s)) (mkp s false))
  end.

Lemma st_last_call : forall (call : PM (option bool)) s, st (pfn (pif_call true call pfall) s) = st (call s).
Proof.
  intros call s. unfold pfn, pif_call, pbind, pfall, preturn, pret.
  destruct (call s) as [v s'|e s'|s']; [|reflexivity|reflexivity]. destruct v as [[|]|]; reflexivity.
Qed.

Theorem rstep_sel_eq : forall rr s e, rstep_sel rr s e = rstep s e.
Proof.
  intros rr s e. rewrite <- rstep_src_eq. destruct e as [f|o]; [reflexivity|].
  unfold rstep_sel, rstep_src, Reactor_select, sel_for, offered.
  destruct (buffer s) as [|b bt] eqn:B.
  - destruct (outbox s) as [|f rest] eqn:O.
    + unfold pfn, pbind. cbn [rs buffer]. rewrite B. cbn. reflexivity.
    + change (st (pfn (fun s0 : pstate =>
               let want_read := (true, false) in
               let want_write := (false, false) in
               let '(want_read0, want_write0) :=
                 if negb (bytes_eqb (buffer (rs s0)) []) then (want_read, fd_add_sock want_write) else (fd_add_outbox want_read, want_write) in
               let r := fd_inter want_read0 (fst ((false, true), (true, false))) in
               let w := fd_inter want_write0 (snd ((false, true), (true, false))) in
               pif_call (fst r) rr (pif_call (snd r) (Reactor_outbox_read_ready GetHead (conv o (length f)))
                 (pif_call (fst w) (Reactor_socket_write_ready (conv o (length f))) pfall)) s0) (mkp s false))
              = st (Reactor_outbox_read_ready GetHead (conv o (length f)) (mkp s false))).
      unfold pfn at 1, pbind at 1. cbn [rs buffer]. rewrite B. cbn [bytes_eqb negb fd_add_outbox fd_inter fst snd andb pif_call].
      fold (pfn (pif_call true (Reactor_outbox_read_ready GetHead (conv o (length f))) pfall) (mkp s false)).
      apply st_last_call.
  - change (length (buffer s)) with (length (buffer s)).
    unfold pfn at 1, pbind at 1. cbn [rs buffer]. rewrite B.
    assert (E : bytes_eqb (b :: bt) [] = false) by reflexivity. rewrite E.
    cbn [negb fd_add_sock fd_inter fst snd andb pif_call].
    unfold pbind, preturn, pfall, pret.
    destruct (Reactor_socket_write_ready (conv o (length (b :: bt))) (mkp s false)) as [v s'|e s'|s']; [|reflexivity|reflexivity].
    destruct v as [[|]|]; reflexivity.
Qed.

Definition rrun_sel (rr : PM (option bool)) (es : list rev_) : rstate := fold_left (rstep_sel rr) es rstate0.
Theorem rrun_sel_eq : forall rr es, rrun_sel rr es = rrun es.
Proof.
  intros rr es. unfold rrun_sel, rrun. generalize rstate0. induction es as [|e t IH]; intro s; [reflexivity|].
  cbn [fold_left]. rewrite rstep_sel_eq. apply IH.
Qed.

(* ---- Reactor._connect as translated: a connection starts with nothing queued and nothing unsent ------------------------ *)
Theorem connect_fresh_src : forall r, outbox (Reactor_connect r) = [] /\ buffer (Reactor_connect r) = [] /\
  sent (Reactor_connect r) = sent r /\ puts (Reactor_connect r) = puts r.
Proof. intro r. unfold Reactor_connect, set_outbox, set_buffer. cbn. auto. Qed.
