(* AioStream.v — C12, asyncio session and Twisted glue (both run AioSession.do_data), tied to the bytes:
   one data_received(chunk) on a live connection whose buffered bytes ++ chunk decode to PUBLISH frames hands every one
   of them to read_queue, in order, once, and keeps exactly the incomplete tail buffered.  With C06 (decoding is
   independent of chunking) and run_Q (handed over ++ queued = put into the queue) this is: every OP_PUBLISH the broker
   sends reaches the application exactly once, in order, however the bytes are split. *)
From Coq Require Import ZArith List Bool Arith Lia.
From Coq Require Import Strings.Byte.
From HP Require Import Bytes Utf8 Sha1 Wire WireFacts ParamsOK AioSession AioFacts AioClose.
Import ListNotations.

Arguments next : simpl never.
Arguments readpublish : simpl never.
Arguments Z.eqb : simpl never.

Lemma nth_upd k f : forall cs, (k < length cs)%nat -> nth k (upd_conn k f cs) aconn0 = f (nth k cs aconn0).
Proof. induction k as [|k IH]; intros [|c cs] H; cbn in *; try lia; [reflexivity|]. apply IH. lia. Qed.
Lemma getc_modk' k f s : (k < length (conns s))%nat -> getc (modk k f s) k = f (getc s k).
Proof. intros H. unfold getc. cbn. apply nth_upd. exact H. Qed.

Section AS.
Variable ident secret : bytes.
Notation do_data := (do_data ident secret).
Notation drainc := (drainc ident secret).
Notation on_frame := (on_frame ident secret).

(* a frame a broker sends after the handshake: a well-formed OP_PUBLISH *)
Definition is_pub (f : Z * bytes) : Prop := fst f = 3%Z /\ readpublish (snd f) <> None.
Definition msgs_of (fs : list (Z * bytes)) : list msg :=
  flat_map (fun f => match readpublish (snd f) with Some m => [m] | None => [] end) fs.

Definition rest_same (s s' : asess) : Prop :=
  wanted s' = wanted s /\ pc s' = pc s /\ cur s' = cur s /\ tr s' = tr s /\ closing s' = closing s /\ wc_done s' = wc_done s /\
  wcl_done s' = wcl_done s /\ delivered s' = delivered s /\ waiting s' = waiting s /\ attempts s' = attempts s /\
  pend s' = pend s /\ outcome s' = outcome s /\ cancel_req s' = cancel_req s /\ cst s' = cst s /\ ready s' = ready s /\
  raised s' = raised s /\ length (conns s') = length (conns s).

Lemma getc_setbuf k b s : (k < length (conns s))%nat -> cbuf (getc (setbuf k b s) k) = b.
Proof. intros H. unfold setbuf. rewrite (getc_modk' k _ s H). reflexivity. Qed.
Lemma setbuf_len k b s : length (conns (setbuf k b s)) = length (conns s).
Proof. unfold setbuf, modk. cbn. apply upd_conn_length. Qed.

Lemma drainc_publishes fuel : forall s k fs r,
  (k < length (conns s))%nat -> (length (cbuf (getc s k)) < fuel)%nat ->
  drain limitP fuel (cbuf (getc s k)) = (fs, r, None) -> Forall is_pub fs ->
  exists s', drainc fuel k s = (s', false) /\
    recvd s' = recvd s ++ msgs_of fs /\ queue s' = queue s ++ msgs_of fs /\ cbuf (getc s' k) = r /\ rest_same s s' /\
    cout (getc s' k) = cout (getc s k) /\ cclosing (getc s' k) = cclosing (getc s k) /\ clost (getc s' k) = clost (getc s k).
Proof.
  induction fuel as [|f IH]; intros s k fs r Hk Hlen Hd Hp; [lia|].
  cbn [drain] in Hd. cbn [AioSession.drainc].
  destruct (next limitP (cbuf (getc s k))) as [|c|op body rest] eqn:En.
  - inversion Hd; subst. exists s. cbn. rewrite !app_nil_r. unfold rest_same. repeat split; auto.
  - discriminate.
  - destruct (drain limitP f rest) as [[fs0 r0] e0] eqn:D. inversion Hd as [[Hfs Hr He]]; clear Hd. subst fs r0 e0.
    inversion Hp as [|x l [Hop Hrp] Hp']; subst x l. cbn [fst snd] in *. subst op.
    pose proof (ready_shrinks _ _ _ _ _ En) as Hs.
    unfold AioSession.on_frame. change (Z.eqb 3 1) with false. change (Z.eqb 3 3) with true. cbn iota.
    destruct (readpublish body) as [m|] eqn:Er; [|congruence].
    match goal with |- context [drainc f k ?x] => specialize (IH x k fs0 r) end.
    cbn [conns] in IH. rewrite setbuf_len in IH. specialize (IH Hk).
    assert (Hb : cbuf (getc (setbuf k rest s) k) = rest) by (apply getc_setbuf; exact Hk).
    unfold getc in IH, Hb. cbn [conns] in IH. unfold getc in IH. rewrite Hb in IH.
    specialize (IH ltac:(lia) D Hp'). destruct IH as (s' & E & H1 & H2 & H3 & H4 & H5 & H6 & H7).
    exists s'. split; [exact E|]. cbn [recvd queue] in H1, H2.
    cbn [msgs_of flat_map snd]. rewrite Er. fold (msgs_of fs0).
    assert (R : rest_same s s').
    { destruct H4 as (A1 & A2 & A3 & A4 & A5 & A6 & A7 & A8 & A9 & A10 & A11 & A12 & A13 & A14 & A15 & A16 & A17).
      cbn in *. rewrite upd_conn_length in A17. unfold rest_same. repeat split; auto. }
    split; [rewrite H1; cbn; rewrite <- app_assoc; reflexivity|].
    split; [rewrite H2; cbn; rewrite <- app_assoc; reflexivity|].
    split; [exact H3|]. split; [exact R|].
    unfold getc in *. cbn [conns setbuf modk setconns] in H5, H6, H7.
    rewrite (nth_upd k _ (conns s) Hk) in H5, H6, H7. cbn in H5, H6, H7.
    split; [exact H5|]. split; [exact H6|exact H7].
Qed.

Theorem data_publishes s k chunk fs r :
  (k < length (conns s))%nat -> cclosing (getc s k) = false -> clost (getc s k) = false ->
  parse limitP (cbuf (getc s k) ++ chunk) = (fs, r, None) -> Forall is_pub fs ->
  let s' := do_data k chunk s in
  recvd s' = recvd s ++ msgs_of fs /\ queue s' = queue s ++ msgs_of fs /\ cbuf (getc s' k) = r /\
  raised s' = raised s /\ delivered s' = delivered s /\ cclosing (getc s' k) = false /\ cout (getc s' k) = cout (getc s k).
Proof.
  intros Hk Hc Hl Hparse Hp. cbv zeta. unfold AioSession.do_data.
  assert (Hlt : (k <? length (conns s))%nat = true) by (apply Nat.ltb_lt; exact Hk).
  rewrite Hlt, Hc, Hl. cbn [negb andb].
  set (s0 := setbuf k (cbuf (getc s k) ++ chunk) s).
  assert (Hb : cbuf (getc s0 k) = cbuf (getc s k) ++ chunk) by (apply getc_setbuf; exact Hk).
  assert (Hk0 : (k < length (conns s0))%nat) by (unfold s0; rewrite setbuf_len; exact Hk).
  unfold parse in Hparse. rewrite <- Hb in Hparse.
  destruct (drainc_publishes (S (length (cbuf (getc s0 k)))) s0 k fs r Hk0 (Nat.lt_succ_diag_r _) Hparse Hp) as (s' & E & H1 & H2 & H3 & H4 & H5 & H6 & H7).
  rewrite E.
  destruct H4 as (A1 & A2 & A3 & A4 & A5 & A6 & A7 & A8 & A9 & A10 & A11 & A12 & A13 & A14 & A15 & A16 & A17).
  repeat split; auto.
  - rewrite H6. unfold s0, getc, setbuf. cbn. rewrite (nth_upd k _ (conns s) Hk). cbn. exact Hc.
  - rewrite H5. unfold s0, getc, setbuf. cbn. rewrite (nth_upd k _ (conns s) Hk). reflexivity.
Qed.
End AS.

(* the hypotheses of data_publishes are met by a reachable state and a frame built by the library's own builder *)
Example data_publishes_applies :
  let s := arun [x69] [x73] [AIdle; AOk] in
  exists chunk fs, msgpublish [x61] [x63] [x01; x02] = Some chunk /\
    (0 < length (conns s))%nat /\ cclosing (getc s 0) = false /\ clost (getc s 0) = false /\
    parse limitP (cbuf (getc s 0) ++ chunk) = (fs, [], None) /\ Forall is_pub fs /\ msgs_of fs = [([x61], [x63], [x01; x02])].
Proof.
  cbv zeta. eexists. eexists. split; [vm_compute; reflexivity|].
  split; [vm_compute; lia|]. split; [vm_compute; reflexivity|]. split; [vm_compute; reflexivity|].
  split; [vm_compute; reflexivity|]. split; [|vm_compute; reflexivity].
  constructor; [|constructor]. split; [reflexivity|]. vm_compute. discriminate.
Qed.
