(* BrokerProps.v — the property-level consequences of Good (BrokerStep.run_good) and evo. *)
From Coq Require Import ZArith List Bool Arith Lia.
From HP Require Import Bytes Sha1 Wire ParamsOK Broker BrokerSpec BrokerLemmas BrokerInv BrokerStep BrokerEvo.
Import ListNotations.
Local Arguments memc : simpl never.

(* ---- facts about the abstract machine (no broker model involved) ---------------------------------- *)
(* every message in a connection's spec output comes from an accepted PUBLISH on a channel the
   connection held at that moment, while it was not closing *)
Lemma sp_out_in l : forall q i c d, In (i, c, d) (sp_out (spec l) q) ->
  exists l1 p t, l = l1 ++ APub p i c d :: t /\ memc c (sp_sub (spec t) q) = true /\ sp_closed (spec t) q = false.
Proof.
  induction l as [|a l IH]; intros q i c d H; [destruct H|].
  cbn [spec] in H.
  assert (K : In (i, c, d) (sp_out (spec l) q) ->
              exists l1 p t, a :: l = l1 ++ APub p i c d :: t /\ memc c (sp_sub (spec t) q) = true /\ sp_closed (spec t) q = false).
  { intros H'. destruct (IH _ _ _ _ H') as (l1 & p & t & E & A & B). exists (a :: l1), p, t. rewrite E. auto. }
  destruct a; cbn in H; try (apply K; exact H).
  - unfold upd in H. destruct (Nat.eqb_spec q q0); [destruct H|apply K; exact H].
  - destruct (memc c0 (sp_sub (spec l) q) && negb (sp_closed (spec l) q)) eqn:E; [|apply K; exact H].
    destruct H as [H|H]; [|apply K; exact H]. inversion H; subst.
    apply andb_true_iff in E. destruct E as [E1 E2]. exists [], p, l. split; [reflexivity|]. split; [exact E1|].
    destruct (sp_closed (spec l) q); [discriminate|reflexivity].
Qed.

(* holding a subscription means an accepted SUBSCRIBE for it is in the log *)
Lemma sp_sub_in l : forall q c, In c (sp_sub (spec l) q) -> exists l1 t, l = l1 ++ ASub q c :: t.
Proof.
  induction l as [|a l IH]; intros q c H; [destruct H|].
  cbn [spec] in H.
  assert (K : In c (sp_sub (spec l) q) -> exists l1 t, a :: l = l1 ++ ASub q c :: t).
  { intros H'. destruct (IH _ _ H') as (l1 & t & E). exists (a :: l1), t. rewrite E. reflexivity. }
  destruct a; cbn in H; try (apply K; exact H); unfold upd in H.
  - destruct (Nat.eqb_spec q q0); [destruct H|apply K; exact H].
  - destruct (Nat.eqb_spec q q0); [subst|apply K; exact H].
    destruct (memc c0 (sp_sub (spec l) q0)); [apply K; exact H|].
    destruct H as [H|H]; [subst; exists [], l; reflexivity|apply K; exact H].
  - destruct (Nat.eqb_spec q q0); [subst|apply K; exact H]. apply In_rmc in H. apply K; exact H.
  - destruct (Nat.eqb_spec q q0); [destruct H|apply K; exact H].
Qed.

Lemma sp_sub_nodup l : forall q, NoDup (sp_sub (spec l) q).
Proof.
  induction l as [|a l IH]; intros q; [constructor|].
  cbn [spec]. destruct a; cbn; try apply IH; unfold upd; destruct (Nat.eqb_spec q q0); subst; try apply IH.
  - constructor.
  - destruct (memc c (sp_sub (spec l) q0)) eqn:M; [apply IH|]. constructor; [apply memc_false; exact M|apply IH].
  - apply NoDup_rmc. apply IH.
  - constructor.
Qed.

(* "the most recent (un)subscribe of q for c is a SUBSCRIBE, and q has not gone away since" *)
Fixpoint holds (l : list action) (q : nat) (c : chan) : bool :=
  match l with
  | [] => false
  | ASub q' c' :: t => if Nat.eqb q' q && bytes_eqb c' c then true else holds t q c
  | AUnsub q' c' :: t => if Nat.eqb q' q && bytes_eqb c' c then false else holds t q c
  | AGone q' :: t => if Nat.eqb q' q then false else holds t q c
  | AConn q' _ :: t => if Nat.eqb q' q then false else holds t q c
  | _ :: t => holds t q c
  end.

Lemma memc_rmc_same c l : NoDup l -> memc c (rmc c l) = false.
Proof. intros H. apply memc_false. apply NoDup_rmc. exact H. Qed.
Lemma memc_rmc_other c c' l : c <> c' -> memc c (rmc c' l) = memc c l.
Proof.
  intros N. destruct (memc c l) eqn:M.
  - apply memc_In. apply In_rmc_neq; [exact N|apply memc_In; exact M].
  - apply memc_false. intro H. apply In_rmc in H. apply memc_false in M. contradiction.
Qed.

Lemma memc_cons c x l : memc c (x :: l) = bytes_eqb c x || memc c l.
Proof. reflexivity. Qed.

Lemma holds_spec l : forall q c, memc c (sp_sub (spec l) q) = holds l q c.
Proof.
  induction l as [|a l IH]; intros q c; [reflexivity|].
  cbn [spec holds]. destruct a; cbn; try apply IH; unfold upd; rewrite (Nat.eqb_sym q q0).
  - destruct (Nat.eqb_spec q0 q); [reflexivity|apply IH].
  - destruct (Nat.eqb_spec q0 q); cbn; [subst|apply IH].
    destruct (bytes_eqb_spec c0 c).
    + subst. destruct (memc c (sp_sub (spec l) q)) eqn:M; [exact M|]. rewrite memc_cons, bytes_eqb_refl. reflexivity.
    + destruct (memc c0 (sp_sub (spec l) q)); [apply IH|]. rewrite memc_cons.
      destruct (bytes_eqb_spec c c0); [congruence|]. cbn. apply IH.
  - destruct (Nat.eqb_spec q0 q); cbn; [subst|apply IH].
    destruct (bytes_eqb_spec c0 c).
    + subst. apply memc_rmc_same. apply sp_sub_nodup.
    + rewrite memc_rmc_other by congruence. apply IH.
  - destruct (Nat.eqb_spec q0 q); [reflexivity|apply IH].
Qed.

(* the fan-out rule, in one line *)
Lemma spec_pub_rule t p i c d q :
  sp_out (spec (APub p i c d :: t)) q =
  if holds t q c && negb (sp_closed (spec t) q) then (i, c, d) :: sp_out (spec t) q else sp_out (spec t) q.
Proof. cbn. rewrite holds_spec. reflexivity. Qed.

(* everything anybody receives is a subsequence of the one sequence of accepted publishes *)
Inductive sublist {A} : list A -> list A -> Prop :=
| sl_nil : sublist [] []
| sl_skip x l1 l2 : sublist l1 l2 -> sublist l1 (x :: l2)
| sl_take x l1 l2 : sublist l1 l2 -> sublist (x :: l1) (x :: l2).
Fixpoint accepted (l : list action) : list msg :=
  match l with [] => [] | APub _ i c d :: t => (i, c, d) :: accepted t | _ :: t => accepted t end.
Lemma sublist_nil {A} (l : list A) : sublist [] l.
Proof. induction l; constructor; assumption. Qed.
Lemma sp_out_sublist l : forall q, sublist (sp_out (spec l) q) (accepted l).
Proof.
  induction l as [|a l IH]; intros q; [constructor|].
  cbn [spec accepted]. destruct a; cbn; try apply IH.
  - unfold upd. destruct (Nat.eqb_spec q q0); [apply sublist_nil|apply IH].
  - destruct (_ && _); [apply sl_take|apply sl_skip]; apply IH.
Qed.

(* once closed, a connection receives nothing more (until its index is reused, which never happens) *)
Definition no_conn (q : nat) (new : list action) : Prop := forall n, ~ In (AConn q n) new.
Lemma closed_silent new : forall l q, no_conn q new -> sp_closed (spec l) q = true ->
  sp_closed (spec (new ++ l)) q = true /\ sp_out (spec (new ++ l)) q = sp_out (spec l) q.
Proof.
  induction new as [|a new IH]; intros l q Hn Hc; [auto|].
  assert (Hn' : no_conn q new) by (intros n H; apply (Hn n); right; exact H).
  destruct (IH l q Hn' Hc) as [A B]. cbn [app spec].
  destruct a as [q0 n|q0 i r dg|q0 c|q0 c|p i c d|q0|q0]; cbn; auto; unfold upd.
  - destruct (Nat.eqb_spec q q0); [subst; exfalso; apply (Hn n); left; reflexivity|auto].
  - rewrite A. rewrite andb_false_r. auto.
  - destruct (Nat.eqb_spec q q0); auto.
Qed.

Lemma log_ok_app okrow async l1 : forall a t, log_ok okrow async (l1 ++ a :: t) -> act_ok okrow async t a /\ log_ok okrow async t.
Proof. induction l1 as [|x l1 IH]; intros a t H; cbn in H; [exact H|]. destruct H as [_ H]. apply IH. exact H. Qed.

(* the last accepted AUTH of a connection is in the log, so it was legitimate *)
Lemma last_auth_in l : forall q i r, last_auth l q = Some (i, r) -> exists l1 dg t, l = l1 ++ AAuth q i r dg :: t.
Proof.
  induction l as [|a l IH]; intros q i r H; [discriminate|].
  assert (K : last_auth l q = Some (i, r) -> exists l1 dg t, a :: l = l1 ++ AAuth q i r dg :: t).
  { intros H'. destruct (IH _ _ _ H') as (l1 & dg & t & E). exists (a :: l1), dg, t. rewrite E. reflexivity. }
  destruct a; cbn in H; try (apply K; exact H).
  - destruct (Nat.eqb_spec q0 q); [discriminate|apply K; exact H].
  - destruct (Nat.eqb_spec q0 q); [|apply K; exact H]. inversion H; subst. exists [], dg, l. reflexivity.
Qed.

Section Props.
Variable bname : bytes.
Variable store : ident -> lookup.
Variable async_store : bool.
Notation run := (run bname store async_store).
Notation step := (step bname store async_store).
Notation evo := (evo bname).
Notation Good := (Good (srow store) async_store).

Lemma good_run h : Good (run h).
Proof. apply run_good. Qed.

Lemma run_app h h' : run (h ++ h') = fold_left step h' (run h).
Proof. unfold Broker.run. apply fold_left_app. Qed.
Lemma evo_run h : forall s, evo s (fold_left step h s).
Proof. induction h as [|e h IH]; intros s; cbn; [apply evo_refl|]. eapply evo_trans; [apply step_evo|apply IH]. Qed.
Lemma run_evo h h' : evo (run h) (run (h ++ h')).
Proof. rewrite run_app. apply evo_run. Qed.

(* ---- C01 ------------------------------------------------------------------------------------------ *)
Theorem refines h q : pubs (out (conns (run h) q)) = sp_out (spec (alog (run h))) q.
Proof. destruct (good_run h) as (_ & O). apply O. Qed.
Theorem registry_is_spec h q : active (conns (run h) q) = sp_sub (spec (alog (run h))) q
                               /\ closing (conns (run h) q) = sp_closed (spec (alog (run h))) q.
Proof. destruct (good_run h) as ((_ & [R1 R2] & _) & _). split; [apply R1|apply R2]. Qed.
Theorem common_order h q : sublist (pubs (out (conns (run h) q))) (accepted (alog (run h))).
Proof. rewrite refines. apply sp_out_sublist. Qed.

(* ---- C03 / C04 ------------------------------------------------------------------------------------- *)
Theorem delivered_legit h q i c d : In (i, c, d) (pubs (out (conns (run h) q))) ->
  exists l1 p t, alog (run h) = l1 ++ APub p i c d :: t /\
    (exists r, last_auth t p = Some (i, r) /\ In c (r_pub r)) /\                  (* C03 *)
    (exists l2 t2 i2 r2, t = l2 ++ ASub q c :: t2 /\ last_auth t2 q = Some (i2, r2) /\ In c (r_sub r2)) /\  (* C04 *)
    sp_closed (spec t) q = false.
Proof.
  intros H. rewrite refines in H. destruct (sp_out_in _ _ _ _ _ H) as (l1 & p & t & E & Hs & Hc).
  exists l1, p, t. split; [exact E|].
  destruct (good_run h) as ((_ & _ & [_ _ L3]) & _). rewrite E in L3.
  destruct (log_ok_app _ _ _ _ _ L3) as (Ha & Lt). split; [exact Ha|]. split; [|exact Hc].
  apply memc_In in Hs. destruct (sp_sub_in _ _ _ Hs) as (l2 & t2 & E2). rewrite E2 in Lt.
  destruct (log_ok_app _ _ _ _ _ Lt) as ((i2 & r2 & A & B) & _). exists l2, t2, i2, r2. auto.
Qed.

(* an accepted AUTH answered this connection's own nonce with the stored secret *)
Theorem auth_legit h q i r : last_auth (alog (run h)) q = Some (i, r) ->
  exists l1 dg t n, alog (run h) = l1 ++ AAuth q i r dg :: t /\ conn_nonce t q = Some n /\
    dg = sha1 (n ++ r_secret r) /\ (async_store = false -> store i = LRow r).
Proof.
  intros H. destruct (last_auth_in _ _ _ _ H) as (l1 & dg & t & E).
  destruct (good_run h) as ((_ & _ & [_ _ L3]) & _). rewrite E in L3.
  destruct (log_ok_app _ _ _ _ _ L3) as ((n & A & B & C) & _). exists l1, dg, t, n. auto.
Qed.

(* nothing a connection sends is acted on unless it has authenticated (on this connection) before *)
Theorem acted_on_after_auth h l1 a t : alog (run h) = l1 ++ a :: t ->
  match a with
  | ASub q _ | AUnsub q _ | APub q _ _ _ => last_auth t q <> None
  | _ => True
  end.
Proof.
  intros E. destruct (good_run h) as ((_ & _ & [_ _ L3]) & _). rewrite E in L3.
  destruct (log_ok_app _ _ _ _ _ L3) as (Ha & _).
  destruct a; cbn in Ha; auto.
  - destruct Ha as (i & r & A & _). congruence.
  - destruct Ha as (r & A & _). congruence.
Qed.

(* ---- C04: the closing window ------------------------------------------------------------------------ *)
Theorem closing_silent h h' q : made (conns (run h) q) = true -> closing (conns (run h) q) = true ->
  closing (conns (run (h ++ h')) q) = true /\
  pubs (out (conns (run (h ++ h')) q)) = pubs (out (conns (run h) q)).
Proof.
  intros Hm Hc. destruct (run_evo h h') as [[new [El Ec]] _ K _ _ _].
  split; [apply K; assumption|].
  rewrite !refines, El. destruct (registry_is_spec h q) as [_ R2]. rewrite Hc in R2.
  apply closed_silent; [|symmetry; exact R2].
  intros n H. specialize (Ec _ _ H). congruence.
Qed.

(* ---- C08 ------------------------------------------------------------------------------------------- *)
Theorem follows_last_op h q c : memc c (active (conns (run h) q)) = holds (alog (run h)) q c.
Proof. destruct (registry_is_spec h q) as [R1 _]. rewrite R1. apply holds_spec. Qed.
Theorem registry_nodup h : (forall c, NoDup (subs (run h) c)) /\ (forall q, NoDup (active (conns (run h) q))) /\
  (forall q c, In q (subs (run h) c) <-> In c (active (conns (run h) q))).
Proof.
  destruct (good_run h) as (([I1 I2 I3 I4 _ _ _ _] & _) & _). split; [exact I3|]. split; [exact I4|].
  intros q c. split; [intros H; apply (I1 _ _ H)|apply I2].
Qed.

(* ---- C09 ------------------------------------------------------------------------------------------- *)
Lemma do_lost_forgets q s : made (conns s q) = true -> lost (conns s q) = false -> copen (conns (do_lost q s) q) = false.
Proof.
  intros Hm Hl. unfold do_lost. rewrite Hm, Hl. cbn [andb negb].
  cbn. unfold upd. rewrite Nat.eqb_refl. cbn.
  destruct (copen (conns (cl q s) q)) eqn:Ho.
  - unfold lostp. cbn. unfold upd. rewrite Nat.eqb_refl. reflexivity.
  - exact Ho.
Qed.
Theorem stays_forgotten h h' q : made (conns (run h) q) = true -> copen (conns (run h) q) = false ->
  let s := run (h ++ h') in
  copen (conns s q) = false /\ active (conns s q) = [] /\ (forall c, ~ In q (subs s c)).
Proof.
  intros Hm Ho s. destruct (run_evo h h') as [_ _ _ O _ _]. specialize (O q Hm Ho). fold s in O.
  destruct (good_run (h ++ h')) as (([I1 _ _ _ I5 _ _ _] & _) & _). fold s in I1, I5.
  split; [exact O|]. split; [apply I5; exact O|]. intros c H. destruct (I1 _ _ H) as [E _]. congruence.
Qed.
Theorem lost_forgotten h h' q : made (conns (run h) q) = true -> lost (conns (run h) q) = false ->
  let s := run (h ++ Lost q :: h') in
  copen (conns s q) = false /\ active (conns s q) = [] /\ (forall c, ~ In q (subs s c)).
Proof.
  intros Hm Hl. replace (h ++ Lost q :: h') with ((h ++ [Lost q]) ++ h') by (rewrite <- app_assoc; reflexivity).
  apply stays_forgotten.
  - destruct (run_evo h [Lost q]) as [_ M _ _ _ _]. apply M. exact Hm.
  - rewrite run_app. cbn. apply do_lost_forgets; assumption.
Qed.

(* ---- C02: the first thing written is OP_INFO with this connection's nonce --------------------------- *)
Theorem info_first h : forall q, made (conns (run h) q) = true ->
  exists l, out (conns (run h) q) = l ++ [FInfo bname (nonce (conns (run h) q))].
Proof.
  intros q Hm. pose proof (run_evo [] h) as E. cbn [app] in E.
  destruct E as [_ _ _ _ _ _ N]. apply N; [reflexivity|exact Hm].
Qed.
Theorem state_is_log h q :
  match last_auth (alog (run h)) q with
  | Some (i, r) => ak (conns (run h) q) = Some i /\ pubchans (conns (run h) q) = r_pub r /\
                   subchans (conns (run h) q) = r_sub r
  | None => ak (conns (run h) q) = None
  end.
Proof. destruct (good_run h) as ((_ & _ & [L _ _]) & _). apply L. Qed.
Theorem registry_live h c q : In q (subs (run h) c) ->
  copen (conns (run h) q) = true /\ In c (active (conns (run h) q)).
Proof. intros H. destruct (good_run h) as (([I1 _ _ _ _ _ _ _] & _) & _). apply I1. exact H. Qed.
Theorem publish_proceeds h p c d i r :
  last_auth (alog (run h)) p = Some (i, r) -> In c (r_pub r) ->
  exists s', publish p c d (run h) = Ok s' /\ Good s'.
Proof. intros. eapply publish_good; eauto. apply good_run. Qed.

(* ---- what a refusal does: OP_ERROR to the offender (if its transport still takes bytes), the
        offender is closing, and nothing else changes ------------------------------------------------- *)
Lemma bad_effect q s :
  closing (conns (bad q s) q) = true /\
  out (conns (bad q s) q) = (if lost (conns s q) || aborted (conns s q) then out (conns s q)
                             else FError :: out (conns s q)) /\
  active (conns (bad q s) q) = active (conns s q) /\ ak (conns (bad q s) q) = ak (conns s q) /\
  (forall q', q' <> q -> conns (bad q s) q' = conns s q') /\ subs (bad q s) = subs s /\
  (alog (bad q s) = alog s \/ alog (bad q s) = AClose q :: alog s).
Proof.
  unfold bad, cl, wr. destruct (lost (conns s q) || aborted (conns s q)) eqn:E1.
  - destruct (closing (conns s q)) eqn:E2.
    + repeat split; auto.
    + cbn. unfold upd. rewrite Nat.eqb_refl. cbn. repeat split; auto.
      intros q' N. destruct (Nat.eqb_spec q' q); [congruence|reflexivity].
  - cbn. unfold upd. rewrite Nat.eqb_refl. cbn. destruct (closing (conns s q)) eqn:E2; cbn.
    + unfold upd. rewrite Nat.eqb_refl. cbn. repeat split; auto.
      intros q' N. destruct (Nat.eqb_spec q' q); [congruence|reflexivity].
    + unfold upd. rewrite !Nat.eqb_refl. cbn. repeat split; auto.
      intros q' N. destruct (Nat.eqb_spec q' q); [congruence|reflexivity].
Qed.

Theorem preauth_reject k q op body s : ak (conns s q) = None -> op <> 2%Z ->
  handle store async_store k q op body s = (Ok (bad q s), false).
Proof.
  intros Hak Hop. unfold handle. destruct (Z.eqb_spec op 2); [congruence|]. rewrite Hak. reflexivity.
Qed.
Theorem unknown_ident_reject k q i dg s : authenticate k q i dg LNone s = Ok (bad q s).
Proof. reflexivity. Qed.
Theorem wrong_digest_reject k q i dg r s : dg <> sha1 (nonce (conns s q) ++ r_secret r) ->
  authenticate k q i dg (LRow r) s = Ok (bad q s).
Proof.
  intros H. unfold authenticate. destruct (bytes_eqb_spec (sha1 (nonce (conns s q) ++ r_secret r)) dg); [congruence|reflexivity].
Qed.
Theorem spoofed_publish_reject q i c d s me : ak (conns s q) = Some me ->
  i <> me \/ ~ In c (pubchans (conns s q)) -> on_publish q i c d s = Ok (bad q s).
Proof.
  intros Hak H. unfold on_publish. rewrite Hak. destruct (bytes_eqb_spec i me); cbn; [|reflexivity].
  destruct H as [H|H]; [congruence|]. apply memc_false in H. rewrite H. reflexivity.
Qed.
Theorem forbidden_subscribe_reject q c s : ~ In c (subchans (conns s q)) -> on_subscribe q c s = Ok (bad q s).
Proof. intros H. unfold on_subscribe. apply memc_false in H. rewrite H. reflexivity. Qed.

End Props.
