(* AioFacts.v — invariants of the asyncio ClientSession model (C11, C12, C13). *)
From Coq Require Import ZArith List Bool Arith Lia.
From Coq Require Import Strings.Byte.
From HP Require Import Bytes Utf8 Sha1 Wire WireFacts ParamsOK AioSession.
Import ListNotations.
Local Arguments memb : simpl never.

Lemma upd_conn_length k f l : length (upd_conn k f l) = length l.
Proof. revert k; induction l as [|c t IH]; intros [|k]; cbn; auto. Qed.
Lemma upd_conn_nth k f l j : nth_error (upd_conn k f l) j =
  if Nat.eqb j k then option_map f (nth_error l j) else nth_error l j.
Proof.
  revert k j; induction l as [|c t IH]; intros [|k] [|j]; cbn; auto; try (destruct (Nat.eqb _ _); reflexivity).
Qed.

Section AF.
Variable ident secret : bytes.
Hypothesis ident_fits : (zlen ident <= 255)%Z.          (* otherwise struct.pack refuses every frame the client builds *)
Notation astep := (astep ident secret).
Notation arun := (arun ident secret).
Notation on_frame := (on_frame ident secret).
Notation drainc := (drainc ident secret).
Notation do_data := (do_data ident secret).
Notation render := (render ident secret).
Notation wrk := (wrk ident secret).
Notation do_sub := (do_sub ident secret).
Notation do_unsub := (do_unsub ident secret).
Notation do_pub := (do_pub ident secret).

Lemma render_auth r : render (FAuth r) <> None.
Proof.
  cbn. unfold msgauth, msgauth_digest, strpack8. destruct (zlen ident <=? 255)%Z eqn:E; [discriminate|lia].
Qed.
Lemma render_sub c : render (FSub c) <> None.
Proof. cbn. unfold msgsubscribe, strpack8. destruct (zlen ident <=? 255)%Z eqn:E; [discriminate|lia]. Qed.
Lemma render_unsub c : render (FUnsub c) <> None.
Proof. cbn. unfold msgunsubscribe, strpack8. destruct (zlen ident <=? 255)%Z eqn:E; [discriminate|lia]. Qed.

(* ================= C12: every PUBLISH handed to the session is read exactly once, in order ============== *)
Definition Q (s : asess) : Prop := delivered s ++ queue s = recvd s.
Definition qd (s : asess) := (queue s, delivered s, recvd s).

Lemma Q_of_qd s s' : qd s' = qd s -> Q s -> Q s'.
Proof. unfold qd, Q. intros H. injection H. intros -> -> ->. auto. Qed.

Lemma modk_qd k f s : qd (modk k f s) = qd s. Proof. reflexivity. Qed.
Lemma wrk_qd k f s : qd (wrk k f s) = qd s. Proof. unfold AioSession.wrk. destruct (render f); reflexivity. Qed.
Lemma closek_qd k s : qd (closek k s) = qd s. Proof. reflexivity. Qed.
Lemma setbuf_qd k b s : qd (setbuf k b s) = qd s. Proof. reflexivity. Qed.
Lemma fold_wrk_qd k l : forall s, qd (fold_left (fun st t => wrk k (FSub t) st) l s) = qd s.
Proof. induction l as [|t l IH]; intros s; cbn; [reflexivity|]. rewrite IH. apply wrk_qd. Qed.

Lemma on_frame_Q k op body s : Q s -> Q (fst (on_frame k op body s)).
Proof.
  intros H. unfold AioSession.on_frame.
  destruct (op =? 1)%Z.
  { destruct (readinfo body) as [[n r]|]; [|exact H]. destruct (msgauth r ident secret); [|exact H].
    match goal with |- context [fold_left ?F ?L ?S0] => pose proof (fold_wrk_qd k L S0) as E; set (s3 := fold_left F L S0) in * end.
    assert (Q3 : Q s3). { eapply Q_of_qd; [exact E|]. eapply Q_of_qd; [|exact H]. reflexivity. }
    destruct (wc_done s3); [exact Q3|]. eapply Q_of_qd; [|exact Q3]. reflexivity. }
  destruct (op =? 3)%Z.
  { destruct (readpublish body) as [m|]; [|exact H]. unfold Q in *. cbn. rewrite app_assoc, H. reflexivity. }
  destruct (op =? 0)%Z; [exact H|].
  destruct (op =? 2)%Z; [destruct (readauth body); exact H|].
  destruct (op =? 4)%Z; [destruct (readsubscribe body); exact H|].
  destruct (op =? 5)%Z; [destruct (readunsubscribe body); exact H|]. exact H.
Qed.
Lemma drainc_Q fuel k : forall s, Q s -> Q (fst (drainc fuel k s)).
Proof.
  induction fuel as [|f IH]; intros s H; [exact H|]. cbn [AioSession.drainc].
  destruct (next limitP _) as [|c|op body rest]; [exact H|exact H|].
  pose proof (on_frame_Q k op body (setbuf k rest s) H) as H1.
  destruct (on_frame k op body (setbuf k rest s)) as [s1 exn]. cbn in H1. destruct exn; [exact H1|]. apply IH. exact H1.
Qed.
Lemma run_reconnect_qd s : qd (run_reconnect s) = qd s.
Proof.
  unfold run_reconnect, loop_top. destruct (cancel_req s); [destruct (pc s); reflexivity|].
  destruct (pc s); try reflexivity; try (destruct (closing s); reflexivity). destruct (outcome s) as [[|]|]; reflexivity.
Qed.
Lemma run_close_qd s : qd (run_close s) = qd s.
Proof.
  unfold run_close. destruct (cst s); try reflexivity.
  - cbn. destruct (tr s); [reflexivity|]. destruct (pc s); reflexivity.
  - destruct (wcl_done s); reflexivity.
Qed.
Lemma run_loop_qd fuel : forall s, qd (run_loop fuel s) = qd s.
Proof.
  induction fuel as [|f IH]; intros s; [reflexivity|]. cbn [run_loop].
  destruct (ready s) as [|[|] t]; [reflexivity| |]; rewrite IH; [rewrite run_reconnect_qd|rewrite run_close_qd]; reflexivity.
Qed.
Lemma serve_reads_Q s : Q s -> Q (serve_reads s).
Proof.
  unfold Q, serve_reads. cbn. intros H. rewrite <- app_assoc, firstn_skipn. exact H.
Qed.
Lemma do_idle_Q s : Q s -> Q (do_idle s).
Proof. intros H. unfold do_idle. apply serve_reads_Q. eapply Q_of_qd; [apply run_loop_qd|exact H]. Qed.

Theorem step_Q s e : Q s -> Q (astep s e).
Proof.
  intros H. destruct e; cbn [AioSession.astep].
  - apply do_idle_Q; exact H.
  - unfold resolve. destruct (_ && _); [|exact H]. apply do_idle_Q. eapply Q_of_qd; [|exact H]. reflexivity.
  - unfold resolve. destruct (_ && _); [|exact H]. apply do_idle_Q. eapply Q_of_qd; [|exact H]. reflexivity.
  - unfold do_adv. pose proof (do_idle_Q s H) as H0. destruct (pc (do_idle s)); try exact H0.
    destruct (_ <=? _)%nat; [apply do_idle_Q|]; (eapply Q_of_qd; [|exact H0]); reflexivity.
  - unfold AioSession.do_data. destruct (_ && _); [|exact H].
    match goal with |- context [drainc ?F k ?S0] => pose proof (drainc_Q F k S0 H) as H1; destruct (drainc F k S0) as [s1 exn] end.
    cbn in H1. destruct exn; [|exact H1]. eapply Q_of_qd; [|exact H1]. reflexivity.
  - unfold do_lost. destruct (_ && _); [|exact H]. destruct (wcl_done _); (eapply Q_of_qd; [|exact H]); reflexivity.
  - unfold AioSession.do_sub. destruct (memb c (wanted s)); [exact H|]. cbn. destruct (cur s); [|exact H].
    eapply Q_of_qd; [apply wrk_qd|exact H].
  - unfold AioSession.do_unsub. destruct (memb c (wanted s)); [|exact H]. cbn. destruct (cur s); [|exact H].
    eapply Q_of_qd; [apply wrk_qd|exact H].
  - unfold AioSession.do_pub. destruct (cur s); [|exact H]. eapply Q_of_qd; [apply wrk_qd|exact H].
  - exact H.
  - unfold do_close. destruct (cst s); exact H.
Qed.
Theorem run_Q es : Q (arun es).
Proof.
  unfold AioSession.arun. assert (X : forall s, Q s -> Q (fold_left astep es s)).
  { induction es as [|e es IH]; intros s H; cbn; [exact H|]. apply IH. apply step_Q. exact H. }
  apply X. reflexivity.
Qed.
(* ================= C11: nothing before OP_INFO; the first frame answers this connection's nonce; then the
   wanted topics are (re)subscribed ========================================================================= *)
Definition CI (c : aconn) : Prop :=
  match cnonce c with
  | None => cout c = []                                         (* silent until an OP_INFO has arrived *)
  | Some n => exists rest, cout c = rest ++ [FAuth n]           (* oldest frame: OP_AUTH for the first nonce seen *)
  end.
(* net effect of the SUBSCRIBE / UNSUBSCRIBE frames sent since the last OP_AUTH *)
Fixpoint replay_from (acc : list bytes) (l : list cfr) : list bytes :=
  match l with
  | [] => acc
  | FAuth _ :: t => replay_from [] t
  | FSub c :: t => replay_from (if memb c acc then acc else c :: acc) t
  | FUnsub c :: t => replay_from (rmb c acc) t
  | FPubl _ _ :: t => replay_from acc t
  end.
Definition replay (l : list cfr) : list bytes := replay_from [] l.
Definition rstep (acc : list bytes) (f : cfr) : list bytes :=
  match f with FAuth _ => [] | FSub c => if memb c acc then acc else c :: acc | FUnsub c => rmb c acc | FPubl _ _ => acc end.
Lemma replay_from_snoc l : forall acc f, replay_from acc (l ++ [f]) = rstep (replay_from acc l) f.
Proof. induction l as [|x l IH]; intros acc f; [destruct f; reflexivity|]. destruct x; cbn; apply IH. Qed.
Lemma replay_cons f l : replay (rev (f :: l)) = rstep (replay (rev l)) f.
Proof. cbn [rev]. unfold replay. apply replay_from_snoc. Qed.

Lemma memb_In c l : memb c l = true <-> In c l.
Proof.
  unfold memb. rewrite existsb_exists. split.
  - intros [y [Hy E]]. apply bytes_eqb_eq in E. subst. exact Hy.
  - intros H. exists c. split; [exact H|apply bytes_eqb_refl].
Qed.
Lemma memb_cons t c l : memb t (c :: l) = bytes_eqb t c || memb t l.
Proof. reflexivity. Qed.
Lemma In_rmb c y l : In y (rmb c l) -> In y l.
Proof. induction l as [|z t IH]; cbn [rmb]; [tauto|]. destruct (bytes_eqb z c); cbn [In]; tauto. Qed.
Lemma NoDup_rmb c l : NoDup l -> NoDup (rmb c l) /\ ~ In c (rmb c l).
Proof.
  induction 1 as [|y t Hy Ht IH]; cbn [rmb]; [split; [constructor|cbn; tauto]|].
  destruct (bytes_eqb y c) eqn:E.
  - apply bytes_eqb_eq in E. subst. split; assumption.
  - destruct IH as [IH1 IH2]. split.
    + constructor; [|assumption]. intro H. apply Hy. eapply In_rmb; eassumption.
    + intros [E'|H]; [subst; rewrite bytes_eqb_refl in E; discriminate|tauto].
Qed.
Lemma memb_rmb t c l : NoDup l -> memb t (rmb c l) = negb (bytes_eqb t c) && memb t l.
Proof.
  intros ND. destruct (bytes_eqb t c) eqn:E.
  - apply bytes_eqb_eq in E. subst. cbn [negb andb]. destruct (memb c (rmb c l)) eqn:M; [|reflexivity].
    apply memb_In in M. destruct (NoDup_rmb c l ND) as [_ X]. contradiction.
  - cbn [negb andb]. induction l as [|z u IH]; [reflexivity|]. inversion ND; subst. cbn [rmb].
    destruct (bytes_eqb z c) eqn:Ez.
    + apply bytes_eqb_eq in Ez. subst. rewrite memb_cons, E. reflexivity.
    + rewrite !memb_cons, IH by assumption. reflexivity.
Qed.
Lemma rstep_nodup acc f : NoDup acc -> NoDup (rstep acc f).
Proof.
  intros H. destruct f; cbn; [constructor| |apply NoDup_rmb; exact H|exact H].
  destruct (memb c acc) eqn:M; [exact H|]. constructor; [|exact H]. intro X. apply memb_In in X. congruence.
Qed.
Lemma replay_from_nodup l : forall acc, NoDup acc -> NoDup (replay_from acc l).
Proof.
  induction l as [|x l IH]; intros acc H; [exact H|]. destruct x; cbn; apply IH.
  - constructor.
  - apply (rstep_nodup acc (FSub c) H).
  - apply (rstep_nodup acc (FUnsub c) H).
  - exact H.
Qed.
Lemma replay_nodup l : NoDup (replay l).
Proof. apply replay_from_nodup. constructor. Qed.

Record A (s : asess) : Prop := {
  a_ci : forall k c, nth_error (conns s) k = Some c -> CI c;
  a_cur : forall k, cur s = Some k -> exists c, nth_error (conns s) k = Some c /\ cnonce c <> None;
  a_nodup : NoDup (wanted s);
  a_resub : forall k c, cur s = Some k -> nth_error (conns s) k = Some c ->
            forall t, memb t (replay (rev (cout c))) = memb t (wanted s) }.

(* updates that touch neither what was sent nor the nonce *)
Definition keeps (f : aconn -> aconn) : Prop := forall c, cout (f c) = cout c /\ cnonce (f c) = cnonce c.
Lemma modk_keeps_A k f s : keeps f -> A s -> A (modk k f s).
Proof.
  intros Hf [A1 A2 A3 A4]. constructor; cbn.
  - intros j c H. rewrite upd_conn_nth in H. destruct (Nat.eqb j k); [|eauto].
    destruct (nth_error (conns s) j) as [c0|] eqn:E; [|discriminate]. cbn in H. inversion H; subst.
    specialize (A1 _ _ E). unfold CI in *. destruct (Hf c0) as [-> ->]. exact A1.
  - intros j H. destruct (A2 _ H) as (c0 & E & N). rewrite upd_conn_nth, E. destruct (Nat.eqb j k); cbn; eexists; split; eauto.
    destruct (Hf c0) as [_ ->]. exact N.
  - exact A3.
  - intros j c Hc H t. rewrite upd_conn_nth in H. destruct (Nat.eqb j k); [|eauto].
    destruct (nth_error (conns s) j) as [c0|] eqn:E; [|discriminate]. cbn in H. inversion H; subst.
    destruct (Hf c0) as [-> _]. eauto.
Qed.
Lemma closek_A k s : A s -> A (closek k s).
Proof. apply modk_keeps_A. intros c. split; reflexivity. Qed.
Lemma setbuf_A k b s : A s -> A (setbuf k b s).
Proof. apply modk_keeps_A. intros c. split; reflexivity. Qed.

(* the control fields the invariant does not read *)
Definition same_A (s s' : asess) : Prop := conns s' = conns s /\ cur s' = cur s /\ wanted s' = wanted s.
Lemma A_same s s' : same_A s s' -> A s -> A s'.
Proof. intros (E1 & E2 & E3) [A1 A2 A3 A4]. constructor; rewrite ?E1, ?E2, ?E3; auto. Qed.

Definition push (f : cfr) (c : aconn) : aconn := mkac (cbuf c) (f :: cout c) (cclosing c) (clost c) (caborted c) (cnonce c).
Lemma wrk_is k f s : render f <> None -> wrk k f s = modk k (push f) s.
Proof. intros H. unfold AioSession.wrk. destruct (render f); [reflexivity|congruence]. Qed.
Lemma CI_push f c : cnonce c <> None -> CI c -> CI (push f c).
Proof.
  unfold CI, push. cbn. destruct (cnonce c) as [n|]; [|congruence]. intros _ [rest E]. exists (f :: rest). rewrite E. reflexivity.
Qed.

(* an application request on the current connection: the frame goes out and the wanted set moves with it *)
Lemma app_write_A k f w s :
  A s -> cur s = Some k -> render f <> None -> NoDup w ->
  (forall t, memb t (rstep (wanted s) f) = memb t w) ->
  (forall acc, (forall t, memb t acc = memb t (wanted s)) -> NoDup acc -> forall t, memb t (rstep acc f) = memb t w) ->
  A (wrk k f (setwanted w s)).
Proof.
  intros [A1 A2 A3 A4] Hc Hr Hw _ Hstep. rewrite (wrk_is _ _ _ Hr). constructor; cbn.
  - intros j c H. rewrite upd_conn_nth in H. destruct (Nat.eqb_spec j k); [subst|eauto].
    destruct (nth_error (conns s) k) as [c0|] eqn:E; [|discriminate]. cbn in H. inversion H; subst.
    destruct (A2 _ Hc) as (c1 & E1 & N). rewrite E in E1. inversion E1; subst. apply CI_push; eauto.
  - intros j H. destruct (A2 _ H) as (c0 & E & N). rewrite upd_conn_nth, E. destruct (Nat.eqb j k); cbn; eexists; split; eauto.
  - exact Hw.
  - intros j c Hj H t. rewrite Hc in Hj. inversion Hj; subst j. rewrite upd_conn_nth, Nat.eqb_refl in H.
    destruct (nth_error (conns s) k) as [c0|] eqn:E; [|discriminate]. cbn in H. inversion H; subst. cbn [cout push].
    rewrite replay_cons. apply Hstep; [intros t'; eapply A4; eauto|apply replay_nodup].
Qed.

Lemma do_sub_A c s : A s -> A (do_sub c s).
Proof.
  intros HA. unfold AioSession.do_sub. destruct (memb c (wanted s)) eqn:M; [exact HA|].
  assert (ND : NoDup (c :: wanted s)).
  { constructor; [intro X; apply memb_In in X; congruence|apply HA]. }
  cbn. destruct (cur s) as [k|] eqn:Hc.
  - apply app_write_A; [exact HA|exact Hc|apply render_sub|exact ND| |].
    + intros t. cbn. rewrite M. reflexivity.
    + intros acc Hacc _ t. cbn. destruct (memb c acc) eqn:Mc.
      * rewrite Hacc in Mc. congruence.
      * rewrite !memb_cons, Hacc. reflexivity.
  - destruct HA as [A1 A2 A3 A4]. constructor; cbn; auto; intros; congruence.
Qed.
Lemma do_unsub_A c s : A s -> A (do_unsub c s).
Proof.
  intros HA. unfold AioSession.do_unsub. destruct (memb c (wanted s)) eqn:M; [|exact HA].
  assert (ND : NoDup (rmb c (wanted s))) by (apply NoDup_rmb; apply HA).
  cbn. destruct (cur s) as [k|] eqn:Hc.
  - apply app_write_A; [exact HA|exact Hc|apply render_unsub|exact ND| |].
    + intros t. reflexivity.
    + intros acc Hacc NDa t. cbn. rewrite !memb_rmb by (assumption || apply HA). rewrite Hacc. reflexivity.
  - destruct HA as [A1 A2 A3 A4]. constructor; cbn; auto; intros; congruence.
Qed.
Lemma do_pub_A c d s : A s -> A (do_pub c d s).
Proof.
  intros HA. unfold AioSession.do_pub. destruct (cur s) as [k|] eqn:Hc; [|exact HA].
  destruct (render (FPubl c d)) eqn:Er; [|unfold AioSession.wrk; rewrite Er; exact HA].
  replace s with (setwanted (wanted s) s) at 1 by (destruct s; reflexivity).
  apply app_write_A; [exact HA|exact Hc|congruence|apply HA|intros; reflexivity|].
  intros acc Hacc _ t. cbn. apply Hacc.
Qed.

(* ---- OP_INFO: answer the challenge, then (re)subscribe everything wanted ------------------------------- *)
Lemma upd_conn_comp k f g l : upd_conn k g (upd_conn k f l) = upd_conn k (fun c => g (f c)) l.
Proof. revert k; induction l as [|c t IHl]; intros [|k]; cbn; auto. rewrite IHl. reflexivity. Qed.
Definition pushl (fs : list cfr) (c : aconn) : aconn := fold_left (fun c f => push f c) fs c.
Lemma pushl_fields fs : forall c, cout (pushl fs c) = rev fs ++ cout c /\ cnonce (pushl fs c) = cnonce c /\
  cbuf (pushl fs c) = cbuf c /\ cclosing (pushl fs c) = cclosing c /\ clost (pushl fs c) = clost c /\ caborted (pushl fs c) = caborted c.
Proof.
  induction fs as [|f fs IH]; intros c; cbn; [repeat split; reflexivity|]. destruct (IH (push f c)) as (A0 & B0 & C0 & D0 & E0 & F0).
  unfold pushl in *. rewrite A0, B0, C0, D0, E0, F0. cbn. rewrite <- app_assoc. repeat split; reflexivity.
Qed.
Lemma replay_from_app l1 : forall acc l2, replay_from acc (l1 ++ l2) = replay_from (replay_from acc l1) l2.
Proof. induction l1 as [|x l1 IH]; intros acc l2; [reflexivity|]. destruct x; cbn; apply IH. Qed.
Lemma replay_subs w t : forall acc, memb t (replay_from acc (map FSub w)) = memb t acc || memb t w.
Proof.
  induction w as [|c w IH]; intros acc; cbn [map replay_from]; [rewrite orb_false_r; reflexivity|].
  rewrite IH. rewrite memb_cons. destruct (memb c acc) eqn:M.
  - destruct (bytes_eqb t c) eqn:E; [|reflexivity]. apply bytes_eqb_eq in E. subst. rewrite M. reflexivity.
  - rewrite memb_cons. destruct (bytes_eqb t c); destruct (memb t acc); reflexivity.
Qed.

Definition authpush (rand : bytes) (c : aconn) : aconn :=
  mkac (cbuf c) (FAuth rand :: cout c) (cclosing c) (clost c) (caborted c) (match cnonce c with None => Some rand | n => n end).
Lemma CI_authpush rand c : CI c -> CI (authpush rand c) /\ cnonce (authpush rand c) <> None.
Proof.
  unfold CI, authpush. cbn. destruct (cnonce c) as [n|].
  - intros [rest E]. split; [exists (FAuth rand :: rest); rewrite E; reflexivity|discriminate].
  - intros E. split; [exists []; rewrite E; reflexivity|discriminate].
Qed.

(* state after connection_ready's loop, as one update of connection k *)
Lemma burst_fold k l : forall s, 
  conns (fold_left (fun st t => wrk k (FSub t) st) l s) = upd_conn k (pushl (map FSub l)) (conns s) /\
  cur (fold_left (fun st t => wrk k (FSub t) st) l s) = cur s /\ wanted (fold_left (fun st t => wrk k (FSub t) st) l s) = wanted s /\
  wc_done (fold_left (fun st t => wrk k (FSub t) st) l s) = wc_done s.
Proof.
  induction l as [|t l IH]; intros s; cbn [fold_left map].
  - split; [|auto]. clear. generalize (conns s). intros l0. revert k; induction l0 as [|c u IH]; intros [|k]; cbn; auto. rewrite <- IH. reflexivity.
  - destruct (IH (wrk k (FSub t) s)) as (E1 & E2 & E3 & E4). rewrite E1, E2, E3, E4.
    rewrite (wrk_is _ _ _ (render_sub t)). cbn. rewrite upd_conn_comp. auto.
Qed.

Lemma info_A_gen k rand s s3 : A s -> (k < length (conns s))%nat ->
  conns s3 = upd_conn k (fun c => pushl (map FSub (wanted s)) (authpush rand c)) (conns s) ->
  cur s3 = Some k -> wanted s3 = wanted s -> A s3.
Proof.
  intros [A1 A2 A3 A4] Hk E1 E2 E3.
  destruct (nth_error (conns s) k) as [c0|] eqn:Ek; [|apply nth_error_None in Ek; lia].
  set (g := fun c => pushl (map FSub (wanted s)) (authpush rand c)) in *.
  assert (Fg : cout (g c0) = rev (map FSub (wanted s)) ++ FAuth rand :: cout c0 /\ cnonce (g c0) = cnonce (authpush rand c0)).
  { unfold g. destruct (pushl_fields (map FSub (wanted s)) (authpush rand c0)) as (X & Y & _). rewrite X, Y. auto. }
  constructor.
  - intros j c H. rewrite E1, upd_conn_nth in H. destruct (Nat.eqb_spec j k); [subst|eauto].
    rewrite Ek in H. cbn in H. inversion H; subst. destruct Fg as [Fo Fn].
    destruct (CI_authpush rand c0 (A1 _ _ Ek)) as [C1 C2]. unfold CI in *. rewrite Fn.
    destruct (cnonce (authpush rand c0)) as [n|]; [|congruence]. destruct C1 as [rest Er]. cbn in Er.
    rewrite Fo. exists (rev (map FSub (wanted s)) ++ rest). rewrite <- app_assoc. f_equal. exact Er.
  - intros j H. rewrite E2 in H. inversion H; subst j. exists (g c0). rewrite E1, upd_conn_nth, Nat.eqb_refl, Ek. split; [reflexivity|].
    destruct Fg as [_ ->]. apply CI_authpush. eauto.
  - rewrite E3. exact A3.
  - intros j c Hj H t. rewrite E2 in Hj. inversion Hj; subst j. rewrite E1, upd_conn_nth, Nat.eqb_refl, Ek in H. cbn in H. inversion H; subst.
    destruct Fg as [-> _]. rewrite E3. rewrite rev_app_distr, rev_involutive. cbn [rev]. rewrite <- app_assoc. cbn [app].
    unfold replay. rewrite replay_from_app. cbn [replay_from]. rewrite replay_subs. reflexivity.
Qed.

Lemma A_weaken s s' : conns s' = conns s -> wanted s' = wanted s -> (cur s' = cur s \/ cur s' = None) -> A s -> A s'.
Proof.
  intros E1 E3 E2 [A1 A2 A3 A4]. constructor; rewrite ?E1, ?E3; auto.
  - intros k H. destruct E2 as [E2|E2]; rewrite E2 in H; [eauto|discriminate].
  - intros k c H. destruct E2 as [E2|E2]; rewrite E2 in H; [eauto|discriminate].
Qed.

Lemma on_frame_len k op body s : length (conns (fst (on_frame k op body s))) = length (conns s).
Proof.
  unfold AioSession.on_frame.
  destruct (op =? 1)%Z.
  { destruct (readinfo body) as [[n r]|]; [|reflexivity]. destruct (msgauth r ident secret); [|reflexivity].
    match goal with |- context [fold_left ?F ?L ?S0] => destruct (burst_fold k L S0) as (E1 & _); set (s3 := fold_left F L S0) in * end.
    clearbody s3. cbn in E1. destruct (wc_done s3); cbn; rewrite E1, !upd_conn_length; reflexivity. }
  destruct (op =? 3)%Z; [destruct (readpublish body); reflexivity|].
  destruct (op =? 0)%Z; [reflexivity|].
  destruct (op =? 2)%Z; [destruct (readauth body); cbn; [apply upd_conn_length|reflexivity]|].
  destruct (op =? 4)%Z; [destruct (readsubscribe body); cbn; [apply upd_conn_length|reflexivity]|].
  destruct (op =? 5)%Z; [destruct (readunsubscribe body); cbn; [apply upd_conn_length|reflexivity]|].
  cbn. apply upd_conn_length.
Qed.

Lemma on_frame_A k op body s : A s -> (k < length (conns s))%nat -> A (fst (on_frame k op body s)).
Proof.
  intros HA Hk. unfold AioSession.on_frame.
  destruct (op =? 1)%Z.
  { destruct (readinfo body) as [[n r]|]; [|exact HA]. destruct (msgauth r ident secret); [|exact HA].
    match goal with |- context [fold_left ?F ?L ?S0] => destruct (burst_fold k L S0) as (E1 & E2 & E3 & _); set (s3 := fold_left F L S0) in * end.
    clearbody s3. cbn in E1, E2, E3. rewrite upd_conn_comp in E1.
    assert (A3' : A s3) by (eapply (info_A_gen k r s s3); eauto).
    destruct (wc_done s3); cbn; [exact A3'|]. eapply A_weaken; [| | |exact A3']; auto. }
  destruct (op =? 3)%Z.
  { destruct (readpublish body) as [m|]; [|exact HA]. cbn. eapply A_weaken; [| | |exact HA]; auto. }
  destruct (op =? 0)%Z; [exact HA|].
  destruct (op =? 2)%Z; [destruct (readauth body); cbn; [apply closek_A|]; exact HA|].
  destruct (op =? 4)%Z; [destruct (readsubscribe body); cbn; [apply closek_A|]; exact HA|].
  destruct (op =? 5)%Z; [destruct (readunsubscribe body); cbn; [apply closek_A|]; exact HA|].
  cbn. apply closek_A. exact HA.
Qed.
Lemma drainc_A fuel k : forall s, A s -> (k < length (conns s))%nat -> A (fst (drainc fuel k s)).
Proof.
  induction fuel as [|f IH]; intros s HA Hk; [exact HA|]. cbn [AioSession.drainc].
  destruct (next limitP _) as [|c|op body rest]; [exact HA|apply closek_A; exact HA|].
  assert (HA1 : A (setbuf k rest s)) by (apply setbuf_A; exact HA).
  assert (Hk1 : (k < length (conns (setbuf k rest s)))%nat) by (cbn; rewrite upd_conn_length; exact Hk).
  pose proof (on_frame_A k op body _ HA1 Hk1) as H1. pose proof (on_frame_len k op body (setbuf k rest s)) as L1.
  destruct (on_frame k op body (setbuf k rest s)) as [s1 exn]. cbn in H1, L1. destruct exn; [exact H1|].
  apply IH; [exact H1|]. rewrite L1. exact Hk1.
Qed.

Lemma run_reconnect_A s : A s -> A (run_reconnect s).
Proof.
  intros HA. unfold run_reconnect, loop_top. destruct (cancel_req s).
  - destruct (pc s); try exact HA; (eapply A_weaken; [| | |exact HA]; auto).
  - destruct (pc s); try exact HA.
    + destruct (closing s); (eapply A_weaken; [| | |exact HA]; auto).
    + destruct (outcome s) as [[|]|]; try exact HA; (eapply A_weaken; [| | |exact HA]; auto).
    + eapply A_weaken; [| | |exact HA]; auto.
    + cbn. destruct (closing s); (eapply A_weaken; [| | |exact HA]; auto).
Qed.
Lemma run_close_A s : A s -> A (run_close s).
Proof.
  intros HA. unfold run_close. destruct (cst s); try exact HA.
  - cbn. destruct (tr s) as [k|].
    + eapply A_weaken; [| | |apply (closek_A k); exact HA]; auto.
    + destruct (pc s); (eapply A_weaken; [| | |exact HA]; auto).
  - destruct (wcl_done s); [|exact HA]. eapply A_weaken; [| | |exact HA]; auto.
Qed.
Lemma pop_ready_A s : A s -> A (pop_ready s).
Proof. intros HA. eapply A_weaken; [| | |exact HA]; auto. Qed.
Lemma run_loop_A fuel : forall s, A s -> A (run_loop fuel s).
Proof.
  induction fuel as [|f IH]; intros s HA; [exact HA|]. cbn [run_loop].
  destruct (ready s) as [|[|] t]; [exact HA| |]; apply IH; [apply run_reconnect_A|apply run_close_A]; apply pop_ready_A; exact HA.
Qed.
Lemma do_idle_A s : A s -> A (do_idle s).
Proof. intros HA. unfold do_idle. apply (A_weaken (run_loop 8 s)); [reflexivity|reflexivity|left; reflexivity|apply run_loop_A; exact HA]. Qed.

Lemma resolve_A ok s : A s -> A (resolve ok s).
Proof.
  intros HA. unfold resolve. destruct (_ && _); [|exact HA]. apply do_idle_A. destruct ok.
  - destruct HA as [A1 A2 A3 A4]. constructor; cbn.
    + intros j c H. destruct (Nat.lt_ge_cases j (length (conns s))) as [L|L].
      * rewrite nth_error_app1 in H by exact L. eauto.
      * rewrite nth_error_app2 in H by exact L. destruct (j - length (conns s))%nat as [|[|]]; cbn in H; inversion H. reflexivity.
    + intros j H. destruct (A2 _ H) as (c0 & E & N). exists c0. split; [|exact N].
      rewrite nth_error_app1; [exact E|]. apply nth_error_Some. congruence.
    + exact A3.
    + intros j c Hj H t. destruct (A2 _ Hj) as (c0 & E & N).
      rewrite nth_error_app1 in H by (apply nth_error_Some; congruence). eauto.
  - eapply A_weaken; [| | |exact HA]; auto.
Qed.

Lemma do_data_A k chunk s : A s -> A (do_data k chunk s).
Proof.
  intros HA. unfold AioSession.do_data. destruct (_ && _) eqn:G; [|exact HA].
  apply andb_true_iff in G. destruct G as [G _]. apply andb_true_iff in G. destruct G as [G _]. apply Nat.ltb_lt in G.
  match goal with |- context [drainc ?F k ?S0] =>
    assert (HA0 : A S0) by (apply setbuf_A; exact HA);
    assert (Hk0 : (k < length (conns S0))%nat) by (cbn; rewrite upd_conn_length; exact G);
    pose proof (drainc_A F k S0 HA0 Hk0) as H1; destruct (drainc F k S0) as [s1 exn] end.
  cbn in H1. destruct exn; [|exact H1].
  eapply A_weaken; [| | |apply (modk_keeps_A k (fun c => mkac (cbuf c) (cout c) true (clost c) true (cnonce c))); [|exact H1]]; auto.
  intros c. split; reflexivity.
Qed.
Lemma do_data_Q k chunk s : Q s -> Q (do_data k chunk s).
Proof.
  intros H. unfold AioSession.do_data. destruct (_ && _); [|exact H].
  match goal with |- context [drainc ?F k ?S0] => pose proof (drainc_Q F k S0 H) as H1; destruct (drainc F k S0) as [s1 exn] end.
  cbn in H1. destruct exn; [|exact H1]. eapply Q_of_qd; [|exact H1]. reflexivity.
Qed.
Lemma do_sub_Q c s : Q s -> Q (do_sub c s).
Proof.
  intros H. unfold AioSession.do_sub. destruct (memb c (wanted s)); [exact H|]. cbn. destruct (cur s); [|exact H].
  eapply Q_of_qd; [apply wrk_qd|exact H].
Qed.
Lemma do_unsub_Q c s : Q s -> Q (do_unsub c s).
Proof.
  intros H. unfold AioSession.do_unsub. destruct (memb c (wanted s)); [|exact H]. cbn. destruct (cur s); [|exact H].
  eapply Q_of_qd; [apply wrk_qd|exact H].
Qed.
Lemma do_pub_Q c d s : Q s -> Q (do_pub c d s).
Proof. intros H. unfold AioSession.do_pub. destruct (cur s); [|exact H]. eapply Q_of_qd; [apply wrk_qd|exact H]. Qed.

Theorem step_A s e : A s -> A (astep s e).
Proof.
  intros HA. destruct e; cbn [AioSession.astep].
  - apply do_idle_A; exact HA.
  - apply resolve_A; exact HA.
  - apply resolve_A; exact HA.
  - unfold do_adv. pose proof (do_idle_A s HA) as H0. destruct (pc (do_idle s)); try exact H0.
    destruct (_ <=? _)%nat; [apply do_idle_A|]; (eapply A_weaken; [| | |exact H0]; auto).
  - unfold AioSession.do_data. destruct (_ && _) eqn:G; [|exact HA].
    apply andb_true_iff in G. destruct G as [G _]. apply andb_true_iff in G. destruct G as [G _]. apply Nat.ltb_lt in G.
    match goal with |- context [drainc ?F k ?S0] =>
      assert (HA0 : A S0) by (apply setbuf_A; exact HA);
      assert (Hk0 : (k < length (conns S0))%nat) by (cbn; rewrite upd_conn_length; exact G);
      pose proof (drainc_A F k S0 HA0 Hk0) as H1; destruct (drainc F k S0) as [s1 exn] end.
    cbn in H1. destruct exn; [|exact H1].
    eapply A_weaken; [| | |apply (modk_keeps_A k (fun c => mkac (cbuf c) (cout c) true (clost c) true (cnonce c))); [|exact H1]]; auto.
    intros c. split; reflexivity.
  - unfold do_lost. destruct (_ && _); [|exact HA].
    assert (H1 : A (modk k (fun c => mkac (cbuf c) (cout c) true true (caborted c) (cnonce c)) s)).
    { apply modk_keeps_A; [intros c; split; reflexivity|exact HA]. }
    destruct (wcl_done _); (eapply A_weaken; [| | |exact H1]; auto).
  - apply do_sub_A; exact HA.
  - apply do_unsub_A; exact HA.
  - apply do_pub_A; exact HA.
  - eapply A_weaken; [| | |exact HA]; auto.
  - unfold do_close. destruct (cst s); try exact HA. eapply A_weaken; [| | |exact HA]; auto.
Qed.
Lemma A0 : A asess0.
Proof. constructor; cbn; intros; try discriminate; try constructor. destruct k; discriminate. Qed.
Theorem run_A es : A (arun es).
Proof.
  unfold AioSession.arun. assert (X : forall s, A s -> A (fold_left astep es s)).
  { induction es as [|e es IH]; intros s H; cbn; [exact H|]. apply IH. apply step_A. exact H. }
  apply X. apply A0.
Qed.

End AF.
