(* Reactor.v — C20: the write path of the blocking thread session (hpfeeds/blocking/reactor.py: write,
   _select, _outbox_read_ready, _socket_write_ready) and the wake-up queue (hpfeeds/blocking/queue.py).

   Thread interleaving is abstracted to atomic sub-steps: a producer's put is two steps (enqueue the
   item, then send the wake-up byte), the reactor's get is two steps (consume a wake-up byte, then
   dequeue).  Pre-emption inside queue.Queue.put or socket.send is the runtime's and is not modelled. *)
From Coq Require Import ZArith List Bool Arith Lia.
From HP Require Import Bytes.
Import ListNotations.

(* ---- the reactor's write path --------------------------------------------------------------------- *)
Inductive sendres := Accept (k : nat) | WouldBlock.     (* sock.send accepted k bytes (1 <= k <= len) / EAGAIN, EWOULDBLOCK *)
Record rstate := mkr { outbox : list bytes; buffer : bytes; sent : bytes; puts : list bytes }.
(* puts: ghost, every frame handed to Reactor.write, oldest first *)
Definition rstate0 : rstate := mkr [] [] [] [].

Definition clamp (k len : nat) : nat := Nat.max 1 (Nat.min k len).
(* _socket_write_ready: sent = sock.send(self._buffer); self._buffer = self._buffer[sent:] *)
Definition write_ready (o : sendres) (s : rstate) : rstate :=
  match o with
  | WouldBlock => s
  | Accept k => let n := clamp k (length (buffer s)) in
                mkr (outbox s) (skipn n (buffer s)) (sent s ++ firstn n (buffer s)) (puts s)
  end.
Inductive rev_ := Put (f : bytes) | Iter (o : sendres).
(* one pass of _select: with unsent bytes only the socket is polled for writing; otherwise the outbox is
   polled and ONE frame is moved into the buffer, followed by an immediate attempt to send *)
Definition rstep (s : rstate) (e : rev_) : rstate :=
  match e with
  | Put f => mkr (outbox s ++ [f]) (buffer s) (sent s) (puts s ++ [f])
  | Iter o =>
      match buffer s with
      | _ :: _ => write_ready o s
      | [] => match outbox s with
              | [] => s
              | f :: rest => write_ready o (mkr rest (buffer s ++ f) (sent s) (puts s))
              end
      end
  end.
Definition rrun (es : list rev_) : rstate := fold_left rstep es rstate0.

(* everything handed to write() is, in order and exactly once, either on the wire, or the unsent tail of
   the frame in flight, or still queued: whole frames, FIFO, nothing lost, repeated or interleaved *)
Definition conserved (s : rstate) : Prop := sent s ++ buffer s ++ concat (outbox s) = concat (puts s).

Lemma write_ready_conserved o s : conserved s -> conserved (write_ready o s).
Proof.
  unfold conserved. destruct o as [k|]; cbn; [|auto]. intros H. rewrite <- H.
  rewrite <- app_assoc. f_equal. rewrite app_assoc. rewrite firstn_skipn. reflexivity.
Qed.
Lemma rstep_conserved s e : conserved s -> conserved (rstep s e).
Proof.
  intros H. destruct e as [f|o]; unfold rstep.
  - unfold conserved in *. cbn. rewrite !concat_app. cbn. rewrite !app_nil_r. rewrite <- H. rewrite !app_assoc. reflexivity.
  - destruct (buffer s) eqn:Eb; [|apply write_ready_conserved; exact H].
    destruct (outbox s) as [|f rest] eqn:Eo; [exact H|].
    apply write_ready_conserved. unfold conserved in *. cbn. rewrite Eb, Eo in H. cbn in H.
    rewrite <- H. reflexivity.
Qed.
Theorem conservation es : conserved (rrun es).
Proof.
  unfold rrun. assert (X : forall s, conserved s -> conserved (fold_left rstep es s)).
  { induction es as [|e es IH]; intros s H; cbn; [exact H|]. apply IH. apply rstep_conserved. exact H. }
  apply X. reflexivity.
Qed.
(* what is on the wire is always a prefix of the concatenation of the frames in put order *)
Theorem sent_is_prefix es : exists rest, concat (puts (rrun es)) = sent (rrun es) ++ rest.
Proof. pose proof (conservation es) as H. unfold conserved in H. eexists. symmetry. exact H. Qed.

(* progress: when the socket accepts at least one byte per pass, the backlog strictly shrinks *)
Definition backlog (s : rstate) : nat := length (buffer s) + length (concat (outbox s)) + length (outbox s).
Lemma clamp_ge1 k len : (1 <= clamp k len)%nat.
Proof. unfold clamp. lia. Qed.
Lemma write_ready_backlog k s : buffer s <> [] -> (backlog (write_ready (Accept k) s) < backlog s)%nat.
Proof.
  intros H. unfold backlog, write_ready. cbn [buffer outbox]. rewrite skipn_length.
  pose proof (clamp_ge1 k (length (buffer s))). destruct (buffer s); [congruence|]. cbn [length] in *. lia.
Qed.
Lemma write_ready_le o s : (backlog (write_ready o s) <= backlog s)%nat.
Proof. unfold backlog, write_ready. destruct o; [|lia]. cbn [buffer outbox]. rewrite skipn_length. lia. Qed.
Lemma iter_progress k s : (backlog s > 0)%nat -> (backlog (rstep s (Iter (Accept k))) < backlog s)%nat.
Proof.
  intros H. unfold rstep. destruct (buffer s) as [|b bt] eqn:Eb.
  - destruct (outbox s) as [|f rest] eqn:Eo.
    + unfold backlog in H. rewrite Eb, Eo in H. cbn in H. lia.
    + set (s1 := mkr rest ([] ++ f) (sent s) (puts s)).
      assert (B1 : (backlog s1 + 1 = backlog s)%nat).
      { unfold backlog, s1. cbn [buffer outbox]. rewrite Eb, Eo. cbn. rewrite app_length. lia. }
      pose proof (write_ready_le (Accept k) s1). lia.
  - apply write_ready_backlog. rewrite Eb. discriminate.
Qed.
Lemma iter_total o s :
  sent (rstep s (Iter o)) ++ buffer (rstep s (Iter o)) ++ concat (outbox (rstep s (Iter o))) =
  sent s ++ buffer s ++ concat (outbox s).
Proof.
  assert (W : forall o s0, sent (write_ready o s0) ++ buffer (write_ready o s0) ++ concat (outbox (write_ready o s0)) =
                          sent s0 ++ buffer s0 ++ concat (outbox s0)).
  { intros o0 s0. destruct o0; [|reflexivity]. unfold write_ready. cbn [sent buffer outbox].
    rewrite <- app_assoc. f_equal. rewrite app_assoc, firstn_skipn. reflexivity. }
  unfold rstep. destruct (buffer s) as [|b bt] eqn:Eb.
  - destruct (outbox s) as [|f rest] eqn:Eo; [rewrite Eb, Eo; reflexivity|].
    rewrite W. cbn. reflexivity.
  - rewrite W. rewrite Eb. reflexivity.
Qed.
Lemma iter_le o s : (backlog (rstep s (Iter o)) <= backlog s)%nat.
Proof.
  unfold rstep. destruct (buffer s) as [|b bt] eqn:Eb; [|apply write_ready_le].
  destruct (outbox s) as [|f rest] eqn:Eo; [lia|].
  eapply Nat.le_trans; [apply write_ready_le|]. unfold backlog. cbn [buffer outbox]. rewrite Eb, Eo. cbn. rewrite app_length. lia.
Qed.
Lemma backlog0 s : backlog s = O -> buffer s = [] /\ outbox s = [].
Proof. unfold backlog. destruct (buffer s); [|cbn; lia]. destruct (outbox s); [auto|cbn; lia]. Qed.
(* with a socket that takes at least one byte per pass and no new frames, everything queued gets out *)
Theorem drains n : forall s, (backlog s <= n)%nat ->
  let s' := fold_left rstep (repeat (Iter (Accept 1)) n) s in
  buffer s' = [] /\ outbox s' = [] /\ sent s' = sent s ++ buffer s ++ concat (outbox s).
Proof.
  induction n as [|n IH]; intros s H; cbn [repeat fold_left].
  - destruct (backlog0 s ltac:(lia)) as [A B0]. rewrite A, B0. cbn. rewrite app_nil_r. auto.
  - assert (L : (backlog (rstep s (Iter (Accept 1))) <= n)%nat).
    { destruct (Nat.eq_dec (backlog s) 0) as [Z|NZ]; [pose proof (iter_le (Accept 1) s); lia|].
      pose proof (iter_progress 1 s ltac:(lia)). lia. }
    destruct (IH _ L) as (A & B0 & C). split; [exact A|]. split; [exact B0|]. rewrite C. apply iter_total.
Qed.

(* ---- the wake-up queue -------------------------------------------------------------------------------- *)
Inductive qev := PutItem (x : nat) | PutWake | GetWake | GetItem.
Record qstate := mkq { items : list nat; wake : nat; pputs : nat; pgets : nat; got : list nat; putlog : list nat }.
Definition qstate0 : qstate := mkq [] 0 0 0 [] [].
(* a step is enabled only when the thread making it can make it: the wake byte is sent after the item was
   enqueued, a byte can be received only if there is one, an item is dequeued after a byte was received *)
Definition qstep (s : qstate) (e : qev) : qstate :=
  match e with
  | PutItem x => mkq (items s ++ [x]) (wake s) (S (pputs s)) (pgets s) (got s) (putlog s ++ [x])
  | PutWake => match pputs s with O => s | S p => mkq (items s) (S (wake s)) p (pgets s) (got s) (putlog s) end
  | GetWake => match wake s with O => s | S w => mkq (items s) w (pputs s) (S (pgets s)) (got s) (putlog s) end
  | GetItem => match pgets s, items s with
               | S g, x :: t => mkq t (wake s) (pputs s) g (got s ++ [x]) (putlog s)
               | _, _ => s end
  end.
Definition qrun (es : list qev) : qstate := fold_left qstep es qstate0.
Definition qinv (s : qstate) : Prop :=
  length (items s) = (wake s + pgets s + pputs s)%nat /\ got s ++ items s = putlog s.
Lemma qstep_inv s e : qinv s -> qinv (qstep s e).
Proof.
  unfold qinv. intros [A B0]. destruct e; cbn.
  - rewrite app_length. cbn. split; [lia|]. rewrite app_assoc, B0. reflexivity.
  - destruct (pputs s) eqn:E; cbn; split; try lia; exact B0.
  - destruct (wake s) eqn:E; cbn; split; try lia; exact B0.
  - destruct (pgets s) eqn:E; cbn; [split; [lia|exact B0]|]. destruct (items s) as [|x t] eqn:Ei; cbn; [exfalso; cbn in A; lia|].
    cbn in A. split; [lia|]. rewrite <- app_assoc. exact B0.
Qed.
Theorem queue_invariant es : qinv (qrun es).
Proof.
  unfold qrun. assert (X : forall s, qinv s -> qinv (fold_left qstep es s)).
  { induction es as [|e es IH]; intros s H; cbn; [exact H|]. apply IH. apply qstep_inv. exact H. }
  apply X. split; reflexivity.
Qed.
(* at every point where no put and no get is between its two sub-steps, the number of wake-up bytes
   (select()-readability) equals the number of queued items; a get that consumed a byte always finds an
   item; items come out in put order *)
Theorem queue_readable_iff_nonempty es : pputs (qrun es) = O -> pgets (qrun es) = O ->
  wake (qrun es) = length (items (qrun es)).
Proof. intros P G. destruct (queue_invariant es) as [A _]. lia. Qed.
Theorem queue_get_never_empty es : (pgets (qrun es) > 0)%nat -> items (qrun es) <> [].
Proof. intros G. destruct (queue_invariant es) as [A _]. destruct (items (qrun es)); [cbn in A; lia|discriminate]. Qed.
Theorem queue_fifo es : exists rest, putlog (qrun es) = got (qrun es) ++ rest.
Proof. destruct (queue_invariant es) as [_ B0]. eexists. symmetry. exact B0. Qed.
