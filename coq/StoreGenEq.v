(* StoreGenEq.v — json.Authenticator.load / get_authkey as translated from the Python source on every run (StoreGen.v,
   written by harness/pytrans4.py) compute what Stores.load / Stores.json_get compute; the C17/C18 theorems restated for
   the translated text.  No axioms. *)
From Coq Require Import List Bool String.
From Coq Require Import Strings.Byte.
From HP Require Import Bytes Stores StoresFacts PyStore StoreGen.
Import ListNotations.

Ltac unfS := unfold fnS, ifS, seqS, bindS, pureS, retS, returnS, fallS, liftS, raiseS.

(* the body of `for key, value in db.items()` for one entry *)
Lemma entry_body : forall (k : bytes) (v : json) (db : table),
  (ifS (pureS (negb (is_dict v))) (returnS tt)
     (seqS (forS [B "owner"; B "secret"; B "pubchans"; B "subchans"] (fun attr =>
              ifS (bindS (liftS (py_in attr v)) (fun t_b => pureS (negb t_b))) (returnS tt) fallS))
     (seqS (forS [B "pubchans"; B "subchans"] (fun attr =>
              ifS (bindS (liftS (py_subscript v attr)) (fun t_v => pureS (negb (is_list t_v)))) (returnS tt) fallS))
      fallS))) db
  = if entry_ok v then SOk None db else SOk (Some tt) db.
Proof.
  intros k v db. destruct v as [a|l|f]; try reflexivity.
  cbn [is_dict negb entry_ok forS py_in py_subscript]. unfold jhas, jis_list. unfS.
  destruct (jassoc (B "owner") f); [|reflexivity].
  destruct (jassoc (B "secret") f); [|reflexivity].
  destruct (jassoc (B "pubchans") f) as [[]|]; try reflexivity;
  destruct (jassoc (B "subchans") f) as [[]|]; reflexivity.
Qed.

Lemma forS_cons : forall {X R} (x : X) (t : list X) (body : X -> SM (option R)),
  forS (x :: t) body = seqS (body x) (forS t body).
Proof. reflexivity. Qed.

Lemma entries_loop : forall (es : table) (db : table),
  forS es (fun '(key, value) =>
    ifS (pureS (negb (is_dict value))) (returnS tt)
     (seqS (forS [B "owner"; B "secret"; B "pubchans"; B "subchans"] (fun attr =>
              ifS (bindS (liftS (py_in attr value)) (fun t_b => pureS (negb t_b))) (returnS tt) fallS))
     (seqS (forS [B "pubchans"; B "subchans"] (fun attr =>
              ifS (bindS (liftS (py_subscript value attr)) (fun t_v => pureS (negb (is_list t_v)))) (returnS tt) fallS))
      fallS))) db
  = if check_all es then SOk None db else SOk (Some tt) db.
Proof.
  induction es as [|[k v] t IH]; intro db; [reflexivity|].
  rewrite (forS_cons (k, v) t). cbn [check_all]. unfold seqS at 1, bindS at 1. cbv beta iota.
  rewrite (entry_body k v db).
  destruct (entry_ok v); [apply IH|reflexivity].
Qed.

Theorem load_src_eq : forall db parsed, Authenticator_load parsed db = SOk tt (load db parsed).
Proof.
  intros db parsed. unfold Authenticator_load, load.
  destruct parsed as [[a|l|es]|]; try reflexivity.
  unfold fnS, bindS at 1. cbn [is_dict negb]. unfold ifS at 1, bindS at 1, pureS at 1, retS at 1.
  unfold seqS at 1, bindS at 1 2. cbn [py_items liftS]. unfold retS at 1.
  rewrite entries_loop. destruct (check_all es); reflexivity.
Qed.

Lemma valid_lookup : forall db i v, check_all db = true -> jassoc i db = Some v -> entry_ok v = true.
Proof.
  induction db as [|[k x] t IH]; cbn; intros i v H J; [discriminate|].
  destruct (entry_ok x) eqn:E; [|discriminate].
  destruct (bytes_eqb k i); [inversion J; subst; exact E|eapply IH; eauto].
Qed.

(* a table load() accepted (every entry is a mapping with the four keys, both channel fields lists) *)
Theorem get_authkey_src_eq : forall db i, check_all db = true ->
  Authenticator_get_authkey i db = SOk (json_get db i) db.
Proof.
  intros db i V. unfold Authenticator_get_authkey, json_get, get_db. unfold fnS, bindS at 1 2.
  destruct (jassoc i db) as [v|] eqn:J; [|reflexivity].
  pose proof (valid_lookup db i v V J) as E.
  destruct v as [a|l|f]; try discriminate E.
  destruct f as [|p f']; [reflexivity|].
  cbn [entry_ok] in E. unfold jhas, jis_list in E.
  repeat (apply andb_true_iff in E; destruct E as [E ?]).
  cbn [py_truthy negb]. unfS. cbn [py_subscript].
  destruct (jassoc (B "owner") (p :: f')) as [o|]; [|discriminate].
  destruct (jassoc (B "secret") (p :: f')) as [sc|]; [|discriminate].
  destruct (jassoc (B "pubchans") (p :: f')) as [[| pl |]|]; try discriminate.
  destruct (jassoc (B "subchans") (p :: f')) as [[| sl |]|]; try discriminate.
  reflexivity.
Qed.

(* every table reached by loads from the constructor's empty one is such a table *)
Lemma load_valid : forall db p, check_all db = true -> check_all (load db p) = true.
Proof.
  intros db p H. unfold load. destruct p as [[a|l|es]|]; try exact H.
  destruct (check_all es) eqn:E; [exact E|exact H].
Qed.
Lemma loads_valid : forall ps db, check_all db = true -> check_all (fold_left load ps db) = true.
Proof. induction ps as [|p t IH]; intros db H; [exact H|]. cbn. apply IH, load_valid, H. Qed.

(* ---- the store as a whole, run from the translated methods ------------------------------------------------ *)
Definition loads_src (ps : list (option json)) (db : table) : table :=
  fold_left (fun d p => match Authenticator_load p d with SOk _ d' | SRaise d' => d' end) ps db.
Theorem loads_src_eq : forall ps db, loads_src ps db = fold_left load ps db.
Proof.
  induction ps as [|p t IH]; intro db; [reflexivity|]. unfold loads_src in *. cbn [fold_left].
  rewrite load_src_eq. apply IH.
Qed.

(* C18 for the translated load: after any sequence of file contents the table is the last accepted one *)
Theorem src_load_sequence : forall ps db0,
  loads_src ps db0 = match last_accepted ps with Some es => es | None => db0 end.
Proof. intros. rewrite loads_src_eq. apply load_sequence. Qed.

Theorem src_load_all_or_nothing : forall db p,
  (exists es, p = Some (JObj es) /\ valid_table es /\ Authenticator_load p db = SOk tt es) \/
  ((forall es, p = Some (JObj es) -> ~ valid_table es) /\ Authenticator_load p db = SOk tt db).
Proof.
  intros db p. rewrite load_src_eq. destruct (load_rule db p) as [[es [H1 [H2 H3]]]|[H1 H2]].
  - left. exists es. rewrite H3. auto.
  - right. rewrite H2. auto.
Qed.

(* C17 for the translated get_authkey, after any history of reloads: exactly what the model answers *)
Theorem src_lookup_after_loads : forall ps i,
  Authenticator_get_authkey i (loads_src ps []) = SOk (json_get (fold_left load ps []) i) (fold_left load ps []).
Proof. intros. rewrite loads_src_eq. apply get_authkey_src_eq, loads_valid. reflexivity. Qed.

(* ---- memory.py / multi.py ------------------------------------------------------------------------------------ *)
Theorem memory_src_eq : forall creds i, Memory_get_authkey creds i = mem_get creds i.
Proof.
  intros creds i. unfold Memory_get_authkey, mem_get, mem_dict_get, cred_copy, cred_set_ident, cred_truthy.
  destruct (assocb i creds) as [[c|]|]; reflexivity.
Qed.
Theorem multi_src_eq : forall stack i, Multi_get_authkey stack i = multi_get stack i.
Proof.
  intros stack i. unfold Multi_get_authkey. induction stack as [|m t IH]; [reflexivity|].
  cbn [for_first multi_get]. unfold cred_truthy at 1. destruct (m i) as [c|]; [reflexivity|exact IH].
Qed.

(* ---- env.py ------------------------------------------------------------------------------------------------------- *)
(* str.upper is a parameter; what is assumed of it is what Python's does to these four ASCII constants *)
Section EnvSrc.
Variable upper : bytes -> bytes.
Hypothesis up_secret : upper (B "secret") = B "SECRET".
Hypothesis up_owner : upper (B "owner") = B "OWNER".
Hypothesis up_pub : upper (B "pubchans") = B "PUBCHANS".
Hypothesis up_sub : upper (B "subchans") = B "SUBCHANS".

Lemma env_key_src : forall i v F, upper v = F ->
  py_join (B "_") [B "HPFEEDS"; upper i; upper v] = env_key upper i F.
Proof. intros i v F ->. reflexivity. Qed.

Lemma env_list_src : forall env i v F, upper v = F -> Env_get_list upper env i v = env_list upper env i F.
Proof.
  intros env i v F H. unfold Env_get_list, Env_get_key, env_list, env_dict_get, py_split_comma, nonempty.
  cbv zeta. rewrite (env_key_src i v F H).
  destruct (assocb (env_key upper i F) env); reflexivity.
Qed.

Theorem env_src_eq : forall env i, Env_get_authkey upper env i = env_get upper env i.
Proof.
  intros env i. unfold Env_get_authkey, env_get. cbv zeta.
  rewrite (env_list_src env i _ _ up_pub), (env_list_src env i _ _ up_sub).
  unfold Env_get_key, env_dict_get. cbv zeta.
  rewrite (env_key_src i _ _ up_secret), (env_key_src i _ _ up_owner).
  destruct (assocb (env_key upper i (B "SECRET")) env) as [s|]; [|reflexivity].
  cbn [optstr_truthy opt_str]. unfold str_truthy. rewrite negb_involutive.
  destruct (bytes_eqb s []); [reflexivity|].
  destruct (assocb (env_key upper i (B "OWNER")) env); reflexivity.
Qed.
End EnvSrc.

(* ---- sqlite.py ------------------------------------------------------------------------------------------------------ *)
Theorem sqlite_src_eq : forall rows i, Sqlite_get_authkey rows i = sql_get rows i.
Proof.
  intros rows i. unfold Sqlite_get_authkey. induction rows as [|r t IH]; [reflexivity|].
  cbn [sql_select_where_ident_eq sql_get]. destruct (bytes_eqb (s_ident r) i); [reflexivity|exact IH].
Qed.
