(* LegacyClient.v — executable model of hpfeeds/client.py (class Client: tryconnect, connect, do_auth, run,
   _subscribe, recv, send, stop) as a sequential program over scripted socket results.

   The environment is three queues of answers: to connect() attempts, to recv() calls and to sendall() calls
   (an exhausted send queue means "sent"); [stop_after]: the application calls stop() from its message
   callback after that many messages.  The trace records what the client does. *)
From Coq Require Import ZArith List Bool Arith.
From Coq Require Import Strings.Byte.
From HP Require Import Bytes Utf8 Sha1 Wire ParamsOK.
Import ListNotations.
Open Scope Z_scope.

Inductive rres := RData (d : bytes) | RTimeout | REof | RErr.
Inductive lev :=
| LAttempt                               (* s.connect(...) *)
| LConnected (k : nat)                   (* ... succeeded: connection k *)
| LInfo (k : nat) (rand : bytes)         (* OP_INFO parsed in do_auth (ghost) *)
| LSentAuth (k : nat) (rand : bytes)     (* send(msgauth(rand, ident, secret)) *)
| LSentSub (k : nat) (c : bytes)         (* send(msgsubscribe(ident, c)) *)
| LSendFailed (k : nat)
| LMsg (i c d : bytes) | LErrMsg (e : bytes)   (* message_callback / error_callback *)
| LSleep                                 (* time.sleep(sleepwait) *)
| LDisconnected (k : nat)
| LReturn                                (* run() returned *)
| LCrash                                 (* an exception left run() / the constructor *)
| LScriptEnd.                            (* the environment script is exhausted *)

Inductive lpc :=
| PTry                 (* tryconnect: about to call connect() *)
| PAuth                (* connect() succeeded, do_auth about to recv *)
| PSubscribe (todo : list bytes)
| PRecv                (* run's inner loop, about to recv *)
| PAfterInner          (* after the inner loop *)
| PStop.               (* returned / crashed / script exhausted *)

Record lstate := mkl {
  lconn : list bool; lrecv : list rres; lsend : list bool;
  lsubs : list bytes; lbuf : bytes; lconnected : bool; lstopped : bool; lstop_after : option nat; lmsgs : nat;
  lk : nat;                       (* index of the current / last connection *)
  lpcs : lpc; linrun : bool;      (* linrun: tryconnect was called from run (else from __init__) *)
  ltrace : list lev;              (* newest first *)
  lrx : bytes }.                  (* ghost: every byte received on the current connection (never read) *)

Section Legacy.
Variable ident secret : bytes.

Definition ev (e : lev) (s : lstate) : lstate :=
  mkl (lconn s) (lrecv s) (lsend s) (lsubs s) (lbuf s) (lconnected s) (lstopped s) (lstop_after s) (lmsgs s) (lk s)
      (lpcs s) (linrun s) (e :: ltrace s) (lrx s).
Definition goto (p : lpc) (s : lstate) : lstate :=
  mkl (lconn s) (lrecv s) (lsend s) (lsubs s) (lbuf s) (lconnected s) (lstopped s) (lstop_after s) (lmsgs s) (lk s)
      p (linrun s) (ltrace s) (lrx s).
Definition setbufl (b : bytes) (s : lstate) : lstate :=
  mkl (lconn s) (lrecv s) (lsend s) (lsubs s) b (lconnected s) (lstopped s) (lstop_after s) (lmsgs s) (lk s)
      (lpcs s) (linrun s) (ltrace s) (lrx s).
(* unpacker.feed(d) *)
Definition feedl (d : bytes) (s : lstate) : lstate :=
  mkl (lconn s) (lrecv s) (lsend s) (lsubs s) (lbuf s ++ d) (lconnected s) (lstopped s) (lstop_after s) (lmsgs s) (lk s)
      (lpcs s) (linrun s) (ltrace s) (lrx s ++ d).
Definition setconnected (b : bool) (s : lstate) : lstate :=
  mkl (lconn s) (lrecv s) (lsend s) (lsubs s) (lbuf s) b (lstopped s) (lstop_after s) (lmsgs s) (lk s)
      (lpcs s) (linrun s) (ltrace s) (lrx s).
(* pop an answer to sendall(): exhausted queue = success *)
Definition pop_send (s : lstate) : bool * lstate :=
  match lsend s with
  | [] => (true, s)
  | b :: t => (b, mkl (lconn s) (lrecv s) t (lsubs s) (lbuf s) (lconnected s) (lstopped s) (lstop_after s) (lmsgs s) (lk s)
                      (lpcs s) (linrun s) (ltrace s) (lrx s))
  end.
(* a failed handshake attempt: log, sleep sleepwait, try again *)
Definition retry (s : lstate) : lstate := goto PTry (ev LSleep s).
(* message_callback(...) ; the application may call stop() from it *)
Definition deliver_msg (i c d : bytes) (s : lstate) : lstate :=
  let n := S (lmsgs s) in
  let st := match lstop_after s with Some m => Nat.leb m n | None => false end in
  mkl (lconn s) (lrecv s) (lsend s) (lsubs s) (lbuf s) (lconnected s) (lstopped s || st) (lstop_after s) n (lk s)
      (lpcs s) (linrun s) (LMsg i c d :: ltrace s) (lrx s).

(* run's "for opcode, data in self.unpacker": returns the state and how the loop ended
   (0 = drained, 1 = ProtocolException (a Disconnect), 2 = another exception escaped) *)
Fixpoint run_frames (fuel : nat) (s : lstate) : lstate * nat :=
  match fuel with
  | O => (s, 0%nat)
  | S f =>
      match next limitP (lbuf s) with
      | NeedMore => (s, 0%nat)
      | Bad _ => (s, 1%nat)
      | Ready op body rest =>
          let s1 := setbufl rest s in
          if op =? 3 then
            match readpublish body with
            | Some (i, c, d) => run_frames f (deliver_msg i c d s1)
            | None => (s1, 2%nat)
            end
          else if op =? 0 then
            match readerror body with
            | Some e => run_frames f (ev (LErrMsg e) s1)
            | None => (s1, 2%nat)
            end
          else run_frames f s1
      end
  end.

(* one blocking call of the client and everything it does until the next one *)
Definition lstep (s : lstate) : lstate :=
  match lpcs s with
  | PStop => s
  | PTry =>
      match lconn s with
      | [] => goto PStop (ev LScriptEnd s)
      | ok :: rest =>
          let s1 := ev LAttempt (mkl rest (lrecv s) (lsend s) (lsubs s) (lbuf s) (lconnected s) (lstopped s) (lstop_after s)
                                     (lmsgs s) (lk s) (lpcs s) (linrun s) (ltrace s) (lrx s)) in
          if ok then
            let k := S (lk s1) in
            goto PAuth (ev (LConnected k)
              (mkl (lconn s1) (lrecv s1) (lsend s1) (lsubs s1) [] true (lstopped s1) (lstop_after s1) (lmsgs s1) k
                   (lpcs s1) (linrun s1) (ltrace s1) []))       (* self.connected = True; self.unpacker.reset() *)
          else retry s1      (* FeedException('Could not connect') or, with a stale connected flag, a socket error in do_auth *)
      end
  | PAuth =>
      match lrecv s with
      | [] => goto PStop (ev LScriptEnd s)
      | r :: rest =>
          let s1 := mkl (lconn s) rest (lsend s) (lsubs s) (lbuf s) (lconnected s) (lstopped s) (lstop_after s) (lmsgs s) (lk s)
                        (lpcs s) (linrun s) (ltrace s) (lrx s) in
          match r with
          | RTimeout | RErr => retry s1                      (* FeedException / socket.error: caught by tryconnect *)
          | REof => retry s1                                  (* nothing fed: 'cannot assemble complete message' *)
          | RData d =>
              let s2 := feedl d s1 in
              match next limitP (lbuf s2) with
              | NeedMore => retry s2                          (* 'Expected OP_INFO but cannot assemble complete message' *)
              | Bad _ => retry s2                             (* ProtocolException is a Disconnect *)
              | Ready op body rest' =>
                  let s3 := setbufl rest' s2 in
                  if op =? 1 then
                    match readinfo body with
                    | None => goto PStop (ev LCrash s3)       (* the reader's exception is not caught anywhere *)
                    | Some (_, rand) =>
                        let s4 := ev (LInfo (lk s3) rand) s3 in
                        let '(ok, s5) := pop_send s4 in
                        if ok then
                          let s6 := ev (LSentAuth (lk s5) rand) s5 in
                          goto PAfterInner s6          (* back in run() (or __init__ done and the application calls run()) *)
                        else retry (ev (LSendFailed (lk s5)) s5)    (* Disconnect while connecting *)
                    end
                  else retry s3                               (* 'Expected OP_INFO but got another opcode.' *)
              end
          end
      end
  | PAfterInner =>
      (* top of run(): while not self.stopped: self._subscribe(); while self.connected: ... *)
      if lstopped s then goto PStop (ev LReturn s)
      else if lconnected s then goto (PSubscribe (lsubs s)) s
      else goto PTry s                                        (* tryconnect() *)
  | PSubscribe todo =>
      match todo with
      | [] => goto PRecv s
      | c :: t =>
          let '(ok, s1) := pop_send s in
          if ok then goto (PSubscribe t) (ev (LSentSub (lk s1) c) s1)
          else goto PRecv (setconnected false (ev (LSendFailed (lk s1)) s1))    (* connected = False; break *)
      end
  | PRecv =>
      if negb (lconnected s) then goto PAfterInner s
      else
      match lrecv s with
      | [] => goto PStop (ev LScriptEnd s)
      | r :: rest =>
          let s1 := mkl (lconn s) rest (lsend s) (lsubs s) (lbuf s) (lconnected s) (lstopped s) (lstop_after s) (lmsgs s) (lk s)
                        (lpcs s) (linrun s) (ltrace s) (lrx s) in
          let drop := goto PAfterInner (setconnected false (ev (LDisconnected (lk s1)) s1)) in
          match r with
          | REof | RErr => drop
          | RTimeout => if lstopped s1 then goto PAfterInner s1 else s1
          | RData d =>
              let s2 := feedl d s1 in
              let '(s3, how) := run_frames (S (length (lbuf s2))) s2 in
              match how with
              | O => if lstopped s3 then goto PAfterInner s3 else s3
              | S O => goto PAfterInner (setconnected false (ev (LDisconnected (lk s3)) s3))
              | _ => goto PStop (ev LCrash s3)
              end
          end
      end
  end.
Fixpoint lrun (fuel : nat) (s : lstate) : lstate :=
  match fuel with O => s | S f => match lpcs s with PStop => s | _ => lrun f (lstep s) end end.
Definition linit (conn : list bool) (recv : list rres) (send : list bool) (subs : list bytes) (stop_after : option nat) : lstate :=
  mkl conn recv send subs [] false false stop_after 0 0 PTry true [] [].
End Legacy.
