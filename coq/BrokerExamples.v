(* BrokerExamples.v — the hypotheses of the whole-history theorems are met by concrete reachable states, and the
   models compute what the theorems say on concrete histories (vm_compute; these are tests of the statements, the
   theorems themselves are in BrokerDeadline.v / BrokerGauge.v). *)
From Coq Require Import ZArith List Bool Arith Lia.
From Coq Require Import Strings.Byte.
From HP Require Import Bytes Sha1 Wire ParamsOK Broker BrokerSpec BrokerInv BrokerStep BrokerTimer BrokerDeadline BrokerMetrics BrokerGauge.
Import ListNotations.

Definition ex_store (i : ident) : lookup :=
  if bytes_eqb i [x61] then LRow (mkrow [x73] [[x78]] [[x78]; [x79]])            (* "a": secret "s", pub [x], sub [x; y] *)
  else if bytes_eqb i [x62] then LRow (mkrow [x74] [[x79]] [[x79]])               (* "b": secret "t", pub [y], sub [y] *)
  else LNone.
Definition ex_nonce : bytes := [x01; x02; x03; x04].
Definition frame_of (o : option bytes) : bytes := match o with Some b => b | None => [] end.
Definition ex_auth (i s : bytes) : bytes := frame_of (msgauth ex_nonce i s).
Definition ex_run := run [x68] ex_store false.

(* C15: connection 0 authenticates, subscribes, stalls; 59 ticks later one second is left and it is still open;
   the 60th tick closes it *)
Definition ex_stalled : list event :=
  [Connect 0 ex_nonce; Data 0 (ex_auth [x61] [x73]); Data 0 (frame_of (msgsubscribe [x61] [x78])); PauseW 0].
Example deadline_hypotheses_met :
  let s := ex_run [Connect 0 ex_nonce; Data 0 (ex_auth [x61] [x73])] in
  made (conns s 0) = true /\ lost (conns s 0) = false /\ wpaused (conns s 0) = false.
Proof. vm_compute. auto. Qed.
Example deadline_example :
  let s59 := ex_run (ex_stalled ++ repeat Tick 59) in
  let s60 := ex_run (ex_stalled ++ repeat Tick 60) in
  timer (conns s59 0) = Some 1%nat /\ closing (conns s59 0) = false /\
  timer (conns s60 0) = None /\ closing (conns s60 0) = true /\ hd FError (out (conns s60 0)) = FError.
Proof. vm_compute. auto. Qed.

(* C19 / F10: connection 0 subscribes to y as "a", authenticates again as "b", unsubscribes and goes: the count moves
   from label (a, y) to (b, y) at the re-authentication and every gauge is zero at the end *)
Definition ex_reauth : list event :=
  [Connect 0 ex_nonce; Data 0 (ex_auth [x61] [x73]); Data 0 (frame_of (msgsubscribe [x61] [x79]));
   Data 0 (ex_auth [x62] [x74])].
Example gauges_follow_identity :
  let s1 := ex_run (firstn 3 ex_reauth) in
  let s2 := ex_run ex_reauth in
  let s3 := ex_run (ex_reauth ++ [Lost 0]) in
  (gval ([x61], [x79]) (g_subs s1) = 1 /\ gval ([x62], [x79]) (g_subs s1) = 0)%Z /\
  (gval ([x61], [x79]) (g_subs s2) = 0 /\ gval ([x62], [x79]) (g_subs s2) = 1)%Z /\
  (gval ([x61], [x79]) (g_subs s3) = 0 /\ gval ([x62], [x79]) (g_subs s3) = 0)%Z /\
  ak (conns s2 0) = Some [x62] /\ active (conns s2 0) = [[x79]].
Proof. vm_compute. repeat split; reflexivity. Qed.
