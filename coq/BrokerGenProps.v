(* BrokerGenProps.v — the broker theorems restated for the code as translated from the Python source:
   run_src (BrokerGenRun.v) is the event loop with the translated methods of BrokerGen.v plugged in; the one-step
   statements are about the translated methods themselves.  Everything here follows from the equalities of
   BrokerGenEq.v / BrokerGenRun.v and therefore depends on functional_extensionality_dep (standard library). *)
From Coq Require Import ZArith List Bool.
From Coq Require Import Strings.Byte.
From HP Require Import Bytes Sha1 Wire Params Broker BrokerSpec BrokerInv BrokerStep BrokerProps BrokerMetrics BrokerGauge
  BrokerDeadline PyBroker BrokerGen BrokerGenEq BrokerGenRun.
Import ListNotations.
Open Scope Z_scope.

Section Src.
Variable bname : bytes. Variable store : ident -> lookup. Variable async_store : bool.
Notation run_src := (run_src bname store async_store).
Notation run := (run bname store async_store).

Lemma src_transfer : forall (P : state -> Prop), (forall h, P (run h)) -> forall h, P (run_src h).
Proof. intros P H h. rewrite run_src_eq. apply H. Qed.

Lemma src_refines : forall h q, pubs (out (conns (run_src h) q)) = sp_out (spec (alog (run_src h))) q.
Proof. intros h q. rewrite run_src_eq. apply refines. Qed.

Lemma src_delivered_legit : forall h q i c d, In (i, c, d) (pubs (out (conns (run_src h) q))) ->
  exists l1 p t, alog (run_src h) = l1 ++ APub p i c d :: t /\
    (exists r, last_auth t p = Some (i, r) /\ In c (r_pub r)) /\
    (exists l2 t2 i2 r2, t = l2 ++ ASub q c :: t2 /\ last_auth t2 q = Some (i2, r2) /\ In c (r_sub r2)) /\
    sp_closed (spec t) q = false.
Proof. intros h q i c d. rewrite run_src_eq. apply delivered_legit. Qed.

Lemma src_auth_legit : forall h q i r, last_auth (alog (run_src h)) q = Some (i, r) ->
  exists l1 dg t n, alog (run_src h) = l1 ++ AAuth q i r dg :: t /\ conn_nonce t q = Some n /\
    dg = sha1 (n ++ r_secret r) /\ (async_store = false -> store i = LRow r).
Proof. intros h q i r. rewrite run_src_eq. apply auth_legit. Qed.

Lemma src_acted_on_after_auth : forall h l1 a t, alog (run_src h) = l1 ++ a :: t ->
  match a with ASub q _ | AUnsub q _ | APub q _ _ _ => last_auth t q <> None | _ => True end.
Proof. intros h l1 a t. rewrite run_src_eq. apply acted_on_after_auth. Qed.

Lemma src_follows_last_op : forall h q c,
  memc c (active (conns (run_src h) q)) = holds (alog (run_src h)) q c.
Proof. intros h q c. rewrite run_src_eq. apply follows_last_op. Qed.

Lemma src_registry_nodup : forall h,
  (forall c, NoDup (subs (run_src h) c)) /\ (forall q, NoDup (active (conns (run_src h) q))) /\
  (forall q c, In q (subs (run_src h) c) <-> In c (active (conns (run_src h) q))).
Proof. intros h. rewrite run_src_eq. apply registry_nodup. Qed.

Lemma src_registry_live : forall h c q, In q (subs (run_src h) c) ->
  copen (conns (run_src h) q) = true /\ In c (active (conns (run_src h) q)).
Proof. intros h c q. rewrite run_src_eq. apply registry_live. Qed.

Lemma src_stays_forgotten : forall h h' q, made (conns (run_src h) q) = true -> copen (conns (run_src h) q) = false ->
  let s := run_src (h ++ h') in
  copen (conns s q) = false /\ active (conns s q) = nil /\ (forall c, ~ In q (subs s c)).
Proof. intros h h' q. rewrite !run_src_eq. apply stays_forgotten. Qed.

Lemma src_lost_forgotten : forall h h' q, made (conns (run_src h) q) = true -> lost (conns (run_src h) q) = false ->
  let s := run_src (h ++ Lost q :: h') in
  copen (conns s q) = false /\ active (conns s q) = nil /\ (forall c, ~ In q (subs s c)).
Proof. intros h h' q. rewrite !run_src_eq. apply lost_forgotten. Qed.

Lemma src_info_first : forall h q, made (conns (run_src h) q) = true ->
  exists l, out (conns (run_src h) q) = l ++ [FInfo bname (nonce (conns (run_src h) q))].
Proof. intros h q. rewrite run_src_eq. apply info_first. Qed.

Lemma src_good : forall h, Good (srow store) async_store (run_src h).
Proof. intro h. rewrite run_src_eq. apply run_good. Qed.

Lemma src_M : forall h, M (run_src h).
Proof. intro h. rewrite run_src_eq. apply run_M. Qed.
Lemma src_PI : forall h, PI (run_src h).
Proof. intro h. rewrite run_src_eq. apply run_PI. Qed.
Lemma src_all_gone_every_gauge_zero : forall h, (forall q, copen (conns (run_src h) q) = false) ->
  forall i c, gval (i, c) (g_subs (run_src h)) = 0.
Proof. intro h. rewrite run_src_eq. apply all_gone_every_gauge_zero. Qed.
(* the whole stall episode, for the loop that runs the translated pause_writing / deadline coroutine / resume_writing,
   with the delay READ FROM THE SOURCE (Connection_deadline_seconds, the argument of asyncio.sleep) *)
Lemma src_stall_then_exactly_grace : forall h q es,
  let step' := step_src bname store async_store in
  let s := run_src h in
  made (conns s q) = true -> lost (conns s q) = false -> wpaused (conns s q) = false ->
  forallb (leaves_deadline q) es = true ->
  let s1 := fold_left step' es (step' s (PauseW q)) in
  ((nticks es < Connection_deadline_seconds)%nat -> timer (conns s1 q) = Some (Connection_deadline_seconds - nticks es)%nat) /\
  (nticks es = (Connection_deadline_seconds - 1)%nat ->
     closing (conns (step' s1 Tick) q) = true /\ timer (conns (step' s1 Tick) q) = None).
Proof.
  intros h q es step' s. unfold s, step'. rewrite run_src_eq, deadline_seconds_is_grace.
  replace (step_src bname store async_store) with (step bname store async_store)
    by (apply FunctionalExtensionality.functional_extensionality; intro a;
        apply FunctionalExtensionality.functional_extensionality; intro b; symmetry; apply step_src_eq).
  apply (stall_then_exactly_grace bname store async_store).
Qed.

Lemma src_IdsOK : forall h, IdsOK (run_src h).
Proof. intro h. rewrite run_src_eq. apply run_IdsOK. Qed.
End Src.

(* ---- one-step statements about the translated methods themselves ------------------------------------------ *)
Lemma src_preauth_reject : forall store async_store pp q op body s, ak (conns s q) = None -> op <> 2 ->
  Connection_message_received store async_store pp q op body s = BOk false (bad q s).
Proof.
  intros store async_store pp q op body s H Hop. rewrite Connection_message_received_eq, H. cbn [opt_none andb].
  change op_auth with 2. destruct (Z.eqb_spec op 2); [contradiction|reflexivity].
Qed.
Lemma src_unknown_ident_reject : forall pp q i dg s, Connection_authenticate pp q i dg LNone s = BOk false (bad q s).
Proof. intros. rewrite Connection_authenticate_eq, unknown_ident_reject. reflexivity. Qed.
Lemma src_wrong_digest_reject : forall pp q i dg r s, dg <> sha1 (nonce (conns s q) ++ r_secret r) ->
  Connection_authenticate pp q i dg (LRow r) s = BOk false (bad q s).
Proof. intros pp q i dg r s H. rewrite Connection_authenticate_eq, wrong_digest_reject by exact H. reflexivity. Qed.
Lemma src_spoofed_publish_reject : forall q i c d s me, ak (conns s q) = Some me ->
  i <> me \/ ~ In c (pubchans (conns s q)) -> Connection_on_publish q i c d s = BOk false (bad q s).
Proof. intros q i c d s me H1 H2. rewrite Connection_on_publish_eq, (spoofed_publish_reject q i c d s me H1 H2). reflexivity. Qed.
Lemma src_forbidden_subscribe_reject : forall q i c s, ~ In c (subchans (conns s q)) ->
  Connection_on_subscribe q i c s = BOk false (bad q s).
Proof. intros q i c s H. rewrite Connection_on_subscribe_eq, forbidden_subscribe_reject by exact H. reflexivity. Qed.
Lemma src_connection_lost : forall q s, copen (conns s q) = true -> Connection_connection_lost q s = BOk false (lostp q s).
Proof. intros q s H. rewrite Connection_connection_lost_eq, H. reflexivity. Qed.
Lemma src_subscribe_idempotent : forall q c s, memc c (active (conns s q)) = true -> Server_subscribe q c s = BOk false s.
Proof. intros q c s H. rewrite Server_subscribe_eq. unfold sub_raw. rewrite H. reflexivity. Qed.
Lemma src_unsubscribe_absent : forall q c s, memc c (active (conns s q)) = false -> Server_unsubscribe q c s = BOk false s.
Proof. intros q c s H. rewrite Server_unsubscribe_eq. unfold unsub_raw. rewrite H. reflexivity. Qed.
