(* BlkGenEq.v — ClientSession.subscribe / unsubscribe / publish and Protocol.on_publish of hpfeeds/blocking/session.py as
   translated on every run (BlkGen.v, harness/pytrans7.py) are the model's BApp steps and its HPublish effect; brun_src = brun.
   No axioms. *)
From Coq Require Import ZArith List Bool.
From Coq Require Import Strings.Byte.
From HP Require Import Bytes Wire ClientProto AioSession BlkSession BlkFacts BlkGen.
Import ListNotations.

Section Eq.
Variable ident secret : bytes.

Theorem blk_subscribe_src_eq : forall c s, BlkSession_subscribe ident secret c s = bstep ident secret s (BApp (FSub c)).
Proof. intros c s. unfold BlkSession_subscribe, blk_write, blk_set_add, blk_set_wanted. cbn [bstep wanted_after]. reflexivity. Qed.
Theorem blk_unsubscribe_src_eq : forall c s, BlkSession_unsubscribe ident secret c s = bstep ident secret s (BApp (FUnsub c)).
Proof. intros c s. unfold BlkSession_unsubscribe, blk_write, blk_set_discard, blk_set_wanted. cbn [bstep wanted_after]. reflexivity. Qed.
Theorem blk_publish_src_eq : forall c d s, BlkSession_publish ident secret c d s = bstep ident secret s (BApp (FPubl c d)).
Proof.
  intros c d s. unfold BlkSession_publish, blk_write. cbn [bstep wanted_after].
  destruct s as [cu pa wa qu go re ra st]. reflexivity.
Qed.
(* the dispatcher's HPublish event (a decoded OP_PUBLISH handed to Protocol.on_publish) *)
Theorem blk_on_publish_src_eq : forall i ch d c s, apply_ev (HPublish i ch d) (c, s) = (c, BlkProtocol_on_publish i ch d s).
Proof. reflexivity. Qed.

Definition bstep_src (s : bsess) (e : bev) : bsess :=
  match e with
  | BApp (FSub c) => BlkSession_subscribe ident secret c s
  | BApp (FUnsub c) => BlkSession_unsubscribe ident secret c s
  | BApp (FPubl c d) => BlkSession_publish ident secret c d s
  | _ => bstep ident secret s e
  end.
Definition brun_src (es : list bev) : bsess := fold_left bstep_src es bsess0.
Lemma bstep_src_eq : forall s e, bstep_src s e = bstep ident secret s e.
Proof.
  intros s e. destruct e as [| | |f|]; try reflexivity. destruct f; cbn [bstep_src];
    first [apply blk_subscribe_src_eq | apply blk_unsubscribe_src_eq | apply blk_publish_src_eq | reflexivity].
Qed.
Theorem brun_src_eq : forall es, brun_src es = brun ident secret es.
Proof.
  intro es. unfold brun_src, brun. generalize bsess0. induction es as [|e t IH]; intro s; [reflexivity|].
  cbn [fold_left]. rewrite bstep_src_eq. apply IH.
Qed.
End Eq.

Theorem src_brun_Qb : forall ident secret es, Qb (brun_src ident secret es).
Proof. intros. rewrite brun_src_eq. apply brun_Qb. Qed.
