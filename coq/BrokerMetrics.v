(* BrokerMetrics.v — C19: the exported gauges and counters equal reality in every reachable state. *)
From Coq Require Import ZArith List Bool Arith Lia.
From HP Require Import Bytes Sha1 Wire ParamsOK Broker BrokerSpec BrokerLemmas BrokerInv BrokerStep BrokerTrace.
Import ListNotations.
Open Scope Z_scope.

(* sum over all idents of the subscriptions gauge for one channel *)
Fixpoint gsum (c : chan) (g : list (ident * chan * Z)) : Z :=
  match g with
  | [] => 0
  | (k, v) :: t => if bytes_eqb (snd k) c then v + gsum c t else gsum c t
  end.
Definition nopen (s : state) : nat := length (filter (fun q => copen (conns s q)) (ids s)).

Record M (s : state) : Prop := {
  m_nodup : NoDup (ids s);
  m_ids : forall q, In q (ids s) <-> made (conns s q) = true;
  m_conn : g_conn s = Z.of_nat (nopen s);                     (* connected-clients gauge = open connections *)
  m_made : g_made s = Z.of_nat (length (ids s));              (* connections-made counts each once *)
  m_lost : g_made s - g_lost s = g_conn s;                    (* connections-lost = made - still open *)
  m_subs : forall c, gsum c (g_subs s) = Z.of_nat (length (subs s c)) }.   (* per channel: sum = subscribers *)

Lemma gsum_gadd c i c' d g : gsum c (gadd (i, c') d g) = if bytes_eqb c' c then gsum c g + d else gsum c g.
Proof.
  induction g as [|[[i0 c0] v] g IH]; cbn.
  - destruct (bytes_eqb c' c); lia.
  - unfold lbl_eqb. cbn. destruct (bytes_eqb_spec i0 i); cbn.
    + destruct (bytes_eqb_spec c0 c'); cbn.
      * subst. destruct (bytes_eqb c' c); lia.
      * rewrite IH. destruct (bytes_eqb c0 c); destruct (bytes_eqb c' c); lia.
    + rewrite IH. destruct (bytes_eqb c0 c); destruct (bytes_eqb c' c); lia.
Qed.

(* M reads only these *)
Lemma M_ext s s' :
  M s -> ids s' = ids s -> g_conn s' = g_conn s -> g_made s' = g_made s -> g_lost s' = g_lost s ->
  g_subs s' = g_subs s -> subs s' = subs s ->
  (forall q, copen (conns s' q) = copen (conns s q) /\ made (conns s' q) = made (conns s q)) -> M s'.
Proof.
  intros [A B C D E F] Hi Hc Hm Hl Hg Hs Hq. constructor.
  - rewrite Hi. exact A.
  - intros q. rewrite Hi. destruct (Hq q) as [_ ->]. apply B.
  - rewrite Hc, C. unfold nopen. rewrite Hi. f_equal. f_equal. apply filter_ext. intros q. symmetry. apply Hq.
  - rewrite Hm, Hi. exact D.
  - rewrite Hm, Hl, Hc. exact E.
  - intros c. rewrite Hg, Hs. apply F.
Qed.

Lemma modc_M q f s : M s -> (forall c, copen (f c) = copen c /\ made (f c) = made c) -> M (modc q f s).
Proof.
  intros Hm Hf. apply (M_ext s); auto. intros q'. cbn. unfold upd.
  destruct (Nat.eqb_spec q' q); subst; [apply Hf|auto].
Qed.
Lemma logA_M a s : M s -> M (logA a s).
Proof. intros Hm. apply (M_ext s); auto. Qed.
Lemma wr_M q f s : M s -> M (wr q f s).
Proof. intros Hm. unfold wr. destruct (_ || _); [exact Hm|]. apply modc_M; [exact Hm|]. intros c. split; reflexivity. Qed.
Lemma cl_M q s : M s -> M (cl q s).
Proof.
  intros Hm. unfold cl. destruct (closing _); [exact Hm|]. apply logA_M. apply modc_M; [exact Hm|]. intros c. split; reflexivity.
Qed.

Lemma gsum_regauge c (a b : ident) l : forall g,
  gsum c (fold_left (fun g c' => gadd (a, c') 1 (gadd (b, c') (-1) g)) l g) = gsum c g.
Proof.
  induction l as [|c' l IH]; intros g; cbn [fold_left]; [reflexivity|].
  rewrite IH, !gsum_gadd. destruct (bytes_eqb c' c); lia.
Qed.
Lemma regauge_M q i s : M s -> M (regauge q i s).
Proof.
  intros [A B C D E F]. constructor; cbn; auto.
  intros c. rewrite <- F. unfold regauge_g. destruct (ak (conns s q)) as [old|]; [|reflexivity].
  destruct (bytes_eqb old i); [reflexivity|]. apply gsum_regauge.
Qed.

Section Metrics.
Variable bname : bytes.
Variable store : ident -> lookup.
Variable async_store : bool.
Notation Good := (Good (srow store) async_store).
Notation Good0 := (Good0 (srow store) async_store).

Lemma sub_raw_M q c s : Inv s -> copen (conns s q) = true -> M s -> M (sub_raw q c s).
Proof.
  intros I Ho [A B C D E F]. unfold sub_raw. destruct (memc c (active (conns s q))) eqn:Mm; [constructor; assumption|].
  constructor; cbn; auto.
  - intros q'. unfold upd. destruct (Nat.eqb_spec q' q); subst; cbn; apply B.
  - rewrite C. unfold nopen. cbn. f_equal. f_equal. apply filter_ext. intros q'. unfold upd.
    destruct (Nat.eqb_spec q' q); subst; reflexivity.
  - intros c'. rewrite gsum_gadd. unfold updc. destruct (bytes_eqb_spec c' c).
    + subst. rewrite bytes_eqb_refl. cbn [length]. rewrite F. lia.
    + destruct (bytes_eqb_spec c c'); [congruence|]. apply F.
Qed.
Lemma unsub_raw_M q c s : Inv s -> M s -> M (unsub_raw q c s).
Proof.
  intros I [A B C D E F]. unfold unsub_raw. destruct (memc c (active (conns s q))) eqn:Mm; [|constructor; assumption].
  apply memc_In in Mm. destruct I as [_ I2 _ _ _ _ _ _]. apply I2 in Mm.
  constructor; cbn; auto.
  - intros q'. unfold upd. destruct (Nat.eqb_spec q' q); subst; cbn; apply B.
  - rewrite C. unfold nopen. cbn. f_equal. f_equal. apply filter_ext. intros q'. unfold upd.
    destruct (Nat.eqb_spec q' q); subst; reflexivity.
  - intros c'. rewrite gsum_gadd. unfold updc. destruct (bytes_eqb_spec c' c).
    + subst. rewrite bytes_eqb_refl. rewrite F. pose proof (length_rmn q (subs s c) Mm). lia.
    + destruct (bytes_eqb_spec c c'); [congruence|]. apply F.
Qed.
Lemma unsub_all_M l : forall q s, Inv s -> M s -> M (unsub_all q l s).
Proof.
  induction l as [|c l IH]; intros q s I Hm; cbn; [exact Hm|].
  apply IH; [apply (unsub_raw_inv (srow store)); exact I|apply unsub_raw_M; assumption].
Qed.

Lemma filter_drop (f g : nat -> bool) (p : nat) l :
  NoDup l -> In p l -> f p = true -> g p = false -> (forall q, q <> p -> g q = f q) ->
  S (length (filter g l)) = length (filter f l).
Proof.
  intros ND Hin Hf Hg Ho. induction l as [|x l IH]; [destruct Hin|].
  inversion ND as [|? ? Hx ND']; subst. cbn. destruct (Nat.eq_dec x p) as [->|N].
  - rewrite Hf, Hg. cbn. f_equal. f_equal. apply filter_ext_in. intros q Hq. apply Ho. intro; subst; contradiction.
  - destruct Hin as [E|Hin]; [congruence|]. rewrite (Ho x N). destruct (f x); cbn; rewrite IH; auto.
Qed.

Lemma lostp_M q s : Inv s -> copen (conns s q) = true -> M s -> M (lostp q s).
Proof.
  intros I Ho Hm. unfold lostp. fold (unsub_all q (active (conns s q)) s).
  set (s1 := unsub_all q (active (conns s q)) s).
  assert (M1 : M s1) by (apply unsub_all_M; assumption).
  destruct (unsub_all_frame (active (conns s q)) s q) as (_ & Fo & Fr). fold s1 in Fo, Fr.
  apply rest_inv in Fr. destruct Fr as (Fm & Fc & _).
  destruct M1 as [A B C D E F].
  assert (Hin : In q (ids s1)). { apply B. rewrite Fm. destruct I as [_ _ _ _ _ _ _ I8]. apply I8. exact Ho. }
  assert (Cnt : S (nopen (logA (AGone q) (set_g_conn (g_conn s1 - 1) (set_g_lost (g_lost s1 + 1) (modc q (set_copen false) s1)))))
                = nopen s1).
  { unfold nopen. cbn. apply (filter_drop _ _ q); auto.
    - rewrite Fc. exact Ho.
    - unfold upd. rewrite Nat.eqb_refl. reflexivity.
    - intros q' N. unfold upd. destruct (Nat.eqb_spec q' q); [congruence|reflexivity]. }
  constructor; cbn; auto.
  - intros q'. unfold upd. destruct (Nat.eqb_spec q' q); subst; cbn; apply B.
  - cbn in Cnt. rewrite C. lia.
  - lia.
Qed.

Lemma deliver_M i c dt s d : Good0 s -> M s -> copen (conns s d) = true ->
  exists s', deliver i c dt (Ok s) d = Ok s' /\ Good0 s' /\ M s' /\ (forall q, q <> d -> conns s' q = conns s q).
Proof.
  intros G Hm Ho. unfold deliver. destruct (closing (conns s d)) eqn:Ec.
  - rewrite Ho. destruct (lostp_good0 (srow store) async_store d s G Ho) as (G' & _ & _ & Fo & _).
    exists (lostp d s). split; [reflexivity|]. split; [exact G'|]. split; [|exact Fo].
    apply lostp_M; [apply G|exact Ho|exact Hm].
  - exists (wr d (FPub i c dt) s). split; [reflexivity|]. split; [apply wr_good0; exact G|]. split; [apply wr_M; exact Hm|].
    intros q N. unfold wr. destruct (_ || _); [reflexivity|]. cbn. unfold upd. destruct (Nat.eqb_spec q d); [congruence|reflexivity].
Qed.
Lemma deliver_loop_M i c dt : forall todo s, NoDup todo -> Good0 s -> M s ->
  (forall q, In q todo -> copen (conns s q) = true) ->
  exists s', fold_left (deliver i c dt) todo (Ok s) = Ok s' /\ M s'.
Proof.
  induction todo as [|d todo IH]; intros s ND G Hm Ho; [exists s; auto|].
  inversion ND as [|? ? Hd ND']; subst.
  destruct (deliver_M i c dt s d G Hm (Ho d (or_introl eq_refl))) as (s1 & E1 & G1 & M1 & Fo).
  destruct (IH s1 ND' G1 M1) as (s2 & E2 & M2).
  { intros q Hq. rewrite Fo; [apply Ho; right; exact Hq|]. intro; subst; contradiction. }
  exists s2. cbn [fold_left]. rewrite E1. auto.
Qed.

Lemma pstep_M p s s' : Good s -> M s -> pstep bname store async_store p s s' -> M s'.
Proof.
  intros G Hm H. pose proof (proj1 (proj1 G)) as I. destruct H.
  - apply modc_M; [exact Hm|]. intros c. destruct (H c) as [Hc _]. apply core_inv in Hc. intuition.
  - apply wr_M; exact Hm.
  - apply cl_M; exact Hm.
  - apply modc_M; [exact Hm|]. intros c. specialize (H0 c). injection H0. intros. auto.
  - unfold sub. apply logA_M. apply sub_raw_M; assumption.
  - unfold unsub. apply logA_M. apply unsub_raw_M; assumption.
  - apply lostp_M; assumption.
  - apply logA_M. apply modc_M; [apply regauge_M; exact Hm|]. intros c. split; reflexivity.
  - unfold publish in H1.
    destruct G as (G0 & _).
    assert (G00 : Good0 (logA (APub p (akl (conns s p)) c d) s)).
    { destruct G0 as (I0 & [R1 R2] & [L1 L2 L3]). split; [apply inv_logA; exact I0|]. split.
      - constructor; intros q; cbn; [apply R1|apply R2].
      - constructor; cbn.
        + intros q. specialize (L1 q). unfold ak_link in *. cbn. exact L1.
        + intros q. specialize (L2 q). unfold nonce_link in *. cbn. exact L2.
        + split; [|exact L3]. exists r. split; [|exact H0].
          specialize (L1 p). unfold ak_link in L1. rewrite H in L1. unfold akl. destruct L1 as (-> & _). exact H. }
    destruct (deliver_loop_M (akl (conns s p)) c d (nodup Nat.eq_dec (subs s c)) _ (NoDup_nodup _ _) G00 (logA_M _ _ Hm)) as (s2 & E2 & M2).
    { intros q Hq. apply nodup_In in Hq. destruct I as [I1 _ _ _ _ _ _ _]. apply (I1 _ _ Hq). }
    cbn in E2. rewrite E2 in H1. inversion H1; subst. exact M2.
  - destruct Hm as [A B C D E F].
    destruct (unmade_facts store async_store s p G H) as (Ho & _ & _).
    unfold do_connect. rewrite H. apply wr_M.
    assert (Nin : ~ In p (ids s)) by (intro X; apply B in X; congruence).
    constructor; cbn.
    + constructor; assumption.
    + intros q. unfold upd. destruct (Nat.eqb_spec q p); subst; cbn; [tauto|].
      rewrite <- B. split; [intros [X|X]; [congruence|exact X]|auto].
    + unfold nopen. cbn. unfold upd at 1. rewrite Nat.eqb_refl. cbn [copen set_nonce set_copen set_made conn0].
      cbn [length]. rewrite C. unfold nopen.
      replace (filter (fun q => copen (upd (conns s) p (set_nonce n (set_copen true (set_made true conn0))) q)) (ids s))
        with (filter (fun q => copen (conns s q)) (ids s)); [lia|].
      apply filter_ext_in. intros q Hq. unfold upd. destruct (Nat.eqb_spec q p); [subst; contradiction|reflexivity].
    + cbn [length]. lia.
    + lia.
    + exact F.
  - unfold abort. apply cl_M. apply modc_M; [exact Hm|]. intros c. split; reflexivity.
Qed.

Lemma psteps_M p s s' : Good s -> M s -> psteps bname store async_store p s s' -> M s'.
Proof.
  intros G Hm H. induction H; [exact Hm|]. apply IHpsteps; [eapply pstep_good; eassumption|eapply pstep_M; eassumption].
Qed.
Lemma esteps_M s s' : Good s -> M s -> esteps bname store async_store s s' -> M s'.
Proof.
  intros G Hm H. induction H; [exact Hm|]. apply IHesteps; [eapply psteps_good; eassumption|eapply psteps_M; eassumption].
Qed.

Lemma M_state0 : M state0.
Proof.
  constructor; cbn.
  - constructor.
  - intros q. split; [tauto|discriminate].
  - reflexivity.
  - reflexivity.
  - reflexivity.
  - reflexivity.
Qed.

Lemma run_from_M h : forall s, Good s -> M s -> M (fold_left (step bname store async_store) h s).
Proof.
  induction h as [|e h IH]; intros s G Hm; cbn; [exact Hm|].
  apply IH; [apply step_good; exact G|]. eapply esteps_M; [exact G|exact Hm|apply step_tr; exact G].
Qed.
Theorem run_M h : M (run bname store async_store h).
Proof. unfold run. apply run_from_M; [exact (good_state0 bname store async_store)|exact M_state0]. Qed.

(* all gauges return to zero once every client has gone *)
Theorem all_gone_zero h : (forall q, copen (conns (run bname store async_store h) q) = false) ->
  g_conn (run bname store async_store h) = 0 /\ forall c, gsum c (g_subs (run bname store async_store h)) = 0.
Proof.
  intros Hall. destruct (run_M h) as [A B C D E F]. split.
  - rewrite C. unfold nopen. clear A B C D E F. generalize (ids (run bname store async_store h)). intros l.
    replace (filter (fun q => copen (conns (run bname store async_store h) q)) l) with (@nil nat); [reflexivity|].
    symmetry. induction l as [|x l IH]; [reflexivity|]. cbn. rewrite Hall. exact IH.
  - intros c. rewrite F. destruct (subs (run bname store async_store h) c) as [|q l] eqn:Es; [reflexivity|].
    exfalso. destruct (run_good bname store async_store h) as (([I1 _ _ _ _ _ _ _] & _) & _).
    destruct (I1 c q) as [X _]; [rewrite Es; left; reflexivity|]. rewrite Hall in X. discriminate.
Qed.
End Metrics.
