(* StoresRun.v — runs the store models on generated cases (vm_compute) and prints fingerprints. *)
From Coq Require Import ZArith NArith List Bool String.
From Coq Require Import Strings.Byte.
From HP Require Import Bytes Sha1 Run Stores.
Import ListNotations.

Fixpoint jfp (j : json) : N :=
  match j with
  | JAtom a => adler a
  | JArr l => (fix go (l : list json) (acc : N) : N :=
                 match l with [] => acc | x :: t => go t ((acc * 31 + jfp x + 1) mod 4294967296)%N end) l 7%N
  | JObj l => (fix go (l : list (bytes * json)) (acc : N) : N :=
                 match l with [] => acc | (k, v) :: t => go t ((acc * 37 + adler k * 3 + jfp v + 5) mod 4294967296)%N end) l 11%N
  end.
Definition tfp (t : table) : N := jfp (JObj t).

(* C18: the database after each (re)load *)
Fixpoint run_loads (db : table) (ps : list (option json)) : list N :=
  match ps with [] => [] | p :: t => let db' := load db p in tfp db' :: run_loads db' t end.

(* C17: answers as fingerprints; 0 = no such identity *)
Definition lfp (l : list bytes) : N := fold_left (fun acc x => (acc * 41 + adler x + 3) mod 4294967296)%N l 13%N.
Definition cfp (c : option cred) : N :=
  match c with
  | None => 0%N
  | Some c => ((adler (c_secret c) * 7 + adler (c_owner c) * 11 + lfp (c_pub c) * 13 + lfp (c_sub c) * 17 + 1) mod 4294967296)%N
  end.

Inductive storecfg :=
| SMem (creds : list (bytes * option cred))
| SSql (rows : list sqlrow)
| SJson (db : table)
| SEnv (env : list (bytes * bytes)) (uppers : list (bytes * bytes))
| SMulti (members : list storecfg).

Definition upper_of (m : list (bytes * bytes)) (i : bytes) : bytes :=
  match assocb i m with Some u => u | None => i end.
Fixpoint store_get (s : storecfg) (i : bytes) : option cred :=
  match s with
  | SMem c => mem_get c i
  | SSql r => sql_get r i
  | SJson db => json_get db i
  | SEnv e u => env_get (upper_of u) e i
  | SMulti ms => (fix go (ms : list storecfg) : option cred :=
                    match ms with [] => None | m :: t => match store_get m i with Some c => Some c | None => go t end end) ms
  end.
Definition run_store (s : storecfg) (lookups : list bytes) : list N := map (fun i => cfp (store_get s i)) lookups.

(* the stacked configuration is exactly multi_get over its members' lookup functions *)
Lemma store_get_multi ms i : store_get (SMulti ms) i = multi_get (map store_get ms) i.
Proof. induction ms as [|m t IH]; cbn; [reflexivity|]. destruct (store_get m i); [reflexivity|]. exact IH. Qed.
