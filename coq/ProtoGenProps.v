(* ProtoGenProps.v — C05/C06/C07 restated for the Gallina text translated from /repo/hpfeeds/protocol.py
   on this run (ProtoGen.v), obtained from the theorems about Wire.v through ProtoGenEq.v. *)
From Coq Require Import ZArith List Lia Bool ZifyBool String.
From Coq Require Import Strings.Byte.
From HP Require Import Bytes Utf8 Sha1 Wire WireFacts Params ParamsOK ParamsC05 WireRoundtrip WireStream
                       PyPrim ProtoGen ProtoGenEq.
Import ListNotations.
Open Scope list_scope.
Open Scope Z_scope.

(* "the built frame, fed to a fresh Unpacker and iterated to exhaustion, yields exactly (op, body),
    leaves nothing buffered and raises nothing but StopIteration; its declared length is its length" *)
Definition src_decodes_to (fr : bytes) (op : Z) (body : bytes) : Prop :=
  src_feed_all [fr] = ([VTuple [VInt op; VBytes body]], VBArr [], None) /\ declared_len fr = Some (zlen fr).

Lemma decodes_src fr op body : decodes_to limitP fr op body -> src_decodes_to fr op body.
Proof.
  intros [Hp Hd]. split; [|exact Hd].
  rewrite src_feed_all_eq. unfold feed_all. cbn [fold_left]. unfold ufeed, ustate0, feed. cbn [app]. rewrite Hp. reflexivity.
Qed.

Lemma limit_lt op : 0 <= op <= 5 -> limitP op <= 2147483647.
Proof. intros H. pose proof (limP_lt op H). lia. Qed.

Theorem src_info name rand : wf_str name -> zlen rand <= 20 ->
  exists fr body, ProtoGen.msginfo (VStr name) (VBytes rand) = Ok (VBytes fr) /\ src_decodes_to fr 1 body /\
                  ProtoGen.readinfo (VBytes body) = Ok (VTuple [VStr name; VBytes rand]).
Proof.
  intros Hn Hr. destruct (C05_info name rand Hn Hr) as (fr & body & Hb & Hd & Hrd).
  exists fr, body. destruct Hn as [_ Hn].
  rewrite msginfo_eq by lia. rewrite Hb. split; [reflexivity|]. split; [apply decodes_src; exact Hd|].
  pose proof (readinfo_eq body) as H. rewrite Hrd in H. exact H.
Qed.

Theorem src_auth rand ident secret : wf_str ident ->
  exists fr body, ProtoGen.msgauth (VBytes rand) (VStr ident) (VStr secret) = Ok (VBytes fr) /\
                  src_decodes_to fr 2 body /\
                  ProtoGen.readauth (VBytes body) = Ok (VTuple [VStr ident; VBytes (sha1 (rand ++ secret))]).
Proof.
  intros Hn. destruct (C05_auth rand ident secret Hn) as (fr & body & Hb & Hd & Hrd).
  exists fr, body. destruct Hn as [_ Hn].
  rewrite msgauth_eq by lia. rewrite Hb. split; [reflexivity|]. split; [apply decodes_src; exact Hd|].
  pose proof (readauth_eq body) as H. rewrite Hrd in H. exact H.
Qed.

Theorem src_publish ident chan data : wf_str ident -> wf_str chan ->
  7 + zlen ident + zlen chan + zlen data <= limitP 3 ->
  exists fr body, ProtoGen.msgpublish (VStr ident) (VStr chan) (VBytes data) = Ok (VBytes fr) /\
                  src_decodes_to fr 3 body /\
                  ProtoGen.readpublish (VBytes body) = Ok (VTuple [VStr ident; VStr chan; VBytes data]).
Proof.
  intros Hi Hc Hl. destruct (C05_publish ident chan data Hi Hc Hl) as (fr & body & Hb & Hd & Hrd).
  exists fr, body. pose proof (limit_lt 3 ltac:(lia)) as L3.
  rewrite msgpublish_eq by lia. rewrite Hb. split; [reflexivity|]. split; [apply decodes_src; exact Hd|].
  pose proof (readpublish_eq body) as H. rewrite Hrd in H. exact H.
Qed.

Theorem src_subscribe ident chan : wf_str ident -> wf_str chan ->
  exists fr body, ProtoGen.msgsubscribe (VStr ident) (VStr chan) = Ok (VBytes fr) /\ src_decodes_to fr 4 body /\
                  ProtoGen.readsubscribe (VBytes body) = Ok (VTuple [VStr ident; VStr chan]).
Proof.
  intros Hi Hc. destruct (C05_subscribe ident chan Hi Hc) as (fr & body & Hb & Hd & Hrd).
  exists fr, body. destruct Hi as [_ Hi]. destruct Hc as [_ Hc].
  rewrite msgsubscribe_eq by lia. rewrite Hb. split; [reflexivity|]. split; [apply decodes_src; exact Hd|].
  pose proof (readsubscribe_eq body) as H. rewrite Hrd in H. exact H.
Qed.

Theorem src_unsubscribe ident chan : wf_str ident -> wf_str chan ->
  exists fr body, ProtoGen.msgunsubscribe (VStr ident) (VStr chan) = Ok (VBytes fr) /\ src_decodes_to fr 5 body /\
                  ProtoGen.readunsubscribe (VBytes body) = Ok (VTuple [VStr ident; VStr chan]).
Proof.
  intros Hi Hc. destruct (C05_unsubscribe ident chan Hi Hc) as (fr & body & Hb & Hd & Hrd).
  exists fr, body. destruct Hi as [_ Hi]. destruct Hc as [_ Hc].
  rewrite msgunsubscribe_eq by lia. rewrite Hb. split; [reflexivity|]. split; [apply decodes_src; exact Hd|].
  pose proof (readunsubscribe_eq body) as H. rewrite Hrd in H. exact H.
Qed.

Theorem src_error err : utf8_valid err = true -> 5 + zlen err <= limitP 0 ->
  exists fr body, ProtoGen.msgerror (VStr err) = Ok (VBytes fr) /\ src_decodes_to fr 0 body /\
                  ProtoGen.readerror (VBytes body) = Ok (VStr err).
Proof.
  intros Hv Hl. destruct (C05_error err Hv Hl) as (fr & body & Hb & Hd & Hrd).
  exists fr, body. pose proof (limit_lt 0 ltac:(lia)) as L0.
  rewrite msgerror_eq by lia. rewrite Hb. split; [reflexivity|]. split; [apply decodes_src; exact Hd|].
  rewrite readerror_eq, Hrd. reflexivity.
Qed.

(* C06 on the translated Unpacker: feed/iterate chunk by chunk = feed everything at once *)
Theorem src_chunk_independent chunks : src_feed_all chunks = src_feed_all [List.concat chunks].
Proof.
  rewrite !src_feed_all_eq, !chunk_independent. cbn [List.concat]. rewrite app_nil_r. reflexivity.
Qed.

Theorem src_frames fs p chunks :
  Forall (wf_frame limitP) fs -> next limitP p = NeedMore -> List.concat chunks = List.concat (map enc fs) ++ p ->
  src_feed_all chunks = (map frame_val fs, VBArr p, None).
Proof. intros Hf Hp Hc. rewrite src_feed_all_eq, (frames_any_chunking fs p chunks Hf Hp Hc). reflexivity. Qed.

(* C07 on the translated Unpacker *)
Theorem src_total chunks vs s e : src_feed_all chunks = (vs, s, e) -> e <> Some Unsupported.
Proof.
  rewrite src_feed_all_eq. destruct (feed_all limitP chunks) as [[fs r] c] eqn:F. cbn [abs_result].
  intros H. inversion H; subst. pose proof (total chunks fs r c F) as T.
  destruct (outcomes chunks fs r c F) as (_ & _ & [[-> _]|(k & -> & Hk & _)]); [discriminate|].
  cbn [option_map]. destruct Hk as [->|[->| ->]]; discriminate.
Qed.

Theorem src_outcomes chunks vs s e : src_feed_all chunks = (vs, s, e) ->
  exists fs r, vs = map frame_val fs /\ s = VBArr r /\
    List.concat chunks = List.concat (map enc fs) ++ r /\ Forall (frame_ok limitP) fs /\
    (e = None /\ Unpacker_next s = (Raise StopIteration, s) \/
     exists c, (c = 1 \/ c = 2 \/ c = 3) /\ e = Some (bad_exn c) /\ Unpacker_next s = (Raise (bad_exn c), s)).
Proof.
  rewrite src_feed_all_eq. destruct (feed_all limitP chunks) as [[fs r] c] eqn:F. cbn [abs_result].
  intros H. inversion H; subst. exists fs, r. split; [reflexivity|]. split; [reflexivity|].
  destruct (outcomes chunks fs r c F) as (Hc & Hf & Hr). split; [exact Hc|]. split; [exact Hf|].
  rewrite next_eq. unfold unpack_spec.
  destruct Hr as [[-> Hn]|(k & -> & Hk & Hn)]; rewrite Hn.
  - left. split; reflexivity.
  - right. exists k. split; [exact Hk|]. split; [|reflexivity].
    cbn [option_map]. destruct Hk as [->|[->| ->]]; reflexivity.
Qed.
