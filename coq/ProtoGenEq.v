(* ProtoGenEq.v — the Gallina text that harness/pytrans.py generated from /repo/hpfeeds/protocol.py on
   this run (ProtoGen.v) computes exactly what the hand-written model Wire.v computes.

   Every theorem of WireFacts/WireRoundtrip/WireStream is about Wire.v; the lemmas below carry them
   over to the translated source, so a change to protocol.py that alters what a builder, a reader or
   the Unpacker does makes this file stop compiling (a broken proof obligation of C05/C06/C07). *)
From Coq Require Import ZArith List Lia Bool ZifyBool String.
From Coq Require Import Strings.Byte.
From HP Require Import Bytes Utf8 Sha1 Wire WireFacts Params ParamsOK PyPrim ProtoGen.
Import ListNotations.
Open Scope list_scope.
Open Scope Z_scope.

(* ---- the constants ---- *)
Lemma consts_eq :
  (OP_ERROR, OP_INFO, OP_AUTH, OP_PUBLISH, OP_SUBSCRIBE, OP_UNSUBSCRIBE)
  = (VInt op_error, VInt op_info, VInt op_auth, VInt op_publish, VInt op_subscribe, VInt op_unsubscribe)
  /\ MAXBUF = VInt maxbuf.
Proof. vm_compute. split; reflexivity. Qed.

Lemma op_vals :
  OP_ERROR = VInt 0 /\ OP_INFO = VInt 1 /\ OP_AUTH = VInt 2 /\ OP_PUBLISH = VInt 3
  /\ OP_SUBSCRIBE = VInt 4 /\ OP_UNSUBSCRIBE = VInt 5.
Proof. vm_compute. repeat split. Qed.

(* SIZES.get(op, MAXBUF) of the source = limitP of Params.v (read by genparams.py) on the six opcodes *)
Lemma sizes_get op : 0 <= op <= 5 -> py_dict_get SIZES (VInt op) MAXBUF = Ok (VInt (limitP op)).
Proof.
  intros H.
  assert (C : op = 0 \/ op = 1 \/ op = 2 \/ op = 3 \/ op = 4 \/ op = 5) by lia.
  destruct C as [->|[->|[->|[->|[->| ->]]]]]; vm_compute; reflexivity.
Qed.

(* ---- slices ---- *)
Lemma firstn_min {A} (l : list A) h : 0 <= h ->
  firstn (Z.to_nat (Z.max 0 (Z.min h (zlen l)))) l = firstn (Z.to_nat h) l.
Proof.
  intros Hh. unfold zlen.
  destruct (Z_le_gt_dec h (Z.of_nat (List.length l))) as [L|G].
  - f_equal. lia.
  - rewrite !firstn_all2 by lia. reflexivity.
Qed.
Lemma skipn_min {A} (l : list A) h : 0 <= h ->
  skipn (Z.to_nat (Z.max 0 (Z.min h (zlen l)))) l = skipn (Z.to_nat h) l.
Proof.
  intros Hh. unfold zlen.
  destruct (Z_le_gt_dec h (Z.of_nat (List.length l))) as [L|G].
  - f_equal. lia.
  - rewrite !skipn_all2 by lia. reflexivity.
Qed.

Lemma slice_to {A} (l : list A) h : 0 <= h -> slice l None (Some h) = firstn (Z.to_nat h) l.
Proof.
  intros Hh. unfold slice, norm_idx. cbn [skipn Z.to_nat].
  replace (h <? 0) with false by lia. rewrite Z.sub_0_r. change (skipn (Z.to_nat 0) l) with l.
  apply firstn_min; exact Hh.
Qed.
Lemma slice_from {A} (l : list A) a : 0 <= a -> slice l (Some a) None = skipn (Z.to_nat a) l.
Proof.
  intros Ha. unfold slice, norm_idx. replace (a <? 0) with false by lia.
  rewrite skipn_min by exact Ha.
  apply firstn_all2. rewrite skipn_length. unfold zlen. lia.
Qed.
Lemma slice_between {A} (l : list A) a b : 0 <= a <= b ->
  slice l (Some a) (Some b) = firstn (Z.to_nat (b - a)) (skipn (Z.to_nat a) l).
Proof.
  intros H. unfold slice, norm_idx.
  replace (a <? 0) with false by lia. replace (b <? 0) with false by lia.
  rewrite skipn_min by lia.
  unfold zlen.
  destruct (Z_le_gt_dec b (Z.of_nat (List.length l))) as [L|G].
  - f_equal. lia.
  - rewrite !firstn_all2; [reflexivity| |]; rewrite skipn_length; lia.
Qed.

(* ---- force_bytes / force_str ---- *)
Lemma force_bytes_str s : force_bytes (VStr s) = Ok (VBytes s).
Proof. reflexivity. Qed.
Lemma force_bytes_bytes b : force_bytes (VBytes b) = Ok (VBytes b).
Proof. reflexivity. Qed.
Lemma force_str_str s : force_str (VStr s) = Ok (VStr s).
Proof. reflexivity. Qed.
Lemma force_str_bytes b :
  force_str (VBytes b) = if utf8_valid b then Ok (VStr b) else Raise UnicodeDecodeError.
Proof. reflexivity. Qed.
Lemma force_str_barr b :
  force_str (VBArr b) = if utf8_valid b then Ok (VStr b) else Raise UnicodeDecodeError.
Proof. reflexivity. Qed.

(* ---- builders ---- *)
Definition lift_opt (o : option bytes) : res val :=
  match o with Some b => Ok (VBytes b) | None => Raise StructError end.

Lemma strpack8_bytes x : ProtoGen.strpack8 (VBytes x) = lift_opt (Wire.strpack8 x).
Proof.
  unfold ProtoGen.strpack8, Wire.strpack8. rewrite force_bytes_bytes.
  cbn [bindR py_len py_struct_pack String.eqb Ascii.eqb Bool.eqb].
  unfold in_range. pose proof (zlen_nonneg x).
  destruct (zlen x <=? 255) eqn:E.
  - replace (0 <=? zlen x) with true by lia. reflexivity.
  - replace (0 <=? zlen x) with true by lia. reflexivity.
Qed.
Lemma strpack8_str s : ProtoGen.strpack8 (VStr s) = lift_opt (Wire.strpack8 s).
Proof. rewrite <- strpack8_bytes. reflexivity. Qed.

Lemma msghdr_eq op d : 0 <= op <= 255 -> 5 + zlen d <= 2147483647 ->
  ProtoGen.msghdr (VInt op) (VBytes d) = Ok (VBytes (hdr op d)).
Proof.
  intros Ho Hd. unfold ProtoGen.msghdr, hdr.
  cbn [bindR py_len py_add py_struct_pack String.eqb Ascii.eqb Bool.eqb].
  unfold in_range. pose proof (zlen_nonneg d).
  replace (-2147483648 <=? 5 + zlen d) with true by lia.
  replace (5 + zlen d <=? 2147483647) with true by lia.
  replace (0 <=? op) with true by lia. replace (op <=? 255) with true by lia.
  cbn [andb bindR py_add]. rewrite <- app_assoc. reflexivity.
Qed.

Ltac ops := destruct op_vals as (E0 & E1 & E2 & E3 & E4 & E5); rewrite ?E0, ?E1, ?E2, ?E3, ?E4, ?E5.

Lemma msgpublish_eq i c d : 7 + zlen i + zlen c + zlen d <= 2147483647 ->
  ProtoGen.msgpublish (VStr i) (VStr c) (VBytes d) = lift_opt (Wire.msgpublish i c d).
Proof.
  intros H. unfold ProtoGen.msgpublish, Wire.msgpublish. ops.
  rewrite !strpack8_str, force_bytes_bytes.
  unfold Wire.strpack8.
  destruct (zlen i <=? 255) eqn:Ei; cbn [lift_opt bindR]; [|reflexivity].
  destruct (zlen c <=? 255) eqn:Ec; cbn [lift_opt bindR py_add]; [|reflexivity].
  rewrite msghdr_eq; [|lia|]. 
  - rewrite <- app_assoc. reflexivity.
  - rewrite !zlen_app, !zlen_cons. lia.
Qed.

Lemma msgsub_like op0 (g : val -> val -> res val) (w : bytes -> bytes -> option bytes) i c :
  (forall a b, g a b = bindR (bindR (ProtoGen.strpack8 a) (fun t_1 => bindR (force_bytes b) (fun t_2 => py_add t_1 t_2)))
                             (fun t_3 => ProtoGen.msghdr (VInt op0) t_3)) ->
  (forall a b, w a b = match Wire.strpack8 a with Some n => Some (hdr op0 (n ++ b)) | None => None end) ->
  0 <= op0 <= 255 -> 6 + zlen i + zlen c <= 2147483647 ->
  g (VStr i) (VBytes c) = lift_opt (w i c) /\ g (VStr i) (VStr c) = lift_opt (w i c).
Proof.
  intros Hg Hw Ho H. rewrite !Hg, Hw. rewrite strpack8_str, force_bytes_bytes, force_bytes_str.
  unfold Wire.strpack8.
  destruct (zlen i <=? 255) eqn:Ei; cbn [lift_opt bindR py_add]; [|split; reflexivity].
  rewrite msghdr_eq; [split; reflexivity|lia|].
  rewrite !zlen_app, !zlen_cons. lia.
Qed.

Lemma msgsubscribe_eq i c : 6 + zlen i + zlen c <= 2147483647 ->
  ProtoGen.msgsubscribe (VStr i) (VStr c) = lift_opt (Wire.msgsubscribe i c).
Proof.
  intros H. apply (msgsub_like 4 ProtoGen.msgsubscribe Wire.msgsubscribe i c); try lia.
  - intros a b. unfold ProtoGen.msgsubscribe. ops. reflexivity.
  - intros a b. reflexivity.
Qed.
Lemma msgunsubscribe_eq i c : 6 + zlen i + zlen c <= 2147483647 ->
  ProtoGen.msgunsubscribe (VStr i) (VStr c) = lift_opt (Wire.msgunsubscribe i c).
Proof.
  intros H. apply (msgsub_like 5 ProtoGen.msgunsubscribe Wire.msgunsubscribe i c); try lia.
  - intros a b. unfold ProtoGen.msgunsubscribe. ops. reflexivity.
  - intros a b. reflexivity.
Qed.
Lemma msginfo_eq n r : 6 + zlen n + zlen r <= 2147483647 ->
  ProtoGen.msginfo (VStr n) (VBytes r) = lift_opt (Wire.msginfo n r).
Proof.
  intros H. apply (msgsub_like 1 ProtoGen.msginfo Wire.msginfo n r); try lia.
  - intros a b. unfold ProtoGen.msginfo. ops. reflexivity.
  - intros a b. reflexivity.
Qed.

Lemma hashsecret_eq rand secret :
  ProtoGen.hashsecret (VBytes rand) (VStr secret) = Ok (VBytes (Wire.hashsecret rand secret)).
Proof. reflexivity. Qed.

Lemma msgauth_eq rand i secret : zlen i <= 255 ->
  ProtoGen.msgauth (VBytes rand) (VStr i) (VStr secret) = lift_opt (Wire.msgauth rand i secret).
Proof.
  intros H. unfold ProtoGen.msgauth, Wire.msgauth, Wire.msgauth_digest. ops.
  rewrite strpack8_str, hashsecret_eq. unfold Wire.strpack8.
  replace (zlen i <=? 255) with true by lia. cbn [lift_opt bindR py_add].
  rewrite msghdr_eq; [reflexivity|lia|].
  rewrite zlen_app, zlen_cons. unfold Wire.hashsecret, zlen at 2. rewrite sha1_length. lia.
Qed.

Lemma msgerror_eq e : 5 + zlen e <= 2147483647 ->
  ProtoGen.msgerror (VStr e) = lift_opt (Wire.msgerror e).
Proof.
  intros H. unfold ProtoGen.msgerror, Wire.msgerror. ops. rewrite force_bytes_str.
  cbn [bindR lift_opt]. apply msghdr_eq; lia.
Qed.

(* ---- readers ---- *)
Definition reads2 (o : option (bytes * bytes)) (mk : bytes -> val) (r : res val) : Prop :=
  match o with
  | Some (s, rest) => r = Ok (VTuple [VStr s; mk rest])
  | None => exists e, r = Raise e /\ (e = TypeError \/ e = UnicodeDecodeError)
  end.

Lemma to_nat_succ z : 0 <= z -> Z.to_nat (1 + z) = S (Z.to_nat z).
Proof. intros H. lia. Qed.

Lemma strunpack8_eq d : reads2 (Wire.strunpack8 d) VBytes (ProtoGen.strunpack8 (VBytes d)).
Proof.
  unfold ProtoGen.strunpack8, Wire.strunpack8, reads2.
  destruct d as [|l t].
  - eexists. split; [reflexivity|left; reflexivity].
  - pose proof (bz_range l) as R.
    cbn [py_slice idx_arg bindR]. rewrite slice_between by lia.
    change (firstn (Z.to_nat (1 - 0)) (skipn (Z.to_nat 0) (l :: t))) with [l].
    cbn [py_ord bindR py_add py_slice idx_arg].
    rewrite slice_between by lia. rewrite slice_from by lia.
    replace (1 + bz l - 1) with (bz l) by lia.
    change (Z.to_nat 1) with 1%nat. rewrite to_nat_succ by lia. cbn [skipn].
    rewrite force_str_bytes.
    destruct (utf8_valid (firstn (Z.to_nat (bz l)) t)) eqn:U; cbn [bindR].
    + reflexivity.
    + eexists. split; [reflexivity|right; reflexivity].
Qed.

Lemma readinfo_eq d : reads2 (Wire.readinfo d) VBytes (ProtoGen.readinfo (VBytes d)).
Proof.
  unfold ProtoGen.readinfo, Wire.readinfo. pose proof (strunpack8_eq d) as H. unfold reads2 in *.
  destruct (Wire.strunpack8 d) as [[s r]|].
  - rewrite H. reflexivity.
  - destruct H as (e & -> & He). eexists. split; [reflexivity|exact He].
Qed.
Lemma readauth_eq d : reads2 (Wire.readauth d) VBytes (ProtoGen.readauth (VBytes d)).
Proof. exact (readinfo_eq d). Qed.

Lemma readsubscribe_eq d : reads2 (Wire.readsubscribe d) VStr (ProtoGen.readsubscribe (VBytes d)).
Proof.
  unfold ProtoGen.readsubscribe, Wire.readsubscribe. pose proof (strunpack8_eq d) as H. unfold reads2 in *.
  destruct (Wire.strunpack8 d) as [[s r]|].
  - rewrite H. cbn [bindR py_untuple2]. rewrite force_str_str, force_str_bytes. cbn [bindR].
    destruct (utf8_valid r); cbn [bindR]; [reflexivity | eexists; split; [reflexivity|right; reflexivity]].
  - destruct H as (e & -> & He). eexists. split; [reflexivity|exact He].
Qed.
Lemma readunsubscribe_eq d : reads2 (Wire.readunsubscribe d) VStr (ProtoGen.readunsubscribe (VBytes d)).
Proof. exact (readsubscribe_eq d). Qed.

Lemma readpublish_eq d :
  match Wire.readpublish d with
  | Some (i, c, p) => ProtoGen.readpublish (VBytes d) = Ok (VTuple [VStr i; VStr c; VBytes p])
  | None => exists e, ProtoGen.readpublish (VBytes d) = Raise e /\ (e = TypeError \/ e = UnicodeDecodeError)
  end.
Proof.
  unfold ProtoGen.readpublish, Wire.readpublish. pose proof (strunpack8_eq d) as H. unfold reads2 in *.
  destruct (Wire.strunpack8 d) as [[s r]|].
  - rewrite H. cbn [bindR py_untuple2].
    pose proof (strunpack8_eq r) as H2. unfold reads2 in H2.
    destruct (Wire.strunpack8 r) as [[c p]|].
    + rewrite H2. reflexivity.
    + destruct H2 as (e & -> & He). eexists. split; [reflexivity|exact He].
  - destruct H as (e & -> & He). eexists. split; [reflexivity|exact He].
Qed.

Lemma readerror_eq d :
  ProtoGen.readerror (VBytes d) =
  match Wire.readerror d with Some s => Ok (VStr s) | None => Raise UnicodeDecodeError end.
Proof. unfold ProtoGen.readerror, Wire.readerror. rewrite force_str_bytes. destruct (utf8_valid d); reflexivity. Qed.

(* ---- Unpacker ---- *)
Definition StopIteration := Exc "StopIteration" 0.
Definition bad_exn (c : Z) : exn :=
  if c =? 1 then Exc "ProtocolException" 0
  else if c =? 2 then Exc "MessageTooBig" 1
  else Exc "ProtocolException" 2.

Definition ready_spec (buf : bytes) : res val * val :=
  (match Wire.next limitP buf with
   | NeedMore => Ok (VBool false)
   | Bad c => Raise (bad_exn c)
   | Ready _ _ _ => Ok (VBool true)
   end, VBArr buf).

Lemma ready_eq buf : Unpacker_ready (VBArr buf) = ready_spec buf.
Proof.
  destruct buf as [|b0 [|b1 [|b2 [|b3 [|o tl]]]]]; try reflexivity.
  unfold ready_spec, Wire.next.
  set (buf := b0 :: b1 :: b2 :: b3 :: o :: tl).
  assert (L : zlen buf = 5 + zlen tl) by (unfold buf; rewrite !zlen_cons; lia).
  pose proof (zlen_nonneg tl) as Ht. pose proof (bz_range o) as Ro.
  unfold Unpacker_ready, bindM, getbuf, liftM, retM, raiseM.
  cbn [py_len py_lt int_cmp as_int py_truth].
  replace (zlen buf <? 5) with false by lia.
  cbn [py_slice idx_arg bindR]. rewrite slice_between by lia.
  change (firstn (Z.to_nat (5 - 0)) (skipn (Z.to_nat 0) buf)) with [b0; b1; b2; b3; o].
  cbn [py_struct_unpack String.eqb Ascii.eqb Bool.eqb py_untuple2].
  destruct op_vals as (E0 & E1 & E2 & E3 & E4 & E5). rewrite E0, E5.
  cbn [py_lt py_gt int_cmp as_int py_truth].
  replace (bz o <? 0) with false by lia.
  rewrite Z.gtb_ltb.
  destruct (5 <? bz o) eqn:G5; [reflexivity|].
  rewrite sizes_get by lia.
  cbn [py_gt py_lt int_cmp as_int py_truth]. rewrite Z.gtb_ltb.
  destruct (limitP (bz o) <? de32 b0 b1 b2 b3) eqn:GL; [reflexivity|].
  destruct (de32 b0 b1 b2 b3 <? 5) eqn:G3; [reflexivity|].
  cbn [py_len py_lt int_cmp as_int py_truth].
  destruct (zlen buf <? de32 b0 b1 b2 b3) eqn:GN; reflexivity.
Qed.

Definition unpack_spec (buf : bytes) : res val * val :=
  match Wire.next limitP buf with
  | NeedMore => (Raise StopIteration, VBArr buf)
  | Bad c => (Raise (bad_exn c), VBArr buf)
  | Ready op body rest => (Ok (VTuple [VInt op; VBytes body]), VBArr rest)
  end.

Lemma pop_eq b0 b1 b2 b3 o tl :
  let buf := b0 :: b1 :: b2 :: b3 :: o :: tl in
  let ml := de32 b0 b1 b2 b3 in
  5 <= ml <= zlen buf ->
  Unpacker_pop (VBArr buf) =
  (Ok (VTuple [VInt (bz o); VBytes (firstn (Z.to_nat (ml - 5)) tl)]), VBArr (skipn (Z.to_nat (ml - 5)) tl)).
Proof.
  intros buf ml H.
  assert (L : zlen buf = 5 + zlen tl) by (unfold buf; rewrite !zlen_cons; lia).
  unfold Unpacker_pop, bindM, getbuf, liftM, retM, putbuf.
  cbn [py_slice idx_arg bindR]. rewrite slice_between by lia.
  change (firstn (Z.to_nat (5 - 0)) (skipn (Z.to_nat 0) buf)) with [b0; b1; b2; b3; o].
  cbn [py_struct_unpack String.eqb Ascii.eqb Bool.eqb py_untuple2].
  rewrite slice_from by lia. change (skipn (Z.to_nat 5) buf) with tl.
  cbn [py_sub py_slice idx_arg bindR]. fold ml.
  rewrite slice_to by lia. cbn [py_bytes py_delslice idx_arg bindR].
  unfold norm_idx. replace (ml <? 0) with false by lia.
  replace (Z.max 0 (Z.max 0 (Z.min ml (zlen buf)))) with ml by lia.
  change (firstn (Z.to_nat 0) buf) with (@nil byte). cbn [app].
  replace (Z.to_nat ml) with (5 + Z.to_nat (ml - 5))%nat by lia.
  reflexivity.
Qed.

Lemma unpack_eq buf : Unpacker_unpack (VBArr buf) = unpack_spec buf.
Proof.
  unfold Unpacker_unpack, bindM at 1 2 3. rewrite ready_eq. unfold ready_spec, unpack_spec.
  destruct buf as [|b0 [|b1 [|b2 [|b3 [|o tl]]]]]; try reflexivity.
  unfold Wire.next.
  set (buf := b0 :: b1 :: b2 :: b3 :: o :: tl).
  destruct (5 <? bz o) eqn:G5; [reflexivity|].
  destruct (limitP (bz o) <? de32 b0 b1 b2 b3) eqn:GL; [reflexivity|].
  destruct (de32 b0 b1 b2 b3 <? 5) eqn:G3; [reflexivity|].
  destruct (zlen buf <? de32 b0 b1 b2 b3) eqn:GN; [reflexivity|].
  unfold liftM, raiseM. cbn [py_not py_truth bindR negb].
  apply pop_eq. fold buf. lia.
Qed.

Lemma next_eq buf : Unpacker_next (VBArr buf) = unpack_spec buf.
Proof. exact (unpack_eq buf). Qed.

Lemma feed_eq chunk buf : Unpacker_feed (VBytes chunk) (VBArr buf) = (Ok VNone, VBArr (buf ++ chunk)).
Proof. reflexivity. Qed.
Lemma reset_eq s : Unpacker_reset s = (Ok VNone, VBArr []).
Proof. reflexivity. Qed.
Lemma init_eq s : Unpacker_init s = (Ok VNone, VBArr []).
Proof. reflexivity. Qed.

(* ---- "for op, data in unpacker" : call __next__ until it raises ---- *)
Definition is_stop (e : exn) : bool := match e with Exc c _ => String.eqb c "StopIteration" end.
Fixpoint src_drain (fuel : nat) (s : val) : list val * val * option exn :=
  match fuel with
  | O => ([], s, Some Unsupported)
  | S f =>
      match Unpacker_next s with
      | (Ok v, s') => let '(vs, s'', e) := src_drain f s' in (v :: vs, s'', e)
      | (Raise e, s') => ([], s', if is_stop e then None else Some e)
      end
  end.

Definition frame_val (f : Z * bytes) : val := VTuple [VInt (fst f); VBytes (snd f)].
Definition code_exn (c : Z) : exn := if c =? -1 then Unsupported else bad_exn c.
Definition abs_result (r : list (Z * bytes) * bytes * option Z) : list val * val * option exn :=
  let '(fs, buf, e) := r in (map frame_val fs, VBArr buf, option_map code_exn e).

Lemma src_drain_eq fuel buf : src_drain fuel (VBArr buf) = abs_result (drain limitP fuel buf).
Proof.
  revert buf; induction fuel as [|f IH]; intros buf; [reflexivity|].
  cbn [src_drain drain]. rewrite next_eq. unfold unpack_spec.
  destruct (Wire.next limitP buf) as [|c|op body rest] eqn:N.
  - reflexivity.
  - cbn [abs_result map option_map]. f_equal. f_equal.
    pose proof (next_bad_code limitP buf c N) as Hc.
    destruct Hc as [->|[->| ->]]; reflexivity.
  - rewrite IH. destruct (drain limitP f rest) as [[fs r] e]. reflexivity.
Qed.

Definition buf_len (s : val) : nat := match s with VBArr b | VBytes b => List.length b | _ => 0%nat end.
Definition src_state := (list val * val * option exn)%type.
(* one  unpacker.feed(chunk); for frame in unpacker: ...  *)
Definition src_ufeed (u : src_state) (chunk : bytes) : src_state :=
  let '(vs, s, _) := u in
  match Unpacker_feed (VBytes chunk) s with
  | (Ok _, s1) => let '(vs', s2, e) := src_drain (S (buf_len s1)) s1 in (vs ++ vs', s2, e)
  | (Raise e, s1) => (vs, s1, Some e)
  end.
Definition src_state0 : src_state := ([], snd (Unpacker_init VNone), None).
Definition src_feed_all (chunks : list bytes) : src_state := fold_left src_ufeed chunks src_state0.

Lemma src_ufeed_eq u chunk : src_ufeed (abs_result u) chunk = abs_result (ufeed limitP u chunk).
Proof.
  destruct u as [[fs buf] e]. cbn [abs_result src_ufeed ufeed]. rewrite feed_eq.
  unfold feed, parse. cbn [buf_len]. rewrite src_drain_eq.
  destruct (drain limitP (S (List.length (buf ++ chunk))) (buf ++ chunk)) as [[fs' r] e'].
  cbn [abs_result]. rewrite map_app. reflexivity.
Qed.

Theorem src_feed_all_eq chunks : src_feed_all chunks = abs_result (feed_all limitP chunks).
Proof.
  unfold src_feed_all, feed_all.
  change src_state0 with (abs_result ustate0).
  generalize ustate0. induction chunks as [|c cs IH]; intros u; [reflexivity|].
  cbn [fold_left]. rewrite src_ufeed_eq. apply IH.
Qed.
