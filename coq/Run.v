(* Run.v — helpers used by the generated case files: run-length encoded byte strings,
   fingerprints and decimal printing, and the runners for the wire model.  Executed by vm_compute. *)
From Coq Require Import ZArith NArith List Bool String Ascii DecimalString.
From Coq Require Import Strings.Byte.
From HP Require Import Bytes Utf8 Sha1 Wire Params ParamsOK.
Import ListNotations.
Open Scope Z_scope.

Inductive seg := Lit (l : bytes) | Rep (n : N) (b : byte).
Definition expand1 (s : seg) : bytes :=
  match s with Lit l => l | Rep n b => repeat b (N.to_nat n) end.
Definition expand (l : list seg) : bytes := List.concat (map expand1 l).

Definition show_N (n : N) : string := NilZero.string_of_uint (N.to_uint n).
Definition show_Z (z : Z) : string :=
  match z with Z0 => "0" | Zpos p => show_N (Npos p) | Zneg p => String "-" (show_N (Npos p)) end.
Definition show_nat (n : nat) : string := show_N (N.of_nat n).

(* Adler-32 with the reductions mod 65521 deferred to the end (same value, one division) *)
Fixpoint adler_go (l : bytes) (a b : N) : N * N :=
  match l with
  | [] => (a, b)
  | x :: t => let a' := (a + Byte.to_N x)%N in adler_go t a' (b + a')%N
  end.
Definition adler (l : bytes) : N :=
  let '(a, b) := adler_go l 1%N 0%N in ((b mod 65521) * 65536 + a mod 65521)%N.
(* fingerprint "<length>.<adler32>" of a byte string *)
Definition fp (l : bytes) : string :=
  (show_N (nlen l 0) ++ "." ++ show_N (adler l))%string.

Fixpoint join (sep : string) (l : list string) : string :=
  match l with [] => "" | [x] => x | x :: t => (x ++ sep ++ join sep t)%string end.

Definition show_frame (f : Z * bytes) : string := ("F" ++ show_Z (fst f) ++ ":" ++ fp (snd f))%string.
Definition show_err (e : option Z) : string :=
  match e with None => "E0" | Some c => if c =? (-1) then "E8" else "E1" end.

(* ---- the Unpacker fed chunk by chunk: per feed, frames yielded, error, bytes left buffered ---- *)
Fixpoint run_feeds (buf : bytes) (chunks : list bytes) : list string :=
  match chunks with
  | [] => []
  | ch :: t =>
      let '(fs, buf', e) := feed limitP buf ch in
      (join "," (map show_frame fs) ++ "|" ++ show_err e ++ "|B" ++ show_N (nlen buf' 0))%string
        :: run_feeds buf' t
  end.
Definition run_unpack (chunks : list (list seg)) : string := join ";" (run_feeds [] (map expand chunks)).

(* ---- builders and readers ------------------------------------------------------------------ *)
Definition show_opt_bytes (o : option bytes) : string := match o with Some b => fp b | None => "X" end.
Definition show_fields (l : option (list bytes)) : string :=
  match l with Some fs => join "/" (map fp fs) | None => "X" end.

Definition build (op : Z) (fields : list bytes) : option bytes :=
  match op, fields with
  | 0, [e] => msgerror e
  | 1, [n; r] => msginfo n r
  | 2, [r; i; s] => msgauth r i s
  | 3, [i; c; d] => msgpublish i c d
  | 4, [i; c] => msgsubscribe i c
  | 5, [i; c] => msgunsubscribe i c
  | _, _ => None
  end.
Definition read (op : Z) (body : bytes) : option (list bytes) :=
  match op with
  | 0 => match readerror body with Some e => Some [e] | None => None end
  | 1 => match readinfo body with Some (n, r) => Some [n; r] | None => None end
  | 2 => match readauth body with Some (i, d) => Some [i; d] | None => None end
  | 3 => match readpublish body with Some (i, c, d) => Some [i; c; d] | None => None end
  | 4 => match readsubscribe body with Some (i, c) => Some [i; c] | None => None end
  | 5 => match readunsubscribe body with Some (i, c) => Some [i; c] | None => None end
  | _ => None
  end.
(* build, then decode the built bytes and read the fields back *)
Definition run_build (op : Z) (fields : list (list seg)) : string :=
  let fr := build op (map expand fields) in
  match fr with
  | None => "X"
  | Some f =>
      let '(fs, r, e) := parse limitP f in
      (fp f ++ "|" ++ join "," (map show_frame fs) ++ "|" ++ show_err e ++ "|B" ++ show_N (nlen r 0) ++ "|" ++
       join "," (map (fun g => show_fields (read (fst g) (snd g))) fs))%string
  end.
(* a reader applied to an arbitrary body *)
Definition run_read (op : Z) (body : list seg) : string := show_fields (read op (expand body)).
Definition run_sha1 (m : list seg) : string := fp (sha1 (expand m)).
Definition run_utf8 (m : list seg) : string := if utf8_valid (expand m) then "1" else "0".
