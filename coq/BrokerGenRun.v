(* BrokerGenRun.v — the broker's event loop with the methods TRANSLATED from the Python source plugged in
   (BrokerGen.v), and the theorem that it is the model the property theorems are about: run_src = run.
   Hand-written here (as in Broker.v): the fuel that bounds process_pending's loop and nesting, the object before
   connection_made (PyBroker.p_new_conn), which queued completion a LookupDone event runs, when asyncio makes which callback
   (the transport contract), what it does with an exception that escapes one, EOF, one Tick = one second of each deadline.
   Uses functional extensionality through BrokerGenEq.v. *)
From Coq Require Import ZArith List Bool Arith Lia.
From Coq Require Import Strings.Byte.
From Coq Require Import FunctionalExtensionality.
From HP Require Import Bytes Utf8 Sha1 Wire WireFacts Params ParamsOK Broker PyBroker BrokerGen BrokerGenEq.
Import ListNotations.
Open Scope Z_scope.

Section SrcRun.
Variable bname : bytes.
Variable store : ident -> lookup.
Variable async_store : bool.

(* process_pending: the translated loop body; its "again" and its nested call are process_pending with less fuel *)
Fixpoint pp_src (fuel : nat) (q : nat) (s : state) : res :=
  match fuel with
  | O => Fuel s
  | S f => to_res (BaseProtocol_process_pending store async_store (pp_src f) q s)
  end.
Definition ppq_src (q : nat) (s : state) : res := pp_src (S (length (buf (conns s q)))) q s.

(* data_received: asyncio calls it only on a transport that is open and reading; an exception that escapes aborts the
   transport *)
Definition do_data_src (q : nat) (chunk : bytes) (s : state) : state :=
  let c := conns s q in
  if can_read c then
    match Connection_data_received ppq_src q chunk s with
    | BOk _ s2 => s2
    | BRaise s2 | BProto s2 => abort q s2
    | BFuel s2 => s2
    end
  else s.

Definition do_lost_src (q : nat) (s : state) : state :=
  let c := conns s q in
  if made c && negb (lost c) then
    let s1 := cl q s in
    let s2 := match Connection_connection_lost q s1 with BOk _ s' | BRaise s' | BFuel s' | BProto s' => s' end in
    modc q (set_lost true) s2
  else s.

Definition do_lookup_done_src (q : nat) (r : lres) (s : state) : state :=
  if negb (async_store && made (conns s q)) then s else
  match pending (conns s q) with
  | [] => s
  | (i, dg) :: _ =>
      match Connection_on_auth_result ppq_src q r i dg s with BOk _ s' | BRaise s' | BFuel s' | BProto s' => s' end
  end.

(* Connection(server) + connection_made *)
Definition do_connect_src (q : nat) (n : bytes) (s : state) : state :=
  if made (conns s q) then s else
  match Connection_connection_made bname q (p_new_conn q n s) with BOk _ s' | BRaise s' | BFuel s' | BProto s' => s' end.

(* asyncio calls pause_writing / resume_writing alternately (the wpaused flag is the transport's); one Tick = one second of
   every running deadline coroutine: the one whose sleep ends runs the rest of its body *)
Definition do_pausew_src (q : nat) (s : state) : state :=
  let c := conns s q in
  if made c && negb (lost c) && negb (wpaused c) then
    match Connection_pause_writing q (modc q (set_wpaused true) s) with BOk _ s' | BRaise s' | BFuel s' | BProto s' => s' end
  else s.
Definition do_resumew_src (q : nat) (s : state) : state :=
  let c := conns s q in
  if made c && negb (lost c) && wpaused c then
    match Connection_resume_writing q (modc q (set_wpaused false) s) with BOk _ s' | BRaise s' | BFuel s' | BProto s' => s' end
  else s.
Definition tick1_src (s : state) (q : nat) : state :=
  match timer (conns s q) with
  | None => s
  | Some n =>
      if (n <=? 1)%nat then
        match Connection_deadline_expired q (modc q (set_timer None) s) with BOk _ s' | BRaise s' | BFuel s' | BProto s' => s' end
      else modc q (set_timer (Some (n - 1)%nat)) s
  end.
Definition do_tick_src (s : state) : state := fold_left tick1_src (rev (ids s)) s.

Definition step_src (s : state) (e : event) : state :=
  match e with
  | Connect q n => do_connect_src q n s
  | Data q ch => do_data_src q ch s
  | PeerClosed q => do_peer_closed q s
  | Lost q => do_lost_src q s
  | LookupDone q r => do_lookup_done_src q r s
  | PauseW q => do_pausew_src q s
  | ResumeW q => do_resumew_src q s
  | Tick => do_tick_src s
  end.
Definition run_src (h : list event) : state := fold_left step_src h state0.

Lemma pp_src_eq : forall f, pp_src f = pp store async_store f.
Proof.
  induction f as [|f IH]; apply functional_extensionality; intro q; apply functional_extensionality; intro s; [reflexivity|].
  cbn [pp_src pp]. rewrite BaseProtocol_process_pending_eq. unfold pp_step. rewrite IH. reflexivity.
Qed.

Lemma ppq_src_eq : ppq_src = ppq store async_store.
Proof.
  apply functional_extensionality; intro q; apply functional_extensionality; intro s.
  unfold ppq_src, ppq. rewrite pp_src_eq. reflexivity.
Qed.

Lemma step_src_eq : forall s e, step_src s e = step bname store async_store s e.
Proof.
  intros s [q n|q ch|q|q|q r|q|q|]; cbn [step_src step]; try reflexivity.
  - unfold do_connect_src. destruct (made (conns s q)) eqn:Hm; [unfold do_connect; rewrite Hm; reflexivity|].
    rewrite Connection_connection_made_eq by exact Hm. reflexivity.
  - unfold do_data_src, do_data. destruct (can_read (conns s q)); [|reflexivity].
    pose proof (Connection_data_received_eq ppq_src q ch s) as E. rewrite ppq_src_eq in E. rewrite ppq_src_eq.
    destruct (Connection_data_received (ppq store async_store) q ch s) as [b s2|s2|s2|s2]; cbn [to_res] in E; rewrite <- E; reflexivity.
  - unfold do_lost_src, do_lost. destruct (made (conns s q) && negb (lost (conns s q))); [|reflexivity].
    cbv zeta. rewrite Connection_connection_lost_eq. destruct (copen (conns (cl q s) q)); reflexivity.
  - unfold do_lookup_done_src, do_lookup_done.
    destruct (negb (async_store && made (conns s q))); [reflexivity|].
    destruct (pending (conns s q)) as [|[i dg] rest] eqn:P; [reflexivity|].
    rewrite (Connection_on_auth_result_eq ppq_src q r i dg rest s P). cbv zeta. rewrite ppq_src_eq.
    destruct r as [l|]; [|reflexivity].
    destruct (authenticate (ppq store async_store q) q i dg l (modc q (set_pending rest) s)); reflexivity.
  - unfold do_pausew_src, do_pausew. destruct (made (conns s q) && negb (lost (conns s q)) && negb (wpaused (conns s q))); [|reflexivity].
    rewrite Connection_pause_writing_eq. unfold modc. apply state_ext; cbn; try reflexivity.
    intro x. rewrite upd_same. unfold upd. destruct (Nat.eqb x q); [|reflexivity]. rewrite Nat.eqb_refl. reflexivity.
  - unfold do_resumew_src, do_resumew. destruct (made (conns s q) && negb (lost (conns s q)) && wpaused (conns s q)); [|reflexivity].
    rewrite Connection_resume_writing_eq. unfold modc. apply state_ext; cbn; try reflexivity.
    intro x. rewrite upd_same. unfold upd. destruct (Nat.eqb x q); [|reflexivity]. rewrite Nat.eqb_refl. reflexivity.
Qed.   (* Tick: do_tick_src and do_tick are convertible (tick1_src_eq holds by computation) *)

Lemma tick1_src_eq : forall s q, tick1_src s q = tick1 s q.
Proof.
  intros s q. unfold tick1_src, tick1. destruct (timer (conns s q)) as [n|]; [|reflexivity].
  destruct (n <=? 1)%nat; [|reflexivity]. rewrite Connection_deadline_expired_eq. reflexivity.
Qed.

Theorem run_src_eq : forall h, run_src h = run bname store async_store h.
Proof.
  intro h. unfold run_src, run. generalize state0. induction h as [|e t IH]; intro s; [reflexivity|].
  cbn [fold_left]. rewrite step_src_eq. apply IH.
Qed.
End SrcRun.
