(* ClientRun.v — runners for the client-side models (C16, later C11-C13, C20). *)
From Coq Require Import ZArith NArith List Bool String.
From Coq Require Import Strings.Byte.
From HP Require Import Bytes Utf8 Sha1 Wire ParamsOK Run ClientProto.
Import ListNotations.

Definition show_cev (e : cev) : string :=
  match e with
  | HInfo n r => ("I" ++ fp n ++ "/" ++ fp r)%string
  | HError e => ("E" ++ fp e)%string
  | HPublish i c d => ("P" ++ fp i ++ "/" ++ fp c ++ "/" ++ fp d)%string
  | HAuth i d => ("A" ++ fp i ++ "/" ++ fp d)%string
  | HSubscribe i c => ("S" ++ fp i ++ "/" ++ fp c)%string
  | HUnsubscribe i c => ("U" ++ fp i ++ "/" ++ fp c)%string
  | Write b => ("W" ++ fp b)%string
  | ConnReady => "R"%string
  | ProtoError => "X"%string
  | Close => "C"%string
  | Raised => "!"%string
  end.
Definition hash_evs (evs : list cev) (buf : bytes) : N :=
  adler (list_byte_of_string (join ","%string (map show_cev evs) ++ "|" ++ show_nat (List.length buf))%string).

Fixpoint per_chunk (data : bytes -> bytes -> list cev * bytes) (buf : bytes) (chunks : list bytes) : list N :=
  match chunks with
  | [] => []
  | ch :: t => let '(evs, buf') := data buf ch in hash_evs evs buf' :: per_chunk data buf' t
  end.
(* the three classes on the same chunks: asyncio, then blocking, then Twisted, one fingerprint per chunk *)
Definition run_c16 (ident secret : bytes) (chunks : list (list seg)) : list N :=
  let cs := map expand chunks in
  (per_chunk (aio_data ident secret) [] cs ++ per_chunk (blk_data ident secret) [] cs ++
   per_chunk (tw_data ident secret) [] cs)%list.

(* ---- C20: the reactor's write path ---------------------------------------------------------------- *)
From HP Require Import Reactor.
Inductive crev := CPut (f : list seg) | CIterAccept (k : nat) | CIterBlock.
Definition rev_of (e : crev) : rev_ :=
  match e with CPut f => Put (expand f) | CIterAccept k => Iter (Accept k) | CIterBlock => Iter WouldBlock end.
Definition hash_r (s : rstate) : N :=
  adler (list_byte_of_string (fp (sent s) ++ "|" ++ show_nat (List.length (buffer s)) ++ "|" ++ show_nat (List.length (outbox s)))%string).
Fixpoint run_reactor_from (s : rstate) (es : list crev) : list N :=
  match es with [] => [] | e :: t => let s' := rstep s (rev_of e) in hash_r s' :: run_reactor_from s' t end.
Definition run_reactor (es : list crev) : list N := run_reactor_from rstate0 es.
(* the wake-up queue after a schedule of sub-steps of put()/get() (harness/qsched.py):
   [number of items; wake-up bytes in the socket pair; number handed out] ++ items (FIFO) ++ handed out (in order) *)
Definition run_queue (es : list qev) : list N :=
  let s := qrun es in
  (N.of_nat (List.length (items s)) :: N.of_nat (wake s) :: N.of_nat (List.length (got s)) ::
   map N.of_nat (items s) ++ map N.of_nat (got s))%list.

(* ---- asyncio ClientSession --------------------------------------------------------------------------- *)
From HP Require Import AioSession.
Definition adler_str (s : string) : N := adler (list_byte_of_string s).
Definition show_cframe (f : bytes) : string :=
  match f with
  | _ :: _ :: _ :: _ :: o :: body =>
      let op := bz o in
      if (op =? 2)%Z then match readauth body with Some (i, d) => ("A" ++ fp i ++ "/" ++ fp d)%string | None => "?"%string end
      else if (op =? 4)%Z then match readsubscribe body with Some (i, c) => ("S" ++ fp i ++ "/" ++ fp c)%string | None => "?"%string end
      else if (op =? 5)%Z then match readunsubscribe body with Some (i, c) => ("U" ++ fp i ++ "/" ++ fp c)%string | None => "?"%string end
      else if (op =? 3)%Z then match readpublish body with Some (i, c, d) => ("P" ++ fp i ++ "/" ++ fp c ++ "/" ++ fp d)%string | None => "?"%string end
      else ("F" ++ show_Z op ++ ":" ++ fp body)%string
  | _ => "?"%string
  end.
Definition is_subf (f : bytes) : bool := match f with _ :: _ :: _ :: _ :: o :: _ => (bz o =? 4)%Z | _ => false end.
(* frames oldest first; every maximal run of SUBSCRIBE frames is replaced by the sum of its members' fingerprints
   (a resubscription burst iterates a set: its order is immaterial) *)
Fixpoint canon_frames (l : list bytes) (run : option N) : list string :=
  match l with
  | [] => match run with Some n => [("{" ++ show_N n ++ "}")%string] | None => [] end
  | f :: t =>
      if is_subf f then
        canon_frames t (Some ((match run with Some n => n | None => 0%N end + adler_str (show_cframe f)) mod 4294967296)%N)
      else match run with
           | Some n => ("{" ++ show_N n ++ "}")%string :: show_cframe f :: canon_frames t None
           | None => show_cframe f :: canon_frames t None
           end
  end.
Definition show_msg (m : msg) : string := let '(i, c, d) := m in (fp i ++ "/" ++ fp c ++ "/" ++ fp d)%string.
Definition bit' (b : bool) : string := if b then "1"%string else "0"%string.
Definition rendered (ident secret : bytes) (l : list cfr) : list bytes :=
  flat_map (fun f => match render ident secret f with Some b => [b] | None => [] end) l.
Definition show_aconn (ident secret : bytes) (c : aconn) : string :=
  (join ","%string (canon_frames (rendered ident secret (rev (cout c))) None) ++ ":" ++ bit' (cclosing c))%string.
Definition show_asess (ident secret : bytes) (s : asess) : string :=
  (show_nat (attempts s) ++ "|" ++ bit' (pend s && match outcome s with None => true | _ => false end) ++ "|" ++
   match cur s with Some k => show_nat k | None => "-"%string end ++ "|" ++
   show_N (fold_left (fun a x => (a + adler x) mod 4294967296)%N (wanted s) 0%N) ++ "|" ++ bit' (closing s) ++ bit' (wc_done s) ++ "|" ++
   match cst s with CNone => "n" | CDone => "d" | _ => "p" end ++ "|" ++
   join ";"%string (map (show_aconn ident secret) (conns s)) ++ "|" ++
   "{" ++ show_N (fold_left (fun a m => (a + adler_str (show_msg m)) mod 4294967296)%N (delivered s) 0%N) ++ "}" ++
   join ","%string (map show_msg (queue s)) ++ "|" ++ show_nat (List.length (delivered s)) ++ "," ++ show_nat (waiting s)
   ++ "|" ++ show_nat (raised s))%string.
Inductive caev :=
| KIdle | KOk | KRefuse | KAdv (n : nat) | KData (k : nat) (ch : list seg) | KLost (k : nat)
| KSub (c : bytes) | KUnsub (c : bytes) | KPub (c : bytes) (d : list seg) | KRead | KClose.
Definition aev_of (e : caev) : aev :=
  match e with
  | KIdle => AIdle | KOk => AOk | KRefuse => ARefuse | KAdv n => AAdv n | KData k ch => AData k (expand ch) | KLost k => ALost k
  | KSub c => ASub c | KUnsub c => AUnsub c | KPub c d => APub c (expand d) | KRead => ARead | KClose => AClose
  end.
Fixpoint run_aio_from (ident secret : bytes) (s : asess) (es : list caev) : list N :=
  match es with [] => [] | e :: t => let s' := astep ident secret s (aev_of e) in adler_str (show_asess ident secret s') :: run_aio_from ident secret s' t end.
Definition run_aio (ident secret : bytes) (es : list caev) : list N := run_aio_from ident secret asess0 es.
Definition run_aio_full (ident secret : bytes) (es : list caev) : list string :=
  (fix go s es := match es with [] => [] | e :: t => let s' := astep ident secret s (aev_of e) in show_asess ident secret s' :: go s' t end) asess0 es.

(* ---- Twisted ClientSessionService glue ------------------------------------------------------------------ *)
From HP Require Import TwSession.
Definition tev_of (e : caev) : option tev :=
  match e with
  | KOk => Some TConn | KData k ch => Some (TData k (expand ch)) | KLost k => Some (TLost k)
  | KSub c => Some (TSub c) | KUnsub c => Some (TUnsub c) | KPub c d => Some (TPub c (expand d)) | KRead => Some TRead
  | _ => None
  end.
Fixpoint run_tw_from (ident secret : bytes) (s : asess) (es : list caev) : list N :=
  match es with
  | [] => []
  | e :: t => let s' := match tev_of e with Some te => tstep ident secret s te | None => s end in
              adler_str (show_asess ident secret s') :: run_tw_from ident secret s' t
  end.
Definition run_tw (ident secret : bytes) (es : list caev) : list N := run_tw_from ident secret asess0 es.

(* ---- legacy blocking Client ----------------------------------------------------------------------------- *)
From HP Require Import LegacyClient.
Definition show_lev (e : lev) : string :=
  match e with
  | LAttempt => "att"%string
  | LConnected k => ("conn" ++ show_nat k)%string
  | LInfo k r => ""%string
  | LSentAuth k r => ("A" ++ show_nat k ++ ":" ++ fp r)%string
  | LSentSub k c => ("S" ++ show_nat k ++ ":" ++ fp c)%string
  | LSendFailed k => ("sendfail" ++ show_nat k)%string
  | LMsg i c d => ("M" ++ fp i ++ "/" ++ fp c ++ "/" ++ fp d)%string
  | LErrMsg e => ("E" ++ fp e)%string
  | LSleep => "sleep"%string
  | LDisconnected k => ("disc" ++ show_nat k)%string
  | LReturn => "return"%string
  | LCrash => "crash"%string
  | LScriptEnd => "end"%string
  end.
Definition is_lsub (e : lev) : bool := match e with LSentSub _ _ => true | _ => false end.
Definition is_ghost (e : lev) : bool := match e with LInfo _ _ | LDisconnected _ => true | _ => false end.
Fixpoint canon_lev (l : list lev) (run : option N) : list N :=
  match l with
  | [] => match run with Some n => [n] | None => [] end
  | e :: t =>
      if is_ghost e then canon_lev t run
      else if is_lsub e then canon_lev t (Some ((match run with Some n => n | None => 7%N end + adler_str (show_lev e)) mod 4294967296)%N)
      else match run with
           | Some n => n :: adler_str (show_lev e) :: canon_lev t None
           | None => adler_str (show_lev e) :: canon_lev t None
           end
  end.
Inductive crres := CData (d : list seg) | CTimeout | CEof | CErr.
Definition rres_of (r : crres) : rres := match r with CData d => RData (expand d) | CTimeout => RTimeout | CEof => REof | CErr => RErr end.
Definition run_legacy (conn : list bool) (recv : list crres) (send : list bool) (subs : list bytes) (stop_after : option nat)
                      (fuel : nat) : list N :=
  canon_lev (rev (ltrace (lrun fuel (linit conn (map rres_of recv) send subs stop_after)))) None.

(* ---- per-property projections of the session observation (C11: what is written and what is wanted; C12: what is
   handed over; C13: connection attempts, close() and the phases) --------------------------------------------- *)
Definition show_aconn11 (ident secret : bytes) (c : aconn) : string :=
  join ","%string (canon_frames (rendered ident secret (rev (cout c))) None).
Definition show11 (ident secret : bytes) (s : asess) : string :=
  (match cur s with Some k => show_nat k | None => "-"%string end ++ "|" ++
   show_N (fold_left (fun a x => (a + adler x) mod 4294967296)%N (wanted s) 0%N) ++ "|" ++
   join ";"%string (map (show_aconn11 ident secret) (conns s)))%string.
Definition show12 (s : asess) : string :=
  ("{" ++ show_N (fold_left (fun a m => (a + adler_str (show_msg m)) mod 4294967296)%N (delivered s) 0%N) ++ "}" ++
   join ","%string (map show_msg (queue s)) ++ "|" ++ show_nat (List.length (delivered s)) ++ "," ++ show_nat (waiting s))%string.
Definition show13 (s : asess) : string :=
  (show_nat (attempts s) ++ "|" ++ bit' (pend s && match outcome s with None => true | _ => false end) ++ "|" ++
   bit' (closing s) ++ bit' (wc_done s) ++ "|" ++ match cst s with CNone => "n" | CDone => "d" | _ => "p" end ++ "|" ++
   join ""%string (map (fun c => bit' (cclosing c)) (conns s)) ++ "|" ++ show_nat (raised s))%string.
Definition obs3 (ident secret : bytes) (s : asess) : list N :=
  [adler_str (show11 ident secret s); adler_str (show12 s); adler_str (show13 s)].
Fixpoint run_aio3_from (ident secret : bytes) (s : asess) (es : list caev) : list N :=
  match es with [] => [] | e :: t => let s' := astep ident secret s (aev_of e) in obs3 ident secret s' ++ run_aio3_from ident secret s' t end.
Definition run_aio3 (ident secret : bytes) (es : list caev) : list N := run_aio3_from ident secret asess0 es.
Fixpoint run_tw3_from (ident secret : bytes) (s : asess) (es : list caev) : list N :=
  match es with
  | [] => []
  | e :: t => let s' := match tev_of e with Some te => tstep ident secret s te | None => s end in
              obs3 ident secret s' ++ run_tw3_from ident secret s' t
  end.
Definition run_tw3 (ident secret : bytes) (es : list caev) : list N := run_tw3_from ident secret asess0 es.

(* legacy Client: which = 11 keeps the handshake/subscription events and marks callbacks without their content;
   12 keeps connections and callbacks with content; 13 keeps attempts, sleeps, connections, callbacks marks and how run() ended *)
Definition proj_lev (which : nat) (e : lev) : option string :=
  let mark := match e with LMsg _ _ _ | LErrMsg _ => Some "cb"%string | _ => None end in
  match which with
  | 11%nat => match e with
          | LConnected _ | LSentAuth _ _ | LSentSub _ _ | LSendFailed _ => Some (show_lev e)
          | _ => mark end
  | 12%nat => match e with LConnected _ | LMsg _ _ _ | LErrMsg _ => Some (show_lev e) | _ => None end
  | _ => match e with
         | LAttempt | LConnected _ | LSleep | LReturn | LCrash | LScriptEnd => Some (show_lev e)
         | _ => mark end
  end.
Fixpoint canon_proj (which : nat) (l : list lev) (run : option N) : list N :=
  match l with
  | [] => match run with Some n => [n] | None => [] end
  | e :: t =>
      match proj_lev which e with
      | None => canon_proj which t run
      | Some str =>
          if is_lsub e then canon_proj which t (Some ((match run with Some n => n | None => 7%N end + adler_str str) mod 4294967296)%N)
          else match run with
               | Some n => n :: adler_str str :: canon_proj which t None
               | None => adler_str str :: canon_proj which t None
               end
      end
  end.
Definition run_legacy_proj (which : nat) (conn : list bool) (recv : list crres) (send : list bool) (subs : list bytes)
                           (stop_after : option nat) (fuel : nat) : list N :=
  canon_proj which (rev (ltrace (lrun fuel (linit conn (map rres_of recv) send subs stop_after)))) None.

(* ---- blocking thread session -------------------------------------------------------------------------------- *)
From HP Require Import BlkSession.
Definition show_bconn (c : bconn) : string := join ","%string (canon_frames (rev (b_out c)) None).
Definition show_b11 (s : bsess) : string :=
  let all := rev (b_past s) ++ match b_cur s with Some c => [c] | None => [] end in
  (match b_cur s with Some _ => show_nat (List.length (b_past s)) | None => "-"%string end ++ "|" ++
   show_N (fold_left (fun a x => (a + adler x) mod 4294967296)%N (b_wanted s) 0%N) ++ "|" ++
   join ";"%string (map show_bconn all) ++ "|" ++ show_nat (List.length (b_stale s)))%string.
Definition show_b12 (s : bsess) : string :=
  (join ","%string (map show_msg (b_got s)) ++ "|" ++ join ","%string (map show_msg (b_queue s)) ++ "|" ++ show_nat (b_raised s))%string.
Inductive cbev := QConn | QData (ch : list seg) | QLost | QSub (c : bytes) | QUnsub (c : bytes) | QPub (c : bytes) (d : list seg) | QRead.
Definition bev_of (e : cbev) : bev :=
  match e with
  | QConn => BConn | QData ch => BData (expand ch) | QLost => BLost | QSub c => BApp (FSub c) | QUnsub c => BApp (FUnsub c)
  | QPub c d => BApp (FPubl c (expand d)) | QRead => BRead
  end.
Fixpoint run_blk_from (ident secret : bytes) (s : bsess) (es : list cbev) : list N :=
  match es with
  | [] => []
  | e :: t => let s' := bstep ident secret s (bev_of e) in
              adler_str (show_b11 s') :: adler_str (show_b12 s') :: run_blk_from ident secret s' t
  end.
Definition run_blk (ident secret : bytes) (es : list cbev) : list N := run_blk_from ident secret bsess0 es.
Definition run_blk_full (ident secret : bytes) (es : list cbev) : list string :=
  (fix go s es := match es with [] => [] | e :: t => let s' := bstep ident secret s (bev_of e) in
                                                     (show_b11 s' ++ " # " ++ show_b12 s')%string :: go s' t end) bsess0 es.
