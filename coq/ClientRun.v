(* ClientRun.v — runners for the client-side models (C16, later C11-C13, C20). *)
From Coq Require Import ZArith NArith List Bool String.
From Coq Require Import Strings.Byte.
From HP Require Import Bytes Utf8 Sha1 Wire ParamsOK Run ClientProto.
Import ListNotations.

Definition show_cev (e : cev) : string :=
  match e with
  | HInfo n r => ("I" ++ fp n ++ "/" ++ fp r)%string
  | HError e => ("E" ++ fp e)%string
  | HPublish i c d => ("P" ++ fp i ++ "/" ++ fp c ++ "/" ++ fp d)%string
  | HAuth i d => ("A" ++ fp i ++ "/" ++ fp d)%string
  | HSubscribe i c => ("S" ++ fp i ++ "/" ++ fp c)%string
  | HUnsubscribe i c => ("U" ++ fp i ++ "/" ++ fp c)%string
  | Write b => ("W" ++ fp b)%string
  | ConnReady => "R"%string
  | ProtoError => "X"%string
  | Close => "C"%string
  | Raised => "!"%string
  end.
Definition hash_evs (evs : list cev) (buf : bytes) : N :=
  adler (list_byte_of_string (join ","%string (map show_cev evs) ++ "|" ++ show_nat (List.length buf))%string).

Fixpoint per_chunk (data : bytes -> bytes -> list cev * bytes) (buf : bytes) (chunks : list bytes) : list N :=
  match chunks with
  | [] => []
  | ch :: t => let '(evs, buf') := data buf ch in hash_evs evs buf' :: per_chunk data buf' t
  end.
(* the three classes on the same chunks: asyncio, then blocking, then Twisted, one fingerprint per chunk *)
Definition run_c16 (ident secret : bytes) (chunks : list (list seg)) : list N :=
  let cs := map expand chunks in
  (per_chunk (aio_data ident secret) [] cs ++ per_chunk (blk_data ident secret) [] cs ++
   per_chunk (tw_data ident secret) [] cs)%list.

(* ---- C20: the reactor's write path ---------------------------------------------------------------- *)
From HP Require Import Reactor.
Inductive crev := CPut (f : list seg) | CIterAccept (k : nat) | CIterBlock.
Definition rev_of (e : crev) : rev_ :=
  match e with CPut f => Put (expand f) | CIterAccept k => Iter (Accept k) | CIterBlock => Iter WouldBlock end.
Definition hash_r (s : rstate) : N :=
  adler (list_byte_of_string (fp (sent s) ++ "|" ++ show_nat (List.length (buffer s)) ++ "|" ++ show_nat (List.length (outbox s)))%string).
Fixpoint run_reactor_from (s : rstate) (es : list crev) : list N :=
  match es with [] => [] | e :: t => let s' := rstep s (rev_of e) in hash_r s' :: run_reactor_from s' t end.
Definition run_reactor (es : list crev) : list N := run_reactor_from rstate0 es.
