(* BrokerGenEq.v — the broker methods as translated from the Python source on every run (BrokerGen.v, written by
   harness/pytrans3.py) compute exactly what the hand-written model of Broker.v computes.

   The translated code performs its field updates one assignment at a time, in the source's order; the model performs
   them in one go.  The two states are equal as records whose `conns` / `subs` components are equal FUNCTIONS, which is
   extensional: this file (and only this file, with what restates it) uses the standard library's
   functional_extensionality_dep (Coq.Logic.FunctionalExtensionality).  It is named in the trusted base. *)
From Coq Require Import ZArith List Bool Arith Lia.
From Coq Require Import Strings.Byte.
From Coq Require Import FunctionalExtensionality.
From HP Require Import Bytes Utf8 Sha1 Wire WireFacts Params ParamsOK Broker PyBroker BrokerGen.
Import ListNotations.
Open Scope Z_scope.

Lemma state_ext : forall a b,
  (forall q, conns a q = conns b q) -> (forall c, subs a c = subs b c) ->
  ids a = ids b -> g_conn a = g_conn b -> g_made a = g_made b -> g_lost a = g_lost b ->
  g_subs a = g_subs b -> alog a = alog b -> a = b.
Proof.
  intros [c1 s1 i1 gc1 gm1 gl1 gs1 al1] [c2 s2 i2 gc2 gm2 gl2 gs2 al2]; cbn; intros Hc Hs -> -> -> -> -> ->.
  assert (c1 = c2) as -> by (apply functional_extensionality; exact Hc).
  assert (s1 = s2) as -> by (apply functional_extensionality; exact Hs).
  reflexivity.
Qed.

Lemma upd_same : forall {A} (f : nat -> A) k v x, upd (upd f k v) k x = upd f k x.
Proof. intros; apply functional_extensionality; intro y; unfold upd; destruct (Nat.eqb y k); reflexivity. Qed.
Lemma upd_eq : forall {A} (f : nat -> A) k v, upd f k v k = v.
Proof. intros; unfold upd; rewrite Nat.eqb_refl; reflexivity. Qed.

Ltac unf := unfold fn, ifB, seqB, bindB, pureB, retB, eff, fall, ret_none, ret_true, call_stmt, call_ret, with_server,
                   letB, chk, tryB, for_in, of_res.

#[local] Arguments p_set_ak : simpl never.
#[local] Arguments p_set_pubchans : simpl never.
#[local] Arguments p_set_subchans : simpl never.
#[local] Arguments p_active_add : simpl never.
#[local] Arguments p_active_remove : simpl never.
#[local] Arguments p_subs_append : simpl never.
#[local] Arguments p_subs_remove : simpl never.
#[local] Arguments p_gauge_subs : simpl never.
#[local] Arguments p_g_conn : simpl never.
#[local] Arguments p_g_made : simpl never.
#[local] Arguments p_g_lost : simpl never.
#[local] Arguments p_unregister : simpl never.
#[local] Arguments p_pub_write : simpl never.
#[local] Arguments p_error : simpl never.
#[local] Arguments cl : simpl never.
#[local] Arguments wr : simpl never.
#[local] Arguments logA : simpl never.
#[local] Arguments resume_r : simpl never.
#[local] Arguments sub_raw : simpl never.
#[local] Arguments unsub_raw : simpl never.
#[local] Arguments lostp : simpl never.

(* what the primitives leave alone *)
Lemma subs_active_remove : forall q c s x, subs (p_active_remove q c s) x = subs s x.
Proof. reflexivity. Qed.
Lemma conns_gauge : forall i c d s, conns (p_gauge_subs i c d s) = conns s.
Proof. reflexivity. Qed.
Lemma conns_subs_append : forall c q s, conns (p_subs_append c q s) = conns s.
Proof. reflexivity. Qed.
Lemma conns_subs_remove : forall c q s, conns (p_subs_remove c q s) = conns s.
Proof. reflexivity. Qed.
Lemma conns_active_remove_q : forall q c s, conns (p_active_remove q c s) q = set_active (rmc c (active (conns s q))) (conns s q).
Proof. intros; unfold p_active_remove, modc; cbn; apply upd_eq. Qed.

(* ---- Server.subscribe / unsubscribe ------------------------------------------------------------ *)
Lemma Server_subscribe_eq : forall q c s, Server_subscribe q c s = BOk false (sub_raw q c s).
Proof.
  intros q c s; unfold Server_subscribe, sub_raw; unf.
  destruct (memc c (active (conns s q))); [reflexivity|].
  cbn. unfold retB; f_equal.
Qed.

Lemma rmn_notin : forall q l, memn q l = false -> rmn q l = l.
Proof.
  induction l as [|y t IH]; cbn; intro H; [reflexivity|].
  rewrite (Nat.eqb_sym y q); destruct (Nat.eqb q y) eqn:E; cbn in H; [discriminate|].
  rewrite IH; auto.
Qed.

Lemma Server_unsubscribe_eq : forall q c s, Server_unsubscribe q c s = BOk false (unsub_raw q c s).
Proof.
  intros q c s; unfold Server_unsubscribe, unsub_raw; unf.
  destruct (memc c (active (conns s q))) eqn:E; cbn; [|reflexivity].
  rewrite E, subs_active_remove.
  destruct (memn q (subs s c)) eqn:M; cbn.
  - rewrite subs_active_remove, M. cbn. rewrite conns_subs_remove, conns_active_remove_q.
    f_equal.
  - rewrite conns_active_remove_q. f_equal. apply state_ext; cbn; try reflexivity.
    intro x; unfold updc; destruct (bytes_eqb x c) eqn:X; [|reflexivity].
    rewrite rmn_notin; [|exact M].
    apply bytes_eqb_eq in X; subst; reflexivity.
Qed.

(* ---- Connection.is_closing / connection_lost ---------------------------------------------------- *)
Lemma Connection_is_closing_eq : forall q s, Connection_is_closing q s = BOk (closing (conns s q)) s.
Proof. intros q s; unfold Connection_is_closing; unf. destruct (closing (conns s q)); reflexivity. Qed.

Lemma unsub_raw_copen : forall q c s x, copen (conns (unsub_raw q c s) x) = copen (conns s x).
Proof.
  intros q c s x; unfold unsub_raw. destruct (memc c (active (conns s q))); [|reflexivity].
  cbn. unfold upd. destruct (Nat.eqb x q) eqn:E; [|reflexivity].
  apply Nat.eqb_eq in E; subst; reflexivity.
Qed.

Lemma lost_loop : forall q l s, copen (conns s q) = true ->
  forB l (fun chan => seqB (with_server q (call_stmt (Server_unsubscribe q chan))) fall) s
  = BOk None (fold_left (fun s c => unsub_raw q c s) l s).
Proof.
  intros q l; induction l as [|c t IH]; intros s H; [reflexivity|].
  cbn [forB fold_left]. unfold seqB at 1, bindB at 1. unfold seqB at 1, bindB at 1, with_server, call_stmt, bindB at 1.
  rewrite H, Server_unsubscribe_eq. unfold fall at 1, retB at 1.
  apply IH. rewrite unsub_raw_copen; exact H.
Qed.

Lemma unsub_raw_g_conn : forall q c d s, unsub_raw q c (p_g_conn d s) = p_g_conn d (unsub_raw q c s).
Proof. intros; unfold unsub_raw, p_g_conn; cbn. destruct (memc c (active (conns s q))); reflexivity. Qed.
Lemma unsub_raw_g_lost : forall q c d s, unsub_raw q c (p_g_lost d s) = p_g_lost d (unsub_raw q c s).
Proof. intros; unfold unsub_raw, p_g_lost; cbn. destruct (memc c (active (conns s q))); reflexivity. Qed.
Lemma fold_unsub_gauges : forall q l s,
  fold_left (fun s c => unsub_raw q c s) l (p_g_lost 1 (p_g_conn (-1) s))
  = p_g_lost 1 (p_g_conn (-1) (fold_left (fun s c => unsub_raw q c s) l s)).
Proof.
  intros q l; induction l as [|c t IH]; intro s; [reflexivity|].
  cbn [fold_left]. rewrite unsub_raw_g_lost, unsub_raw_g_conn. apply IH.
Qed.
Lemma fold_unsub_copen : forall q l s x,
  copen (conns (fold_left (fun s c => unsub_raw q c s) l s) x) = copen (conns s x).
Proof.
  intros q l; induction l as [|c t IH]; intros s x; [reflexivity|].
  cbn [fold_left]. rewrite IH. apply unsub_raw_copen.
Qed.

Lemma Connection_connection_lost_eq : forall q s,
  Connection_connection_lost q s = if copen (conns s q) then BOk false (lostp q s) else BRaise s.
Proof.
  intros q s; unfold Connection_connection_lost.
  unfold fn, ifB, bindB at 1 2, with_server at 1, pureB.
  destruct (copen (conns s q)) eqn:H; [|reflexivity].
  cbn [negb].
  unfold seqB at 1, bindB at 1, eff at 1. unfold seqB at 1, bindB at 1, eff at 1.
  unfold seqB at 1, bindB at 1, for_in.
  change (active (conns (p_g_lost 1 (p_g_conn (-1) s)) q)) with (active (conns s q)).
  rewrite lost_loop by exact H.
  rewrite fold_unsub_gauges.
  set (s1 := fold_left (fun s c => unsub_raw q c s) (active (conns s q)) s).
  assert (H1 : copen (conns s1 q) = true) by (unfold s1; rewrite fold_unsub_copen; exact H).
  unfold seqB, bindB, with_server, eff, fall, retB.
  change (copen (conns (p_g_lost 1 (p_g_conn (-1) s1)) q)) with (copen (conns s1 q)). rewrite H1.
  f_equal. unfold lostp. fold s1.
  unfold p_unregister, p_g_lost, p_g_conn, logA, modc. apply state_ext; cbn; try reflexivity; try lia.
  intro x. rewrite upd_same. unfold upd. destruct (Nat.eqb x q) eqn:E; [|reflexivity].
  rewrite Nat.eqb_refl. reflexivity.
Qed.

(* ---- Server.publish ------------------------------------------------------------------------------ *)
Definition of_r (r : res) : bres ctl :=
  match r with Ok s' => BOk None s' | Raise s' => BRaise s' | Fuel s' => BFuel s' end.

Lemma unsub_raw_ak : forall q c s x, ak (conns (unsub_raw q c s) x) = ak (conns s x).
Proof.
  intros q c s x; unfold unsub_raw. destruct (memc c (active (conns s q))); [|reflexivity].
  cbn. unfold upd. destruct (Nat.eqb x q) eqn:E; [|reflexivity].
  apply Nat.eqb_eq in E; subst; reflexivity.
Qed.
Lemma fold_unsub_ak : forall q l s x,
  ak (conns (fold_left (fun s c => unsub_raw q c s) l s) x) = ak (conns s x).
Proof.
  intros q l; induction l as [|c t IH]; intros s x; [reflexivity|].
  cbn [fold_left]. rewrite IH. apply unsub_raw_ak.
Qed.
Lemma lostp_ak : forall q s x, ak (conns (lostp q s) x) = ak (conns s x).
Proof.
  intros q s x; unfold lostp, logA, modc; cbn. unfold upd.
  destruct (Nat.eqb x q) eqn:E.
  - apply Nat.eqb_eq in E; subst. cbn. apply fold_unsub_ak.
  - apply fold_unsub_ak.
Qed.
Lemma wr_ak : forall q f s x, ak (conns (wr q f s) x) = ak (conns s x).
Proof.
  intros q f s x; unfold wr. destruct (lost (conns s q) || aborted (conns s q)); [reflexivity|].
  unfold modc; cbn. unfold upd. destruct (Nat.eqb x q) eqn:E; [|reflexivity].
  apply Nat.eqb_eq in E; subst; reflexivity.
Qed.

Lemma fold_deliver_stuck : forall i c d l r, (forall s, r <> Ok s) -> fold_left (deliver i c d) l r = r.
Proof.
  intros i c d l; induction l as [|x t IH]; intros r H; [reflexivity|].
  cbn [fold_left]. destruct r as [s|s|s]; [exfalso; apply (H s); reflexivity| |]; cbn; apply IH; intros s0; discriminate.
Qed.

Lemma publish_loop : forall p c d i l s, akl (conns s p) = i ->
  forB l (fun dest =>
    ifB (Connection_is_closing dest)
      (seqB (call_stmt (Connection_connection_lost dest)) fall)
      (seqB (tryB (seqB (eff (fun s => p_pub_write dest (akl (conns s p)) c d s)) fall)
                  (seqB (eff (fun s => cl dest s)) fall)) fall)) s
  = of_r (fold_left (deliver i c d) l (Ok s)).
Proof.
  intros p c d i l; induction l as [|x t IH]; intros s H; [reflexivity|].
  cbn [forB fold_left]. unfold seqB at 1, bindB at 1. unfold ifB, bindB at 1.
  rewrite Connection_is_closing_eq. unfold deliver at 2.
  destruct (closing (conns s x)) eqn:C.
  - unfold seqB at 1, bindB at 1, call_stmt, bindB at 1. rewrite Connection_connection_lost_eq.
    destruct (copen (conns s x)) eqn:O.
    + unfold fall at 1 2, retB at 1 2. apply IH. unfold akl in *. rewrite lostp_ak. exact H.
    + rewrite fold_deliver_stuck; [reflexivity|intros s0; discriminate].
  - unfold seqB at 1, bindB at 1, tryB, seqB at 1, bindB at 1, eff at 1, fall at 1 2, retB at 1 2.
    rewrite H. unfold p_pub_write. apply IH. unfold akl in *. rewrite wr_ak. exact H.
Qed.

Lemma Server_publish_eq : forall p c d s,
  Server_publish p c d s = match publish p c d s with Ok s' => BOk false s' | Raise s' => BRaise s' | Fuel s' => BFuel s' end.
Proof.
  intros p c d s; unfold Server_publish, publish.
  unfold fn, seqB at 1, bindB at 1 2, eff at 1. unfold seqB at 1, bindB at 1, for_in.
  change (subs (logA (APub p (akl (conns s p)) c d) s) c) with (subs s c).
  rewrite (publish_loop p c d (akl (conns s p))) by reflexivity.
  destruct (fold_left (deliver (akl (conns s p)) c d) (nodup Nat.eq_dec (subs s c)) (Ok (logA (APub p (akl (conns s p)) c d) s)));
    reflexivity.
Qed.

(* ---- Connection.on_publish / on_subscribe / on_unsubscribe --------------------------------------- *)
Definition emb (r : res) : bres bool :=
  match r with Ok s' => BOk false s' | Raise s' => BRaise s' | Fuel s' => BFuel s' end.

Lemma Connection_on_publish_eq : forall q i c d s, Connection_on_publish q i c d s = emb (on_publish q i c d s).
Proof.
  intros q i c d s; unfold Connection_on_publish, on_publish; unf. unfold opt_is, bad, p_error.
  destruct (ak (conns s q)) as [me|]; cbn; [|reflexivity].
  destruct (bytes_eqb i me); cbn; [|reflexivity].
  destruct (memc c (pubchans (conns s q))); cbn; [|reflexivity].
  destruct (copen (conns s q)); cbn; [|reflexivity].
  unfold bindB, fall, retB. rewrite Server_publish_eq. destruct (publish q c d s); reflexivity.
Qed.

Lemma Connection_on_subscribe_eq : forall q i c s, Connection_on_subscribe q i c s = emb (on_subscribe q c s).
Proof.
  intros q i c s; unfold Connection_on_subscribe, on_subscribe; unf. unfold bad, p_error, sub.
  destruct (memc c (subchans (conns s q))); cbn; [|reflexivity].
  destruct (copen (conns s q)); cbn; [|reflexivity].
  unfold bindB, fall, retB. rewrite Server_subscribe_eq. reflexivity.
Qed.

Lemma Connection_on_unsubscribe_eq : forall q i c s, Connection_on_unsubscribe q i c s = emb (on_unsubscribe q c s).
Proof.
  intros q i c s; unfold Connection_on_unsubscribe, on_unsubscribe; unf. unfold unsub.
  destruct (copen (conns s q)); cbn; [|reflexivity].
  unfold bindB, fall, retB. rewrite Server_unsubscribe_eq. reflexivity.
Qed.

(* ---- Connection.authenticate ---------------------------------------------------------------------- *)
Lemma bytes_eqb_sym : forall a b, bytes_eqb a b = bytes_eqb b a.
Proof.
  intros a b. destruct (bytes_eqb a b) eqn:E.
  - apply bytes_eqb_eq in E; subst. symmetry; apply bytes_eqb_refl.
  - destruct (bytes_eqb b a) eqn:F; [|reflexivity]. apply bytes_eqb_eq in F; subst.
    rewrite bytes_eqb_refl in E; discriminate.
Qed.

Lemma regauge_loop : forall q i old l s, ak (conns s q) = Some old ->
  forB l (fun chan => seqB (eff (fun s => p_gauge_subs (akl (conns s q)) chan (-1) s))
                     (seqB (eff (fun s => p_gauge_subs i chan 1 s)) fall)) s
  = BOk None (set_g_subs (fold_left (fun g c => gadd (i, c) 1 (gadd (old, c) (-1) g)) l (g_subs s)) s).
Proof.
  intros q i old l; induction l as [|c t IH]; intros s H.
  - cbn. unfold fall, retB. f_equal. apply state_ext; reflexivity.
  - cbn [forB fold_left]. unfold seqB at 1, bindB at 1. unfold seqB at 1 2, bindB at 1 2, eff at 1 2, fall at 1, retB at 1.
    rewrite IH by exact H. unfold akl. rewrite H. reflexivity.
Qed.

Lemma auth_state_eq : forall q i r s,
  p_set_subchans q (r_sub r) (p_set_pubchans q (r_pub r) (p_set_ak q i s))
  = modc q (fun c => set_subchans (r_sub r) (set_pubchans (r_pub r) (set_ak (Some i) c))) s.
Proof.
  intros q i r s; unfold p_set_subchans, p_set_pubchans, p_set_ak, modc. apply state_ext; cbn; try reflexivity.
  intro x. rewrite !upd_same. unfold upd. destruct (Nat.eqb x q) eqn:E; [|reflexivity].
  rewrite !Nat.eqb_refl. reflexivity.
Qed.

Lemma Connection_authenticate_eq : forall (pp : nat -> state -> res) q i dg l s,
  Connection_authenticate pp q i dg l s = emb (authenticate (pp q) q i dg l s).
Proof.
  intros pp q i dg l s; unfold Connection_authenticate, authenticate.
  unfold fn, bindB at 1. destruct l as [|r].
  - unf. unfold bad, p_error. reflexivity.
  - unfold letB, py_hashsecret. unfold ifB at 1, bindB at 1, pureB at 1.
    destruct (bytes_eqb (sha1 (nonce (conns s q) ++ r_secret r)) dg); cbn [negb].
    2:{ unf. reflexivity. }
    unfold seqB at 1, bindB at 1.
    assert (R : ifB (pureB (fun s0 => negb (opt_none (ak (conns s0 q))) && negb (opt_is i (ak (conns s0 q)))))
                 (seqB (for_in (fun s0 => active (conns s0 q))
                    (fun chan => seqB (eff (fun s0 => p_gauge_subs (akl (conns s0 q)) chan (-1) s0))
                                 (seqB (eff (fun s0 => p_gauge_subs i chan 1 s0)) fall))) fall) fall s
               = BOk None (regauge q i s)).
    { unfold ifB, bindB, pureB, regauge, regauge_g, opt_none, opt_is.
      destruct (ak (conns s q)) as [old|] eqn:A; cbn.
      - rewrite (bytes_eqb_sym old i). destruct (bytes_eqb i old); cbn.
        + unfold fall, retB. f_equal. apply state_ext; reflexivity.
        + unfold seqB, bindB, for_in. rewrite (regauge_loop q i old) by exact A. reflexivity.
      - unfold fall, retB. f_equal. apply state_ext; reflexivity. }
    rewrite R.
    unfold seqB at 1, bindB at 1, eff at 1. unfold seqB at 1, bindB at 1, eff at 1. unfold seqB at 1, bindB at 1, eff at 1.
    unfold seqB at 1, bindB at 1, eff at 1. rewrite auth_state_eq.
    unfold seqB at 1, bindB at 1, of_res.
    cbv zeta.
    match goal with |- context [pp q ?X] => destruct (pp q X) as [s2|s2|s2] end; [|reflexivity|reflexivity].
    unf. unfold no_lookups. destruct (pending (conns s2 q)); reflexivity.
Qed.

(* ---- Connection.on_auth / on_auth_result ------------------------------------------------------------ *)
Lemma to_resb_emb : forall r, to_resb (emb r) = (r, false).
Proof. intros [s|s|s]; reflexivity. Qed.

Lemma Connection_on_auth_eq : forall store async_store (pp : nat -> state -> res) q i dg s,
  to_resb (Connection_on_auth store async_store pp q i dg s) = on_auth store async_store (pp q) q i dg s.
Proof.
  intros store async_store pp q i dg s; unfold Connection_on_auth, on_auth.
  unfold fn, bindB at 1, with_server.
  destruct (copen (conns s q)); cbn [negb]; [|reflexivity].
  unfold ifB, bindB at 1, pureB. destruct async_store.
  - unf. unfold p_enqueue. reflexivity.
  - unfold seqB, bindB, call_stmt, bindB, fall, retB. rewrite Connection_authenticate_eq.
    destruct (authenticate (pp q) q i dg (store i) s); reflexivity.
Qed.

Lemma pop_eq : forall q s x rest, pending (conns s q) = x :: rest -> p_pop_pending q s = modc q (set_pending rest) s.
Proof.
  intros q s x rest H. unfold p_pop_pending, modc. apply state_ext; cbn; try reflexivity.
  intro y. unfold upd. destruct (Nat.eqb y q); [|reflexivity]. rewrite H. reflexivity.
Qed.

(* the completion of the lookup registered first, for the (ident, digest) it was registered with *)
Lemma Connection_on_auth_result_eq : forall (pp : nat -> state -> res) q r i dg rest s,
  pending (conns s q) = (i, dg) :: rest ->
  Connection_on_auth_result pp q r i dg s =
  let s1 := modc q (set_pending rest) s in
  match r with
  | RRaise => BOk false (bad q s1)
  | RLook l => match authenticate (pp q) q i dg l s1 with
               | Ok s2 => BOk false s2 | Raise s2 => BOk false (cl q s2) | Fuel s2 => BFuel s2 end
  end.
Proof.
  intros pp q r i dg rest s H. unfold Connection_on_auth_result.
  unfold fn, bindB at 1, seqB at 1, bindB at 1, eff at 1. rewrite (pop_eq q s (i, dg) rest H). cbv zeta.
  destruct r as [l|].
  - unfold seqB, bindB, tryB, call_stmt, bindB, fall, retB, eff. rewrite Connection_authenticate_eq.
    destruct (authenticate (pp q) q i dg l (modc q (set_pending rest) s)); reflexivity.
  - unf. reflexivity.
Qed.

(* ---- BaseProtocol.message_received (dispatch) and Connection.message_received ------------------------ *)
Section Frame.
Variable store : ident -> lookup.
Variable async_store : bool.

(* the model's dispatch for a connection that has an identity, or an OP_AUTH *)
Definition dispatch (k : state -> res) (q : nat) (op : Z) (body : bytes) (s : state) : res * bool :=
  if op =? 2 then
    match readauth body with Some (i, dg) => on_auth store async_store k q i dg s | None => (Raise s, false) end
  else if op =? 3 then
    match readpublish body with Some (i, c, d) => (on_publish q i c d s, false) | None => (Raise s, false) end
  else if op =? 4 then
    match readsubscribe body with Some (_, c) => (on_subscribe q c s, false) | None => (Raise s, false) end
  else if op =? 5 then
    match readunsubscribe body with Some (_, c) => (on_unsubscribe q c s, false) | None => (Raise s, false) end
  else (Raise s, false).

Lemma fn_call_ret : forall (m : BM bool) s, fn (call_ret m) s = m s.
Proof. intros m s; unfold fn, call_ret, bindB, retB. destruct (m s); reflexivity. Qed.

Lemma BaseProtocol_message_received_eq : forall pp q op body s, 0 <= op <= 5 ->
  to_resb (BaseProtocol_message_received store async_store pp q op body s) = dispatch (pp q) q op body s.
Proof.
  intros pp q op body s Hop. unfold BaseProtocol_message_received, dispatch.
  change op_error with 0. change op_info with 1. change op_auth with 2. change op_publish with 3.
  change op_subscribe with 4. change op_unsubscribe with 5.
  unfold fn at 1, bindB at 1, ifB at 1, bindB at 1, pureB at 1.
  destruct (Z.eqb_spec op 0) as [->|N0]; [reflexivity|].
  unfold ifB at 1, bindB at 1, pureB at 1.
  destruct (Z.eqb_spec op 1) as [->|N1]; [reflexivity|].
  unfold ifB at 1, bindB at 1, pureB at 1.
  destruct (Z.eqb_spec op 2) as [->|N2].
  { destruct (readauth body) as [[i dg]|]; [|reflexivity].
    rewrite <- Connection_on_auth_eq. unfold call_ret, bindB, retB.
    destruct (Connection_on_auth store async_store pp q i dg s); reflexivity. }
  unfold ifB at 1, bindB at 1, pureB at 1.
  destruct (Z.eqb_spec op 3) as [->|N3].
  { destruct (readpublish body) as [[[i c] d]|]; [|reflexivity].
    unfold call_ret, bindB, retB. rewrite Connection_on_publish_eq. destruct (on_publish q i c d s); reflexivity. }
  unfold ifB at 1, bindB at 1, pureB at 1.
  destruct (Z.eqb_spec op 4) as [->|N4].
  { destruct (readsubscribe body) as [[i c]|]; [|reflexivity].
    unfold call_ret, bindB, retB. rewrite Connection_on_subscribe_eq. destruct (on_subscribe q c s); reflexivity. }
  unfold ifB at 1, bindB at 1, pureB at 1.
  destruct (Z.eqb_spec op 5) as [->|N5].
  { destruct (readunsubscribe body) as [[i c]|]; [|reflexivity].
    unfold call_ret, bindB, retB. rewrite Connection_on_unsubscribe_eq. destruct (on_unsubscribe q c s); reflexivity. }
  lia.
Qed.

Lemma Connection_message_received_eq : forall pp q op body s,
  Connection_message_received store async_store pp q op body s
  = if opt_none (ak (conns s q)) && negb (op =? op_auth) then BOk false (bad q s)
    else BaseProtocol_message_received store async_store pp q op body s.
Proof.
  intros pp q op body s; unfold Connection_message_received, fn, ifB, bindB, pureB.
  destruct (opt_none (ak (conns s q)) && negb (op =? op_auth)).
  - unf. unfold bad, p_error. reflexivity.
  - unfold call_ret, bindB, retB. destruct (BaseProtocol_message_received store async_store pp q op body s); reflexivity.
Qed.

(* one frame of a well-formed opcode (the Unpacker yields no other): Connection.message_received is the model's handle *)
Theorem handle_src_eq : forall pp q op body s, 0 <= op <= 5 ->
  to_resb (Connection_message_received store async_store pp q op body s) = handle store async_store (pp q) q op body s.
Proof.
  intros pp q op body s Hop. rewrite Connection_message_received_eq. unfold handle.
  change op_auth with 2.
  destruct (op =? 2) eqn:E2.
  - rewrite andb_false_r. rewrite BaseProtocol_message_received_eq by exact Hop. unfold dispatch. rewrite E2. reflexivity.
  - rewrite andb_true_r. destruct (ak (conns s q)) as [me|]; cbn [opt_none]; [|reflexivity].
    rewrite BaseProtocol_message_received_eq by exact Hop. unfold dispatch. rewrite E2. reflexivity.
Qed.
End Frame.

(* ---- Connection.connection_made ------------------------------------------------------------------------ *)
Lemma Connection_connection_made_eq : forall bname q n s, made (conns s q) = false ->
  Connection_connection_made bname q (p_new_conn q n s) = BOk false (do_connect bname q n s).
Proof.
  intros bname q n s H. unfold Connection_connection_made, do_connect. rewrite H.
  unf. unfold p_new_conn, p_register, p_g_made, p_g_conn, logA, modc. cbn [conns set_ids set_conns set_alog set_g_conn set_g_made].
  rewrite !upd_eq. cbn [copen set_copen set_nonce set_made conn0 nonce].
  unfold wr, modc. cbn [conns set_ids set_conns set_alog set_g_conn set_g_made]. rewrite !upd_eq. cbn.
  f_equal. apply state_ext; cbn; try reflexivity.
  intro x. rewrite !upd_same. reflexivity.
Qed.

(* ---- Connection.pause_writing / resume_writing and the deadline coroutine ------------------------------ *)
Lemma deadline_seconds_is_grace : Connection_deadline_seconds = grace.
Proof. reflexivity. Qed.

Lemma Connection_pause_writing_eq : forall q s,
  Connection_pause_writing q s = BOk false (modc q (set_timer (Some grace)) s).
Proof. intros q s. unfold Connection_pause_writing; unf. unfold p_start_timer. rewrite deadline_seconds_is_grace. reflexivity. Qed.

Lemma set_timer_none_id : forall c, timer c = None -> set_timer None c = c.
Proof. intros [] H; cbn in H; subst; reflexivity. Qed.

Lemma Connection_resume_writing_eq : forall q s,
  Connection_resume_writing q s = BOk false (modc q (set_timer None) s).
Proof.
  intros q s. unfold Connection_resume_writing; unf. unfold timer_running, p_cancel_timer.
  destruct (timer (conns s q)) eqn:T; [reflexivity|].
  unfold retB. cbn. f_equal. unfold modc. apply state_ext; cbn; try reflexivity.
  intro x. unfold upd. destruct (Nat.eqb x q) eqn:E; [|reflexivity].
  apply Nat.eqb_eq in E; subst. symmetry; apply set_timer_none_id; exact T.
Qed.

Lemma Connection_deadline_expired_eq : forall q s, Connection_deadline_expired q s = BOk false (bad q s).
Proof. intros q s. unfold Connection_deadline_expired; unf. reflexivity. Qed.

(* ---- no translated handler lets a ProtocolException escape (only the Unpacker raises one, inside process_pending) --- *)
Definition np {A} (r : bres A) : Prop := match r with BProto _ => False | _ => True end.
Lemma np_emb : forall r, np (emb r).
Proof. intros [s|s|s]; exact I. Qed.

Lemma on_auth_np : forall store async_store pp q i dg s, np (Connection_on_auth store async_store pp q i dg s).
Proof.
  intros store async_store pp q i dg s. unfold Connection_on_auth, fn, bindB at 1, with_server.
  destruct (copen (conns s q)); [|exact I].
  unfold ifB, bindB at 1, pureB. destruct async_store.
  - unf. exact I.
  - unfold seqB, bindB, call_stmt, bindB, fall, retB. rewrite Connection_authenticate_eq.
    destruct (authenticate (pp q) q i dg (store i) s); exact I.
Qed.

Lemma call_ret_np : forall (m : BM bool) s, np (m s) -> np (call_ret m s).
Proof. intros m s H. unfold call_ret, bindB, retB. destruct (m s); try exact I. exact H. Qed.
Lemma fn_np : forall (m : BM ctl) s, np (m s) -> np (fn m s).
Proof. intros m s H. unfold fn, bindB, retB. destruct (m s); try exact I. exact H. Qed.

Lemma base_mr_np : forall store async_store pp q op body s,
  np (BaseProtocol_message_received store async_store pp q op body s).
Proof.
  intros store async_store pp q op body s. unfold BaseProtocol_message_received. apply fn_np.
  unfold ifB, bindB, pureB.
  destruct (op =? op_error); [exact I|]. destruct (op =? op_info); [exact I|].
  destruct (op =? op_auth).
  { destruct (readauth body) as [[i dg]|]; [|exact I]. apply call_ret_np, on_auth_np. }
  destruct (op =? op_publish).
  { destruct (readpublish body) as [[[i c] d]|]; [|exact I]. apply call_ret_np. rewrite Connection_on_publish_eq. apply np_emb. }
  destruct (op =? op_subscribe).
  { destruct (readsubscribe body) as [[i c]|]; [|exact I]. apply call_ret_np. rewrite Connection_on_subscribe_eq. apply np_emb. }
  destruct (op =? op_unsubscribe).
  { destruct (readunsubscribe body) as [[i c]|]; [|exact I]. apply call_ret_np. rewrite Connection_on_unsubscribe_eq. apply np_emb. }
  unf. exact I.
Qed.

Lemma conn_mr_np : forall store async_store pp q op body s,
  np (Connection_message_received store async_store pp q op body s).
Proof.
  intros. rewrite Connection_message_received_eq.
  destruct (opt_none (ak (conns s q)) && negb (op =? op_auth)); [exact I|apply base_mr_np].
Qed.

(* ---- BaseProtocol.process_pending (one turn of the frame loop) and data_received ------------------------ *)
Section Loop.
Variable store : ident -> lookup.
Variable async_store : bool.

(* one unrolling of the model's pp, with the rest of the loop (and the nested call) as k *)
Definition pp_step (k : state -> res) (q : nat) (s : state) : res :=
  match next limitP (buf (conns s q)) with
  | NeedMore => Ok s
  | Bad _ => Ok (cl q s)
  | Ready op body rest =>
      match handle store async_store k q op body (modc q (set_buf rest) s) with
      | (Ok s2, true) => Ok s2
      | (Ok s2, false) => k s2
      | (r, _) => r
      end
  end.

Lemma BaseProtocol_process_pending_eq : forall ppk q s,
  to_res (BaseProtocol_process_pending store async_store ppk q s) = pp_step (ppk q) q s.
Proof.
  intros ppk q s. unfold BaseProtocol_process_pending, pp_step.
  unfold fn, bindB at 1, seqB at 1, bindB at 1, try_proto, for_unpacker_until.
  destruct (next limitP (buf (conns s q))) as [| c |op body rest] eqn:N.
  - reflexivity.
  - unf. reflexivity.
  - pose proof (WireFacts.next_ready_inv limitP _ _ _ _ N) as [_ [Hop _]].
    rewrite <- (handle_src_eq store async_store ppk q op body _ Hop).
    pose proof (conn_mr_np store async_store ppk q op body (modc q (set_buf rest) s)) as NP.
    destruct (Connection_message_received store async_store ppk q op body (modc q (set_buf rest) s)) as [[|] s2|s2|s2|s2];
      cbn [to_resb]; try reflexivity; [|destruct NP].
    unfold of_res. destruct (ppk q s2); reflexivity.
Qed.

Lemma Connection_data_received_eq : forall ppk q chunk s,
  to_res (Connection_data_received ppk q chunk s) = ppk q (modc q (set_buf (buf (conns s q) ++ chunk)) s).
Proof.
  intros ppk q chunk s. unfold Connection_data_received, BaseProtocol_data_received.
  unfold fn, call_ret, bindB, seqB, bindB, eff, of_res, p_feed, fall, retB.
  destruct (ppk q (modc q (set_buf (buf (conns s q) ++ chunk)) s)); reflexivity.
Qed.
End Loop.
