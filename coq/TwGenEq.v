(* TwGenEq.v — the Twisted ClientSessionService glue (hpfeeds/twisted/service.py: subscribe / unsubscribe / publish,
   _Protocol.onPublish / connectionReady / connectionLost) as translated on every run (AioGen.v, Tw* definitions) is the model
   of TwSession.v; trun_src = trun, so the C11 / C12 invariants hold of the run with the translated methods.  No axioms. *)
From Coq Require Import ZArith List Bool Arith.
From Coq Require Import Strings.Byte.
From HP Require Import Bytes Wire AioSession AioFacts AioGen AioGenEq TwSession.
Import ListNotations.
Open Scope Z_scope.

Section TwEq.
Variable ident secret : bytes.

Theorem tw_subscribe_src_eq : forall c s, TwClientSession_subscribe ident secret c s = do_sub ident secret c s.
Proof.
  intros c s. unfold TwClientSession_subscribe, do_sub. cbv zeta.
  destruct (memb c (wanted s)); [reflexivity|]. cbn [negb].
  destruct (cur (setwanted (c :: wanted s) s)); reflexivity.
Qed.
Theorem tw_unsubscribe_src_eq : forall c s, TwClientSession_unsubscribe ident secret c s = do_unsub ident secret c s.
Proof.
  intros c s. unfold TwClientSession_unsubscribe, do_unsub. cbv zeta.
  destruct (memb c (wanted s)); [|reflexivity].
  destruct (cur (setwanted (rmb c (wanted s)) s)); reflexivity.
Qed.
Theorem tw_publish_src_eq : forall c d s, TwClientSession_publish ident secret c d s = do_pub ident secret c d s.
Proof. intros c d s. unfold TwClientSession_publish, do_pub. cbv zeta. destruct (cur s); reflexivity. Qed.

(* the per-connection program is the asyncio one (TwSession.v): the OP_PUBLISH and OP_INFO branches of on_frame are the
   translated onPublish and (after the OP_AUTH) connectionReady *)
Theorem tw_on_publish_src_eq : forall k body i c d s, readpublish body = Some (i, c, d) ->
  on_frame ident secret k 3 body s = (TwProtocol_on_publish i c d s, false).
Proof. intros k body i c d s H. unfold on_frame. cbn [Z.eqb Pos.eqb]. rewrite H. reflexivity. Qed.

Theorem tw_connection_ready_src_eq : forall k body name rand a s,
  readinfo body = Some (name, rand) -> msgauth rand ident secret = Some a ->
  on_frame ident secret k 1 body s =
  TwProtocol_connection_ready ident secret k
    (modk k (fun c => mkac (cbuf c) (FAuth rand :: cout c) (cclosing c) (clost c) (caborted c)
                           (match cnonce c with None => Some rand | n => n end)) s).
Proof.
  intros k body name rand a s H1 H2. unfold on_frame. cbn [Z.eqb Pos.eqb]. rewrite H1, H2.
  unfold TwProtocol_connection_ready, set_result_connected, set_cur. cbv zeta. cbn [wanted].
  match goal with |- context [wc_done ?X] => destruct (wc_done X) eqn:W end; cbn [wanted]; try rewrite W; reflexivity.
Qed.

Theorem tw_connection_lost_src_eq : forall k s,
  tw_lost k s =
  let c := getc s k in
  if (k <? length (conns s))%nat && negb (clost c) then
    fst (TwProtocol_connection_lost k (modk k (fun c => mkac (cbuf c) (cout c) true true (caborted c) (cnonce c)) s))
  else s.
Proof.
  intros k s. unfold tw_lost. cbv zeta.
  destruct ((k <? length (conns s))%nat && negb (clost (getc s k))); reflexivity.
Qed.

Definition tstep_src (s : asess) (e : tev) : asess :=
  match e with
  | TSub c => TwClientSession_subscribe ident secret c s
  | TUnsub c => TwClientSession_unsubscribe ident secret c s
  | TPub c d => TwClientSession_publish ident secret c d s
  | _ => tstep ident secret s e
  end.
Definition trun_src (es : list tev) : asess := fold_left tstep_src es asess0.
Lemma tstep_src_eq : forall s e, tstep_src s e = tstep ident secret s e.
Proof.
  intros s e. destruct e; cbn [tstep_src tstep];
    first [apply tw_subscribe_src_eq | apply tw_unsubscribe_src_eq | apply tw_publish_src_eq | reflexivity].
Qed.
Theorem trun_src_eq : forall es, trun_src es = trun ident secret es.
Proof.
  intro es. unfold trun_src, trun. generalize asess0. induction es as [|e t IH]; intro s; [reflexivity|].
  cbn [fold_left]. rewrite tstep_src_eq. apply IH.
Qed.
Theorem src_trun_Q : forall es, Q (trun_src es).
Proof. intro es. rewrite trun_src_eq. apply trun_Q. Qed.
Theorem src_trun_A : (zlen ident <= 255)%Z -> forall es, A (trun_src es).
Proof. intros H es. rewrite trun_src_eq. apply trun_A. exact H. Qed.
End TwEq.
