(* BrokerGauge.v — C19, per identity: in every reachable state the subscriptions gauge of every (ident, channel) label
   equals the number of connections currently subscribed to that channel whose CURRENT identity is ident - hence it is
   never negative and all gauges are zero once every client has gone - for every history, including connections that
   authenticate again under another identity (authenticate() moves their counts: Broker.regauge). *)
From Coq Require Import ZArith List Bool Arith Lia.
From HP Require Import Bytes Sha1 Wire ParamsOK Broker BrokerSpec BrokerLemmas BrokerInv BrokerStep BrokerTrace BrokerMetrics.
Import ListNotations.
Open Scope Z_scope.

(* value of one label of the gauge (a label that was never used reads 0) *)
Fixpoint gval (k : ident * chan) (g : list (ident * chan * Z)) : Z :=
  match g with
  | [] => 0
  | (k', v) :: t => (if lbl_eqb k' k then v else 0) + gval k t
  end.

Lemma lbl_eqb_eq a b : lbl_eqb a b = true <-> a = b.
Proof.
  destruct a as [a1 a2], b as [b1 b2]. unfold lbl_eqb. cbn. rewrite andb_true_iff, !bytes_eqb_eq.
  split; [intros [-> ->]; reflexivity|intros H; inversion H; auto].
Qed.
Lemma lbl_eqb_refl a : lbl_eqb a a = true. Proof. apply lbl_eqb_eq. reflexivity. Qed.
Lemma lbl_eqb_sym a b : lbl_eqb a b = lbl_eqb b a.
Proof.
  destruct (lbl_eqb a b) eqn:E1, (lbl_eqb b a) eqn:E2; try reflexivity.
  - apply lbl_eqb_eq in E1. subst. rewrite lbl_eqb_refl in E2. discriminate.
  - apply lbl_eqb_eq in E2. subst. rewrite lbl_eqb_refl in E1. discriminate.
Qed.

Lemma gval_gadd k k' d g : gval k (gadd k' d g) = gval k g + (if lbl_eqb k' k then d else 0).
Proof.
  induction g as [|[k0 v] g IH]; cbn [gadd gval].
  - lia.
  - destruct (lbl_eqb k0 k') eqn:E0; cbn [gval].
    + apply lbl_eqb_eq in E0. subst k0. destruct (lbl_eqb k' k); lia.
    + rewrite IH. lia.
Qed.

(* connections subscribed to c whose current identity is i *)
Definition cnt (i : ident) (c : chan) (s : state) : nat :=
  length (filter (fun q => bytes_eqb (akl (conns s q)) i) (subs s c)).

Record PI (s : state) : Prop := {
  p_val : forall i c, gval (i, c) (g_subs s) = Z.of_nat (cnt i c s);
  p_na : forall q, ak (conns s q) = None -> active (conns s q) = [] }.

(* PI reads only the gauge, the registry, and ak / active of the connections *)
Lemma PI_ext s s' : PI s -> g_subs s' = g_subs s -> subs s' = subs s ->
  (forall q, ak (conns s' q) = ak (conns s q) /\ active (conns s' q) = active (conns s q)) -> PI s'.
Proof.
  intros [V N] Hg Hs Hq. constructor.
  - intros i c. rewrite Hg, V. unfold cnt. rewrite Hs. f_equal. f_equal. apply filter_ext. intros q.
    unfold akl. destruct (Hq q) as [-> _]. reflexivity.
  - intros q H. destruct (Hq q) as [A B]. rewrite B. apply N. rewrite <- A. exact H.
Qed.
Lemma modc_PI q f s : PI s -> (forall c, ak (f c) = ak c /\ active (f c) = active c) -> PI (modc q f s).
Proof.
  intros P Hf. apply (PI_ext s); auto. intros q'. cbn. unfold upd. destruct (Nat.eqb_spec q' q); subst; [apply Hf|auto].
Qed.
Lemma logA_PI a s : PI s -> PI (logA a s).
Proof. intros P. apply (PI_ext s); auto. Qed.
Lemma wr_PI q f s : PI s -> PI (wr q f s).
Proof. intros P. unfold wr. destruct (_ || _); [exact P|]. apply modc_PI; [exact P|]. intros c. split; reflexivity. Qed.
Lemma cl_PI q s : PI s -> PI (cl q s).
Proof. intros P. unfold cl. destruct (closing _); [exact P|]. apply logA_PI. apply modc_PI; [exact P|]. intros c. split; reflexivity. Qed.

Lemma filter_rmn (f : nat -> bool) q : forall l, NoDup l -> In q l ->
  length (filter f l) = (length (filter f (rmn q l)) + (if f q then 1 else 0))%nat.
Proof.
  induction l as [|y l IH]; intros ND Hin; [destruct Hin|]. inversion ND as [|? ? Hy ND']; subst.
  cbn [rmn]. destruct (Nat.eqb_spec y q) as [->|N].
  - cbn [filter]. destruct (f q); cbn; lia.
  - destruct Hin as [E|Hin]; [congruence|]. cbn [filter]. destruct (f y); cbn [length]; rewrite (IH ND' Hin); lia.
Qed.

Lemma cnt_ext i c s s' : (forall q, akl (conns s' q) = akl (conns s q)) ->
  cnt i c s' = length (filter (fun q => bytes_eqb (akl (conns s q)) i) (subs s' c)).
Proof. intros H. unfold cnt. f_equal. apply filter_ext. intros q. rewrite H. reflexivity. Qed.

Lemma sub_raw_PI q c s : ak (conns s q) <> None -> PI s -> PI (sub_raw q c s).
Proof.
  intros Hak [V N]. unfold sub_raw. destruct (memc c (active (conns s q))) eqn:Mm; [constructor; assumption|].
  match goal with |- PI ?X => set (s' := X) end.
  assert (Hakl : forall q', akl (conns s' q') = akl (conns s q')).
  { intros q'. subst s'. cbn. unfold upd. destruct (Nat.eqb_spec q' q); subst; reflexivity. }
  constructor.
  - intros i c'. rewrite (cnt_ext i c' s s' Hakl). subst s'. cbn [g_subs subs set_g_subs set_subs]. rewrite gval_gadd, V. unfold cnt, updc.
    unfold lbl_eqb. cbn [fst snd].
    destruct (bytes_eqb_spec c' c) as [->|Nc].
    + rewrite bytes_eqb_refl, andb_true_r. cbn [filter].
      destruct (bytes_eqb (akl (conns s q)) i); cbn [length]; lia.
    + destruct (bytes_eqb_spec c c'); [congruence|]. rewrite andb_false_r. lia.
  - intros q' H. subst s'. cbn in *. unfold upd in *. destruct (Nat.eqb_spec q' q); subst; cbn in *; [congruence|apply N; exact H].
Qed.

Lemma unsub_raw_PI q c s : Inv s -> PI s -> PI (unsub_raw q c s).
Proof.
  intros I [V N]. unfold unsub_raw. destruct (memc c (active (conns s q))) eqn:Mm; [|constructor; assumption].
  apply memc_In in Mm. destruct I as [_ I2 I3 _ _ _ _ _]. pose proof (I2 _ _ Mm) as Hin. pose proof (I3 c) as ND.
  match goal with |- PI ?X => set (s' := X) end.
  assert (Hakl : forall q', akl (conns s' q') = akl (conns s q')).
  { intros q'. subst s'. cbn. unfold upd. destruct (Nat.eqb_spec q' q); subst; reflexivity. }
  constructor.
  - intros i c'. rewrite (cnt_ext i c' s s' Hakl). subst s'. cbn [g_subs subs set_g_subs set_subs]. rewrite gval_gadd, V. unfold cnt, updc.
    unfold lbl_eqb. cbn [fst snd].
    destruct (bytes_eqb_spec c' c) as [->|Nc].
    + rewrite bytes_eqb_refl, andb_true_r.
      rewrite (filter_rmn (fun q0 => bytes_eqb (akl (conns s q0)) i) q (subs s c) ND Hin).
      destruct (bytes_eqb (akl (conns s q)) i); lia.
    + destruct (bytes_eqb_spec c c'); [congruence|]. rewrite andb_false_r. lia.
  - intros q' H. subst s'. cbn in *. unfold upd in *. destruct (Nat.eqb_spec q' q); subst; cbn in *; [|apply N; exact H].
    rewrite (N q H) in Mm. destruct Mm.
Qed.

Section Gauge.
Variable bname : bytes.
Variable store : ident -> lookup.
Variable async_store : bool.
Notation Good := (Good (srow store) async_store).
Notation Good0 := (Good0 (srow store) async_store).

Lemma unsub_all_PI l : forall q s, Inv s -> PI s -> PI (unsub_all q l s).
Proof.
  induction l as [|c l IH]; intros q s I P; cbn; [exact P|].
  apply IH; [apply (unsub_raw_inv (srow store)); exact I|apply unsub_raw_PI; assumption].
Qed.

Lemma lostp_PI q s : Inv s -> PI s -> PI (lostp q s).
Proof.
  intros I P. unfold lostp. fold (unsub_all q (active (conns s q)) s).
  set (s1 := unsub_all q (active (conns s q)) s).
  assert (P1 : PI s1) by (apply unsub_all_PI; assumption).
  apply logA_PI. apply (PI_ext (modc q (set_copen false) s1)); auto.
  apply modc_PI; [exact P1|]. intros c. split; reflexivity.
Qed.

Lemma deliver_PI i c dt s d : Good0 s -> PI s -> copen (conns s d) = true ->
  exists s', deliver i c dt (Ok s) d = Ok s' /\ Good0 s' /\ PI s' /\ (forall q, q <> d -> conns s' q = conns s q).
Proof.
  intros G P Ho. unfold deliver. destruct (closing (conns s d)) eqn:Ec.
  - rewrite Ho. destruct (lostp_good0 (srow store) async_store d s G Ho) as (G' & _ & _ & Fo & _).
    exists (lostp d s). split; [reflexivity|]. split; [exact G'|]. split; [|exact Fo].
    apply lostp_PI; [apply G|exact P].
  - exists (wr d (FPub i c dt) s). split; [reflexivity|]. split; [apply wr_good0; exact G|]. split; [apply wr_PI; exact P|].
    intros q N. unfold wr. destruct (_ || _); [reflexivity|]. cbn. unfold upd. destruct (Nat.eqb_spec q d); [congruence|reflexivity].
Qed.
Lemma deliver_loop_PI i c dt : forall todo s, NoDup todo -> Good0 s -> PI s ->
  (forall q, In q todo -> copen (conns s q) = true) ->
  exists s', fold_left (deliver i c dt) todo (Ok s) = Ok s' /\ PI s'.
Proof.
  induction todo as [|d todo IH]; intros s ND G P Ho; [exists s; auto|].
  inversion ND as [|? ? Hd ND']; subst.
  destruct (deliver_PI i c dt s d G P (Ho d (or_introl eq_refl))) as (s1 & E1 & G1 & P1 & Fo).
  destruct (IH s1 ND' G1 P1) as (s2 & E2 & P2).
  { intros q Hq. rewrite Fo; [apply Ho; right; exact Hq|]. intro; subst; contradiction. }
  exists s2. cbn [fold_left]. rewrite E1. auto.
Qed.

(* re-authentication: the counts of the connection's subscriptions move from the old to the new identity *)
Lemma regauge_fold (old i : ident) (c0 : chan) (j : ident) : forall l g, NoDup l ->
  gval (j, c0) (fold_left (fun g c => gadd (i, c) 1 (gadd (old, c) (-1) g)) l g) =
  gval (j, c0) g + (if existsb (bytes_eqb c0) l then (if bytes_eqb i j then 1 else 0) - (if bytes_eqb old j then 1 else 0) else 0).
Proof.
  induction l as [|c l IH]; intros g ND; cbn [fold_left existsb]; [lia|].
  inversion ND as [|? ? Hc ND']; subst. rewrite (IH _ ND'), !gval_gadd. unfold lbl_eqb. cbn [fst snd].
  destruct (bytes_eqb_spec c0 c) as [->|Nc].
  - rewrite bytes_eqb_refl, !andb_true_r. cbn [orb].
    assert (existsb (bytes_eqb c) l = false).
    { destruct (existsb (bytes_eqb c) l) eqn:E; [|reflexivity]. apply existsb_exists in E. destruct E as (x & Hx & Ex).
      apply bytes_eqb_eq in Ex. subst. contradiction. }
    rewrite H. destruct (bytes_eqb i j), (bytes_eqb old j); lia.
  - destruct (bytes_eqb_spec c c0); [congruence|]. rewrite !andb_false_r. cbn [orb].
    destruct (existsb (bytes_eqb c0) l), (bytes_eqb i j), (bytes_eqb old j); lia.
Qed.

Lemma auth_PI p i r dg s : Good s -> PI s ->
  PI (logA (AAuth p i r dg)
        (modc p (fun c => set_subchans (r_sub r) (set_pubchans (r_pub r) (set_ak (Some i) c))) (regauge p i s))).
Proof.
  intros G [V N]. pose proof (proj1 (proj1 G)) as I. destruct I as [I1 I2 I3 I4 _ _ _ _].
  apply logA_PI. constructor.
  - intros j c. cbn [g_subs modc set_conns regauge set_g_subs]. unfold cnt. cbn [subs modc set_conns regauge set_g_subs conns].
    (* who counts for (j, c) after the step: p counts iff it is subscribed to c and i = j *)
    assert (Hf : forall q, bytes_eqb (akl (upd (conns s) p (set_subchans (r_sub r) (set_pubchans (r_pub r) (set_ak (Some i) (conns s p)))) q)) j =
                           if Nat.eqb q p then bytes_eqb i j else bytes_eqb (akl (conns s q)) j).
    { intros q. unfold upd. destruct (Nat.eqb q p); reflexivity. }
    rewrite (filter_ext _ _ Hf).
    assert (Cnt : forall l, NoDup l ->
              Z.of_nat (length (filter (fun q => if Nat.eqb q p then bytes_eqb i j else bytes_eqb (akl (conns s q)) j) l)) =
              Z.of_nat (length (filter (fun q => bytes_eqb (akl (conns s q)) j) l)) +
              (if existsb (Nat.eqb p) l then (if bytes_eqb i j then 1 else 0) - (if bytes_eqb (akl (conns s p)) j then 1 else 0) else 0)).
    { induction l as [|x l IH]; intros ND; cbn [filter existsb length]; [lia|]. inversion ND as [|? ? Hx ND']; subst.
      rewrite (Nat.eqb_sym p x). destruct (Nat.eqb_spec x p) as [->|Nx].
      - assert (existsb (Nat.eqb p) l = false).
        { destruct (existsb (Nat.eqb p) l) eqn:E; [|reflexivity]. apply existsb_exists in E. destruct E as (y & Hy & Ey).
          apply Nat.eqb_eq in Ey. subst. contradiction. }
        cbn [orb]. specialize (IH ND'). rewrite H in IH.
        destruct (bytes_eqb i j), (bytes_eqb (akl (conns s p)) j); cbn [length]; lia.
      - cbn [orb]. specialize (IH ND'). destruct (bytes_eqb (akl (conns s x)) j); cbn [length]; lia. }
    rewrite (Cnt _ (I3 c)). unfold cnt in V. rewrite <- V.
    assert (Hmem : existsb (Nat.eqb p) (subs s c) = existsb (bytes_eqb c) (active (conns s p))).
    { destruct (existsb (Nat.eqb p) (subs s c)) eqn:E1, (existsb (bytes_eqb c) (active (conns s p))) eqn:E2; try reflexivity.
      - apply existsb_exists in E1. destruct E1 as (y & Hy & Ey). apply Nat.eqb_eq in Ey. subst y.
        destruct (I1 _ _ Hy) as [_ Hc]. assert (existsb (bytes_eqb c) (active (conns s p)) = true); [|congruence].
        apply existsb_exists. exists c. split; [exact Hc|apply bytes_eqb_refl].
      - apply existsb_exists in E2. destruct E2 as (y & Hy & Ey). apply bytes_eqb_eq in Ey. subst y.
        pose proof (I2 _ _ Hy) as Hq. assert (existsb (Nat.eqb p) (subs s c) = true); [|congruence].
        apply existsb_exists. exists p. split; [exact Hq|apply Nat.eqb_refl]. }
    rewrite Hmem. unfold regauge_g. destruct (ak (conns s p)) as [old|] eqn:Eak.
    + unfold akl. rewrite Eak. destruct (bytes_eqb_spec old i) as [->|No].
      * repeat match goal with |- context [if ?b then _ else _] => destruct b end; lia.
      * rewrite (regauge_fold old i c j _ _ (I4 p)). repeat match goal with |- context [if ?b then _ else _] => destruct b end; lia.
    + rewrite (N p Eak). cbn [existsb]. lia.
  - intros q H. cbn in *. unfold upd in *. destruct (Nat.eqb_spec q p); subst; cbn in *; [discriminate|apply N; exact H].
Qed.

Lemma pstep_PI p s s' : Good s -> PI s -> pstep bname store async_store p s s' -> PI s'.
Proof.
  intros G P H. pose proof (proj1 (proj1 G)) as I. destruct H.
  - apply modc_PI; [exact P|]. intros c. destruct (H c) as [Hc _]. apply core_inv in Hc. intuition.
  - apply wr_PI; exact P.
  - apply cl_PI; exact P.
  - apply modc_PI; [exact P|]. intros c. specialize (H0 c). injection H0. intros. auto.
  - unfold sub. apply logA_PI. apply sub_raw_PI; [|exact P].
    destruct H0 as (i & r & Hla & _). destruct G as ((_ & _ & [L1 _ _]) & _). specialize (L1 p). unfold ak_link in L1.
    rewrite Hla in L1. destruct L1 as (E & _). congruence.
  - unfold unsub. apply logA_PI. apply unsub_raw_PI; assumption.
  - apply lostp_PI; assumption.
  - apply auth_PI; assumption.
  - unfold publish in H1. destruct G as (G0 & _).
    assert (G00 : Good0 (logA (APub p (akl (conns s p)) c d) s)).
    { destruct G0 as (I0 & [R1 R2] & [L1 L2 L3]). split; [apply inv_logA; exact I0|]. split.
      - constructor; intros q; cbn; [apply R1|apply R2].
      - constructor; cbn.
        + intros q. specialize (L1 q). unfold ak_link in *. cbn. exact L1.
        + intros q. specialize (L2 q). unfold nonce_link in *. cbn. exact L2.
        + split; [|exact L3]. exists r. split; [|exact H0].
          specialize (L1 p). unfold ak_link in L1. rewrite H in L1. unfold akl. destruct L1 as (-> & _). exact H. }
    destruct (deliver_loop_PI (akl (conns s p)) c d (nodup Nat.eq_dec (subs s c)) _ (NoDup_nodup _ _) G00 (logA_PI _ _ P)) as (s2 & E2 & P2).
    { intros q Hq. apply nodup_In in Hq. destruct I as [I1 _ _ _ _ _ _ _]. apply (I1 _ _ Hq). }
    cbn in E2. rewrite E2 in H1. inversion H1; subst. exact P2.
  - destruct P as [V N]. unfold do_connect. rewrite H. apply wr_PI.
    destruct (unmade_facts store async_store s p G H) as (Ho & _ & _).
    assert (Hp : forall c, ~ In p (subs s c)).
    { intros c Hin. destruct I as [I1 _ _ _ _ _ _ _]. destruct (I1 _ _ Hin) as [X _]. congruence. }
    constructor.
    + intros i c. cbn [g_subs logA set_alog set_ids set_g_made set_g_conn set_conns]. rewrite V. unfold cnt.
      cbn [subs logA set_alog set_ids set_g_made set_g_conn set_conns conns]. f_equal. f_equal.
      apply filter_ext_in. intros q Hq. unfold upd. destruct (Nat.eqb_spec q p); [subst; exfalso; apply (Hp c); exact Hq|reflexivity].
    + intros q Hq. cbn in *. unfold upd in *. destruct (Nat.eqb_spec q p); subst; cbn; [reflexivity|apply N; exact Hq].
  - unfold abort. apply cl_PI. apply modc_PI; [exact P|]. intros c. split; reflexivity.
Qed.

Lemma psteps_PI p s s' : Good s -> PI s -> psteps bname store async_store p s s' -> PI s'.
Proof.
  intros G P H. induction H; [exact P|]. apply IHpsteps; [eapply pstep_good; eassumption|eapply pstep_PI; eassumption].
Qed.
Lemma esteps_PI s s' : Good s -> PI s -> esteps bname store async_store s s' -> PI s'.
Proof.
  intros G P H. induction H; [exact P|]. apply IHesteps; [eapply psteps_good; eassumption|eapply psteps_PI; eassumption].
Qed.

Theorem run_PI h : PI (run bname store async_store h).
Proof.
  unfold run. assert (X : forall s, Good s -> PI s -> PI (fold_left (step bname store async_store) h s)).
  { induction h as [|e h IH]; intros s G P; cbn; [exact P|].
    apply IH; [apply step_good; exact G|]. eapply esteps_PI; [exact G|exact P|apply step_tr; exact G]. }
  apply X; [exact (good_state0 bname store async_store)|]. constructor; cbn; auto.
Qed.

(* no gauge is ever negative, and every gauge is zero once every client has gone *)
Theorem gauges_nonneg h i c : 0 <= gval (i, c) (g_subs (run bname store async_store h)).
Proof. rewrite (p_val _ (run_PI h)). lia. Qed.
Theorem all_gone_every_gauge_zero h : (forall q, copen (conns (run bname store async_store h) q) = false) ->
  forall i c, gval (i, c) (g_subs (run bname store async_store h)) = 0.
Proof.
  intros Hall i c. rewrite (p_val _ (run_PI h)). unfold cnt.
  destruct (subs (run bname store async_store h) c) as [|q l] eqn:Es; [reflexivity|].
  exfalso. destruct (run_good bname store async_store h) as (([I1 _ _ _ _ _ _ _] & _) & _).
  destruct (I1 c q) as [X _]; [rewrite Es; left; reflexivity|]. rewrite Hall in X. discriminate.
Qed.
End Gauge.
