(* WireRoundtrip.v — C05: each builder is inverted exactly by the stream decoder plus its reader. *)
From Coq Require Import ZArith List Lia Bool ZifyBool.
From Coq Require Import Strings.Byte.
From HP Require Import Bytes Utf8 Sha1 Wire WireFacts Params ParamsOK ParamsC05.
Import ListNotations.
Open Scope Z_scope.

(* what Python's str can be on the wire: valid UTF-8, at most 255 bytes *)
Definition wf_str (s : bytes) : Prop := utf8_valid s = true /\ zlen s <= 255.

(* the declared length (first four bytes, signed big-endian) of a frame *)
Definition declared_len (f : bytes) : option Z :=
  match f with a :: b :: c :: d :: _ => Some (de32 a b c d) | _ => None end.

(* "built frame fr decodes to exactly one frame (op, body), nothing left over, and its length header
    equals the number of bytes produced" *)
Definition decodes_to (limit : Z -> Z) (fr : bytes) (op : Z) (body : bytes) : Prop :=
  parse limit fr = ([(op, body)], [], None) /\ declared_len fr = Some (zlen fr).

Section RT.
Variable limit : Z -> Z.

Lemma hdr_decodes op body :
  0 <= op <= 5 -> 5 + zlen body <= limit op -> 5 + zlen body < 2147483648 ->
  decodes_to limit (hdr op body) op body.
Proof.
  intros Ho Hl Hb. split.
  - pose proof (parse_frames limit [(op, body)] []) as H. cbn [map concat enc fst snd] in H.
    rewrite !app_nil_r in H. apply H; [|reflexivity].
    constructor; [|constructor]. repeat split; cbn [fst snd]; lia.
  - rewrite hdr_length. unfold hdr, be32, declared_len. cbn [app].
    pose proof (zlen_nonneg body). rewrite de32_be32 by lia. reflexivity.
Qed.

Lemma strpack8_some x : zlen x <= 255 -> strpack8 x = Some (zb (zlen x) :: x).
Proof. intros H. unfold strpack8. destruct (zlen x <=? 255) eqn:E; [reflexivity|lia]. Qed.

Theorem info_roundtrip name rand :
  wf_str name -> 6 + zlen name + zlen rand <= limit 1 -> limit 1 < 2147483648 ->
  exists fr body, msginfo name rand = Some fr /\ decodes_to limit fr 1 body /\
                  readinfo body = Some (name, rand).
Proof.
  intros [Hv Hn] Hl Hm. unfold msginfo. rewrite (strpack8_some _ Hn).
  eexists; eexists; split; [reflexivity|]. split.
  - apply hdr_decodes; [lia| |]; rewrite zlen_app, zlen_cons; lia.
  - unfold readinfo. apply (strunpack8_strpack8 name _ rand Hv). apply strpack8_some; exact Hn.
Qed.

Theorem auth_roundtrip rand ident secret :
  wf_str ident -> 26 + zlen ident <= limit 2 -> limit 2 < 2147483648 ->
  exists fr body, msgauth rand ident secret = Some fr /\ decodes_to limit fr 2 body /\
                  readauth body = Some (ident, sha1 (rand ++ secret)).
Proof.
  intros [Hv Hn] Hl Hm. unfold msgauth, msgauth_digest, hashsecret. rewrite (strpack8_some _ Hn).
  eexists; eexists; split; [reflexivity|]. 
  assert (HL : zlen (sha1 (rand ++ secret)) = 20) by (unfold zlen; rewrite sha1_length; reflexivity).
  split.
  - apply hdr_decodes; [lia| |]; rewrite zlen_app, zlen_cons, HL; lia.
  - unfold readauth. apply (strunpack8_strpack8 ident _ _ Hv). apply strpack8_some; exact Hn.
Qed.

Theorem publish_roundtrip ident chan data :
  wf_str ident -> wf_str chan -> 7 + zlen ident + zlen chan + zlen data <= limit 3 ->
  limit 3 < 2147483648 ->
  exists fr body, msgpublish ident chan data = Some fr /\ decodes_to limit fr 3 body /\
                  readpublish body = Some (ident, chan, data).
Proof.
  intros [Hvi Hni] [Hvc Hnc] Hl Hm. unfold msgpublish.
  rewrite (strpack8_some _ Hni), (strpack8_some _ Hnc).
  eexists; eexists; split; [reflexivity|]. split.
  - apply hdr_decodes; [lia| |]; rewrite ?zlen_app, ?zlen_cons, ?zlen_app, ?zlen_cons; lia.
  - unfold readpublish.
    rewrite (strunpack8_strpack8 ident (zb (zlen ident) :: ident) _ Hvi (strpack8_some _ Hni)).
    rewrite (strunpack8_strpack8 chan (zb (zlen chan) :: chan) _ Hvc (strpack8_some _ Hnc)).
    reflexivity.
Qed.

Theorem subscribe_roundtrip ident chan :
  wf_str ident -> utf8_valid chan = true -> 6 + zlen ident + zlen chan <= limit 4 ->
  limit 4 < 2147483648 ->
  exists fr body, msgsubscribe ident chan = Some fr /\ decodes_to limit fr 4 body /\
                  readsubscribe body = Some (ident, chan).
Proof.
  intros [Hvi Hni] Hvc Hl Hm. unfold msgsubscribe. rewrite (strpack8_some _ Hni).
  eexists; eexists; split; [reflexivity|]. split.
  - apply hdr_decodes; [lia| |]; rewrite zlen_app, zlen_cons; lia.
  - unfold readsubscribe.
    rewrite (strunpack8_strpack8 ident (zb (zlen ident) :: ident) _ Hvi (strpack8_some _ Hni)).
    rewrite Hvc. reflexivity.
Qed.

Theorem unsubscribe_roundtrip ident chan :
  wf_str ident -> utf8_valid chan = true -> 6 + zlen ident + zlen chan <= limit 5 ->
  limit 5 < 2147483648 ->
  exists fr body, msgunsubscribe ident chan = Some fr /\ decodes_to limit fr 5 body /\
                  readunsubscribe body = Some (ident, chan).
Proof.
  intros [Hvi Hni] Hvc Hl Hm. unfold msgunsubscribe. rewrite (strpack8_some _ Hni).
  eexists; eexists; split; [reflexivity|]. split.
  - apply hdr_decodes; [lia| |]; rewrite zlen_app, zlen_cons; lia.
  - unfold readunsubscribe, readsubscribe.
    rewrite (strunpack8_strpack8 ident (zb (zlen ident) :: ident) _ Hvi (strpack8_some _ Hni)).
    rewrite Hvc. reflexivity.
Qed.

Theorem error_roundtrip err :
  utf8_valid err = true -> 5 + zlen err <= limit 0 -> limit 0 < 2147483648 ->
  exists fr body, msgerror err = Some fr /\ decodes_to limit fr 0 body /\ readerror body = Some err.
Proof.
  intros Hv Hl Hm. unfold msgerror. eexists; eexists; split; [reflexivity|]. split.
  - apply hdr_decodes; lia.
  - unfold readerror. rewrite Hv. reflexivity.
Qed.
End RT.

(* ---- instantiated with the limits read from /repo on this run ------------------------------ *)
Lemma limP_lt op : 0 <= op <= 5 -> limitP op < 2147483648.
Proof. intros H. destruct (limits_ok op H) as [[_ L] _]. exact L. Qed.

(* every in-range field tuple: no further hypothesis on sizes for INFO (nonce up to 20 bytes),
   AUTH, SUBSCRIBE, UNSUBSCRIBE; PUBLISH and ERROR up to the exact frame limit *)
Theorem C05_info name rand : wf_str name -> zlen rand <= 20 ->
  exists fr body, msginfo name rand = Some fr /\ decodes_to limitP fr 1 body /\ readinfo body = Some (name, rand).
Proof.
  intros Hn Hr. apply info_roundtrip; [exact Hn| |apply limP_lt; lia].
  destruct Hn as [_ Hn]. pose proof limit_info_ok. lia.
Qed.
Theorem C05_auth rand ident secret : wf_str ident ->
  exists fr body, msgauth rand ident secret = Some fr /\ decodes_to limitP fr 2 body /\
                  readauth body = Some (ident, sha1 (rand ++ secret)).
Proof.
  intros Hn. apply auth_roundtrip; [exact Hn| |apply limP_lt; lia].
  destruct Hn as [_ Hn]. pose proof limit_auth_ok. lia.
Qed.
Theorem C05_publish ident chan data : wf_str ident -> wf_str chan ->
  7 + zlen ident + zlen chan + zlen data <= limitP 3 ->
  exists fr body, msgpublish ident chan data = Some fr /\ decodes_to limitP fr 3 body /\
                  readpublish body = Some (ident, chan, data).
Proof. intros Hi Hc Hl. apply publish_roundtrip; [exact Hi|exact Hc|exact Hl|apply limP_lt; lia]. Qed.
Theorem C05_subscribe ident chan : wf_str ident -> wf_str chan ->
  exists fr body, msgsubscribe ident chan = Some fr /\ decodes_to limitP fr 4 body /\
                  readsubscribe body = Some (ident, chan).
Proof.
  intros Hi [Hcv Hcn]. apply subscribe_roundtrip; [exact Hi|exact Hcv| |apply limP_lt; lia].
  destruct Hi as [_ Hi]. pose proof limit_sub_ok. lia.
Qed.
Theorem C05_unsubscribe ident chan : wf_str ident -> wf_str chan ->
  exists fr body, msgunsubscribe ident chan = Some fr /\ decodes_to limitP fr 5 body /\
                  readunsubscribe body = Some (ident, chan).
Proof.
  intros Hi [Hcv Hcn]. apply unsubscribe_roundtrip; [exact Hi|exact Hcv| |apply limP_lt; lia].
  destruct Hi as [_ Hi]. pose proof limit_sub_ok. lia.
Qed.
Theorem C05_error err : utf8_valid err = true -> 5 + zlen err <= limitP 0 ->
  exists fr body, msgerror err = Some fr /\ decodes_to limitP fr 0 body /\ readerror body = Some err.
Proof. intros Hv Hl. apply error_roundtrip; [exact Hv|exact Hl|apply limP_lt; lia]. Qed.

(* non-vacuity: a concrete multi-byte ident/channel satisfies the hypotheses *)
Example C05_nonvacuous :
  wf_str [xc3; xa9; x31] /\ wf_str [xf0; x9f; x98; x80] /\
  7 + zlen [xc3; xa9; x31] + zlen [xf0; x9f; x98; x80] + zlen [x00; xff] <= limitP 3.
Proof. unfold wf_str. vm_compute. intuition discriminate. Qed.
