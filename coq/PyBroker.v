(* PyBroker.v — the layer harness/pytrans3.py translates the broker's decision code into
   (hpfeeds/broker/server.py: Server.subscribe / unsubscribe / publish; hpfeeds/broker/connection.py:
   Connection.is_closing / connection_lost / message_received / authenticate / on_auth / on_auth_result / on_publish /
   on_subscribe / on_unsubscribe / connection_made; hpfeeds/asyncio/protocol.py: BaseProtocol.message_received).  Definitions only; the equalities with the hand-written model are in BrokerGenEq.v.

   A method body becomes a computation over the broker model's [state] (Broker.v): it ends normally with a value
   and a state, raises (state as mutated at the raise), or runs out of the fuel of a nested process_pending.
   A statement list is a [BM ctl]: [None] = control fell off the end of the list (or `continue`), [Some b] =
   `return` with the truthiness b of the returned value (None -> false, True -> true; nothing else is returned by
   the translated methods, anything else aborts the translation).

   How Python objects are read (this reading is trusted; it is the same one Broker.v documents):
     a Connection object                       its index q : nat
     self.server is None / self not in server.connections
                                               negb (copen (conns s q))   (one field: connection_lost clears both)
     X.ak / pubchans / subchans / authrand     ak / pubchans / subchans / nonce (conns s X)
     X.active_subscriptions (a set)            active (conns s X)   (a duplicate-free list; iteration order = list order)
     server.subscriptions[chan] (a list)       subs s chan          (kept newest-first; .append = cons, .remove = rmn)
     X._lookups_pending (a count) and the done-callbacks registered by on_auth (closures holding ident and digest)
                                               pending (conns s X): ONE queue of (ident, digest); `+= 1` next to
                                               add_done_callback adds nothing, `-= 1` in on_auth_result pops the head
     inspect.isawaitable(server.get_authkey(i))  async_store;  the synchronous answer: store i
     task.result()                             the event's verdict: RRaise = it raises, RLook l = it returns l
     readauth/readpublish/readsubscribe/readunsubscribe(data)      Wire's readers (None = the reader raises);
                                               ProtoGenEq.v proves them equal to the translated protocol.py
     X.transport.close() / is_closing()        cl X / closing (conns s X)
     X.error(text)                             wr X FError          (the text is not modelled)
     dest.publish(i, c, d)                     wr dest (FPub i c d) (BaseProtocol.publish: transport.write(msgpublish ..))
     CLIENT_CONNECTIONS / CONNECTION_MADE / CONNECTION_LOST / SUBSCRIPTIONS
                                               g_conn / g_made / g_lost (sum over labels) / g_subs
     every other metric, log.*, uid, peer/port, MeteredSocket, set_write_buffer_limits, the keep-alive socket options
                                               not modelled, skipped by the translator and ASSUMED NOT TO RAISE
                                               (C19's setup-fault probe covers connection_made failing there) *)
From Coq Require Import ZArith List Bool Arith.
From Coq Require Import Strings.Byte.
From HP Require Import Bytes Utf8 Sha1 Wire ParamsOK Broker.
Import ListNotations.
Open Scope Z_scope.

(* BProto: a ProtocolException (hpfeeds.exceptions) is propagating - raised only by the Unpacker, on a bad header;
   BRaise: any other exception *)
Inductive bres (A : Type) := BOk (a : A) (s : state) | BRaise (s : state) | BFuel (s : state) | BProto (s : state).
Arguments BOk {A} a s.
Arguments BRaise {A} s.
Arguments BFuel {A} s.
Arguments BProto {A} s.
Definition BM (A : Type) := state -> bres A.
Definition ctl := option bool.

Definition retB {A} (a : A) : BM A := fun s => BOk a s.
Definition bindB {A B} (m : BM A) (f : A -> BM B) : BM B :=
  fun s => match m s with BOk a s' => f a s' | BRaise s' => BRaise s' | BFuel s' => BFuel s' | BProto s' => BProto s' end.
Definition seqB (m k : BM ctl) : BM ctl :=
  bindB m (fun c => match c with None => k | Some b => retB (Some b) end).
Definition fall : BM ctl := retB None.
Definition ret_none : BM ctl := retB (Some false).
Definition ret_true : BM ctl := retB (Some true).
Definition eff (f : state -> state) : BM ctl := fun s => BOk None (f s).
Definition pureB (f : state -> bool) : BM bool := fun s => BOk (f s) s.
Definition ifB (c : BM bool) (t e : BM ctl) : BM ctl := bindB c (fun b => if b then t else e).
(* try: ... except Exception: ... *)
Definition tryB (m h : BM ctl) : BM ctl := fun s => match m s with BRaise s' | BProto s' => h s' | r => r end.
(* try: ... except ProtocolException: ... *)
Definition try_proto (m h : BM ctl) : BM ctl := fun s => match m s with BProto s' => h s' | r => r end.
(* for x in <list evaluated once>: body *)
Fixpoint forB {X} (l : list X) (body : X -> BM ctl) : BM ctl :=
  match l with [] => fall | x :: t => seqB (body x) (forB t body) end.
Definition for_in {X} (L : state -> list X) (body : X -> BM ctl) : BM ctl := fun s => forB (L s) body s.
(* a whole method: the truthiness of what it returns *)
Definition fn (m : BM ctl) : BM bool :=
  bindB m (fun c => retB (match c with Some b => b | None => false end)).
(* a call in statement position (the value is dropped) / `return f(..)` *)
Definition call_stmt (m : BM bool) : BM ctl := bindB m (fun _ => fall).
Definition call_ret (m : BM bool) : BM ctl := bindB m (fun b => retB (Some b)).
(* X.server.<anything>: AttributeError when X.server is None *)
Definition with_server {A} (q : nat) (m : BM A) : BM A :=
  fun s => if copen (conns s q) then m s else BRaise s.
(* the continuation the model passes for self.process_pending() *)
Definition of_res (k : state -> res) : BM ctl :=
  fun s => match k s with Ok s' => BOk None s' | Raise s' => BRaise s' | Fuel s' => BFuel s' end.
Definition to_res {A} (r : bres A) : res :=
  match r with BOk _ s => Ok s | BRaise s | BProto s => Raise s | BFuel s => Fuel s end.
Definition to_resb (r : bres bool) : res * bool :=
  match r with BOk b s => (Ok s, b) | BRaise s | BProto s => (Raise s, false) | BFuel s => (Fuel s, false) end.

(* ---- reading attributes -------------------------------------------------------------------- *)
Definition opt_is (i : bytes) (a : option ident) : bool :=          (* i == X.ak *)
  match a with Some me => bytes_eqb i me | None => false end.
Definition opt_none (a : option ident) : bool := match a with None => true | Some _ => false end.
Definition is_falsy_row (l : lookup) : bool := match l with LNone => true | LRow _ => false end.
Definition no_lookups (c : conn) : bool := match pending c with [] => true | _ => false end.
Definition py_hashsecret (rand secret : bytes) : bytes := sha1 (rand ++ secret).   (* protocol.hashsecret *)

(* ---- writing attributes, containers, gauges ------------------------------------------------- *)
Definition p_set_ak (q : nat) (i : ident) : state -> state := modc q (set_ak (Some i)).
Definition p_set_pubchans (q : nat) (l : list chan) : state -> state := modc q (set_pubchans l).
Definition p_set_subchans (q : nat) (l : list chan) : state -> state := modc q (set_subchans l).
Definition p_active_add (q : nat) (c : chan) (s : state) : state :=
  modc q (set_active (c :: active (conns s q))) s.
Definition p_active_remove (q : nat) (c : chan) (s : state) : state :=
  modc q (set_active (rmc c (active (conns s q)))) s.
Definition p_subs_append (c : chan) (q : nat) (s : state) : state := set_subs (updc (subs s) c (q :: subs s c)) s.
Definition p_subs_remove (c : chan) (q : nat) (s : state) : state := set_subs (updc (subs s) c (rmn q (subs s c))) s.
Definition p_gauge_subs (i : ident) (c : chan) (d : Z) (s : state) : state := set_g_subs (gadd (i, c) d (g_subs s)) s.
Definition p_g_conn (d : Z) (s : state) : state := set_g_conn (g_conn s + d) s.
Definition p_g_made (d : Z) (s : state) : state := set_g_made (g_made s + d) s.
Definition p_g_lost (d : Z) (s : state) : state := set_g_lost (g_lost s + d) s.
Definition p_unregister (q : nat) : state -> state := modc q (set_copen false).
Definition p_pub_write (dest : nat) (i : ident) (c : chan) (d : bytes) : state -> state := wr dest (FPub i c d).
Definition p_error (q : nat) : state -> state := wr q FError.

(* name = <expression evaluated now> *)
Definition letB {A} (f : state -> A) (k : A -> BM ctl) : BM ctl := fun s => k (f s) s.
(* set.remove / list.remove: KeyError / ValueError when the element is absent *)
Definition chk (b : state -> bool) (f : state -> state) : BM ctl :=
  fun s => if b s then BOk None (f s) else BRaise s.

(* ---- asynchronous lookups, registration ------------------------------------------------------ *)
(* task.add_done_callback(lambda task: self.on_auth_result(task, ident, secret)) together with self._lookups_pending += 1:
   the queue of completions registered for this connection (its length is the count of lookups in flight) *)
Definition p_enqueue (q : nat) (i : ident) (dg : bytes) : state -> state :=
  modc q (fun c => set_pending (pending c ++ [(i, dg)]) c).
(* self._lookups_pending -= 1 at the top of on_auth_result: the completion that is running leaves the queue *)
Definition p_pop_pending (q : nat) : state -> state := modc q (fun c => set_pending (tl (pending c)) c).
(* self.server.connections.add(self) in connection_made *)
Definition p_register (q : nat) : state -> state := modc q (set_copen true).
(* Connection(server): the object before connection_made - authrand = os.urandom(4) = n, nothing else set *)
Definition p_new_conn (q : nat) (n : bytes) (s : state) : state :=
  set_ids (q :: ids s) (set_conns (upd (conns s) q (set_nonce n (set_made true conn0))) s).

(* ---- the back-pressure deadline ---------------------------------------------------------------- *)
(* self._deadline_timer = asyncio.ensure_future(deadline_timer()) where the coroutine starts with await asyncio.sleep(n):
   n seconds left; .cancel() (with `= None`): no task *)
Definition p_start_timer (q : nat) (n : nat) : state -> state := modc q (set_timer (Some n)).
Definition p_cancel_timer (q : nat) : state -> state := modc q (set_timer None).
Definition timer_running (c : conn) : bool := match timer c with Some _ => true | None => false end.

(* ---- the frame loop ------------------------------------------------------------------------------ *)
(* self.unpacker.feed(data) *)
Definition p_feed (q : nat) (data : bytes) (s : state) : state := modc q (set_buf (buf (conns s q) ++ data)) s.
(* for opcode, data in self.unpacker:
       if <body opcode data>: break
   read as: one iteration, then the same loop again - `again` is process_pending itself (the same loop under the same
   except clause), which is how the model's fuel counts iterations and nesting alike.  Unpacker.__next__ (Wire.next, proved
   equal to the translated protocol.py in ProtoGenEq.v): StopIteration ends the loop, a bad header raises BadClient
   (a ProtocolException), a complete frame is removed from the buffer and handed to the body. *)
Definition for_unpacker_until (q : nat) (again : state -> res) (body : Z -> bytes -> BM bool) : BM ctl := fun s =>
  match next limitP (buf (conns s q)) with
  | NeedMore => BOk None s
  | Bad _ => BProto s
  | Ready op b rest =>
      match body op b (modc q (set_buf rest) s) with
      | BOk true s' => BOk None s'
      | BOk false s' => of_res again s'
      | BRaise s' => BRaise s' | BFuel s' => BFuel s' | BProto s' => BProto s'
      end
  end.
