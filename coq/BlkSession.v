(* BlkSession.v — executable model of hpfeeds/blocking/session.py (ClientSession + its Protocol) on top of the
   blocking reactor, at the granularity "what is put into the connection's outbox, in order" (that the outbox reaches
   the socket whole and in order is C20, Reactor.v) and "what is put into read_queue".

   The reactor serves one connection at a time; Reactor._connect creates a fresh outbox, so a frame written while no
   connection exists sits in a queue nobody reads: [b_stale].
   The protocol dispatcher is the blocking one of ClientProto.v (C16). *)
From Coq Require Import ZArith List Bool Arith.
From Coq Require Import Strings.Byte.
From HP Require Import Bytes Utf8 Sha1 Wire ParamsOK ClientProto AioSession.
Import ListNotations.

Record bconn := mkbc {
  b_buf : bytes;                 (* unpacker buffer *)
  b_out : list bytes;            (* frames put into this connection's outbox, newest first *)
  b_closed : bool;               (* the protocol called transport.close() or an exception escaped data_received *)
  b_nonce : option bytes;        (* ghost: nonce of the first OP_INFO decoded on this connection *)
  b_early : bool }.              (* ghost: the application wrote on this connection before any OP_INFO was decoded *)
Definition bconn0 : bconn := mkbc [] [] false None false.

Record bsess := mkbs {
  b_cur : option bconn; b_past : list bconn;      (* b_past newest first *)
  b_wanted : list bytes;                           (* session.subscriptions *)
  b_queue : list msg; b_got : list msg;            (* read_queue, what read() returned *)
  b_recvd : list msg;                              (* ghost: every OP_PUBLISH decoded, in order *)
  b_raised : nat; b_stale : list bytes }.
Definition bsess0 : bsess := mkbs None [] [] [] [] [] 0 [].

Inductive bev := BConn | BData (chunk : bytes) | BLost | BApp (f : cfr) | BRead.

Section Blk.
Variable ident secret : bytes.

Definition setcur (c : bconn) (s : bsess) : bsess :=
  mkbs (Some c) (b_past s) (b_wanted s) (b_queue s) (b_got s) (b_recvd s) (b_raised s) (b_stale s).

(* the effect of one dispatcher event on the current connection c and the session *)
Definition apply_ev (e : cev) (cs : bconn * bsess) : bconn * bsess :=
  let '(c, s) := cs in
  match e with
  | Write f => (mkbc (b_buf c) (f :: b_out c) (b_closed c) (b_nonce c) (b_early c), s)       (* transport.write -> outbox *)
  | HInfo _ r => (mkbc (b_buf c) (b_out c) (b_closed c) (match b_nonce c with None => Some r | x => x end) (b_early c), s)
  | HPublish i ch d =>                                                                       (* read_queue.put_nowait *)
      (c, mkbs (b_cur s) (b_past s) (b_wanted s) (b_queue s ++ [(i, ch, d)]) (b_got s) (b_recvd s ++ [(i, ch, d)]) (b_raised s) (b_stale s))
  | Close => (mkbc (b_buf c) (b_out c) true (b_nonce c) (b_early c), s)
  | Raised => (mkbc (b_buf c) (b_out c) true (b_nonce c) (b_early c),
               mkbs (b_cur s) (b_past s) (b_wanted s) (b_queue s) (b_got s) (b_recvd s) (S (b_raised s)) (b_stale s))
  | _ => (c, s)
  end.
(* session.Protocol overrides only on_publish: BaseProtocol.on_error raises NotImplementedError, which leaves
   data_received (and the reactor thread); every other opcode is ClientProto.blk_message *)
Definition smessage (op : Z) (body : bytes) : list cev * bool :=
  if Z.eqb op 0 then match readerror body with Some e => ([HError e], true) | None => ([], true) end
  else blk_message ident secret op body.
Fixpoint sloop (fuel : nat) (buf : bytes) : list cev * bytes :=
  match fuel with
  | O => ([], buf)
  | S f =>
      match next limitP buf with
      | NeedMore => ([], buf)
      | Bad _ => ([ProtoError; Close], buf)
      | Ready op body rest =>
          let '(evs, raised) := smessage op body in
          if raised then (evs ++ [Raised], rest)
          else let '(evs', buf') := sloop f rest in (evs ++ evs', buf')
      end
  end.
Definition sdata (buf chunk : bytes) : list cev * bytes := sloop (S (length (buf ++ chunk))) (buf ++ chunk).

Definition apply_evs (evs : list cev) (cs : bconn * bsess) : bconn * bsess := fold_left (fun a e => apply_ev e a) evs cs.

Definition rmw (c : bytes) (l : list bytes) : list bytes := filter (fun x => negb (bytes_eqb x c)) l.
Definition wanted_after (f : cfr) (w : list bytes) : list bytes :=
  match f with
  | FSub c => if existsb (bytes_eqb c) w then w else c :: w
  | FUnsub c => rmw c w
  | _ => w
  end.

Definition bstep (s : bsess) (e : bev) : bsess :=
  match e with
  | BConn => match b_cur s with None => setcur bconn0 s | Some _ => s end
  | BLost =>
      match b_cur s with
      | Some c => mkbs None (c :: b_past s) (b_wanted s) (b_queue s) (b_got s) (b_recvd s) (b_raised s) (b_stale s)
      | None => s
      end
  | BData chunk =>
      match b_cur s with
      | Some c =>
          if b_closed c then s
          else
            let '(evs, buf') := sdata (b_buf c) chunk in
            let '(c', s') := apply_evs evs (mkbc buf' (b_out c) (b_closed c) (b_nonce c) (b_early c), s) in
            setcur c' s'
      | None => s
      end
  | BApp f =>
      let s1 := mkbs (b_cur s) (b_past s) (wanted_after f (b_wanted s)) (b_queue s) (b_got s) (b_recvd s) (b_raised s) (b_stale s) in
      match render ident secret f with
      | None => s1                                      (* struct.pack refuses: the exception goes to the application *)
      | Some fr =>
          match b_cur s1 with
          | Some c =>
              setcur (mkbc (b_buf c) (fr :: b_out c) (b_closed c) (b_nonce c)
                           (b_early c || match b_nonce c with None => true | Some _ => false end)) s1
          | None => mkbs None (b_past s1) (b_wanted s1) (b_queue s1) (b_got s1) (b_recvd s1) (b_raised s1) (fr :: b_stale s1)
          end
      end
  | BRead =>
      match b_queue s with
      | m :: q => mkbs (b_cur s) (b_past s) (b_wanted s) q (b_got s ++ [m]) (b_recvd s) (b_raised s) (b_stale s)
      | [] => s
      end
  end.
Definition brun (es : list bev) : bsess := fold_left bstep es bsess0.
End Blk.
