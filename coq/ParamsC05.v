(* ParamsC05.v — the side conditions only the C05 round-trip theorems need (frame limits large enough for
   what the builders can produce), discharged for the constants read from /repo on this run. *)
From Coq Require Import ZArith List Lia Bool.
From HP Require Import Bytes Params Wire ParamsOK.
Import ListNotations.
Open Scope Z_scope.

(* obligation: OP_INFO and OP_AUTH limits admit a 255-byte name/ident plus a 20-byte nonce/digest *)
Lemma limit_info_ok : 5 + 1 + 255 + 20 <= limitP 1.
Proof. vm_compute. discriminate. Qed.
Lemma limit_auth_ok : 5 + 1 + 255 + 20 <= limitP 2.
Proof. vm_compute. discriminate. Qed.
(* obligation: (UN)SUBSCRIBE limits admit 255-byte ident and channel *)
Lemma limit_sub_ok : 5 + 1 + 255 + 255 <= limitP 4 /\ 5 + 1 + 255 + 255 <= limitP 5.
Proof. vm_compute. split; discriminate. Qed.
(* obligation: PUBLISH admits ident, channel and a payload of MAXBUF - 2*256 bytes; ERROR a MAXBUF text *)
Lemma limit_pub_ok : 5 + maxbuf <= limitP 3 /\ 5 + maxbuf <= limitP 0.
Proof. vm_compute. split; discriminate. Qed.
