(* TwSession.v — the Twisted ClientSessionService glue (hpfeeds/twisted/service.py: _Protocol + the service's
   subscribe / unsubscribe / publish / read).  Connecting, retrying and stopping are ClientService's job and are
   ASSUMED (Twisted's documented contract); the model takes "a new connection was made" / "it was lost" as
   inputs.  The per-connection behaviour is the same program as the asyncio one (AioSession.do_data):
   OP_INFO -> auth, service.protocol = self, subscribe every wanted topic, whenConnected.callback(None). *)
From Coq Require Import ZArith List Bool Arith Lia.
From HP Require Import Bytes Utf8 Sha1 Wire ParamsOK AioSession AioFacts.
Import ListNotations.

Section Tw.
Variable ident secret : bytes.
Hypothesis ident_fits : (zlen ident <= 255)%Z.

Inductive tev :=
| TConn                                   (* ClientService connected: buildProtocol + makeConnection *)
| TData (k : nat) (chunk : bytes) | TLost (k : nat)
| TSub (c : bytes) | TUnsub (c : bytes) | TPub (c d : bytes) | TRead.

(* connectionLost: service.protocol = None; service.whenConnected = defer.Deferred() *)
Definition tw_lost (k : nat) (s : asess) : asess :=
  let c := getc s k in
  if (k <? length (conns s))%nat && negb (clost c) then
    let s1 := modk k (fun c => mkac (cbuf c) (cout c) true true (caborted c) (cnonce c)) s in
    mkas (wanted s1) (pc s1) None (tr s1) (conns s1) (closing s1) false (wcl_done s1) (queue s1) (delivered s1)
         (waiting s1) (recvd s1) (attempts s1) (pend s1) (outcome s1) (cancel_req s1) (cst s1) (ready s1) (raised s1)
  else s.
Definition tw_conn (s : asess) : asess :=
  mkas (wanted s) (pc s) (cur s) (tr s) (conns s ++ [aconn0]) (closing s) (wc_done s) (wcl_done s) (queue s) (delivered s)
       (waiting s) (recvd s) (S (attempts s)) (pend s) (outcome s) (cancel_req s) (cst s) (ready s) (raised s).
(* DeferredQueue.get: an item is handed over at once if there is one, else when the next one is put *)
Definition tw_read (s : asess) : asess := serve_reads (do_read s).
Definition tstep (s : asess) (e : tev) : asess :=
  match e with
  | TConn => tw_conn s
  | TData k ch => serve_reads (do_data ident secret k ch s)
  | TLost k => tw_lost k s
  | TSub c => do_sub ident secret c s
  | TUnsub c => do_unsub ident secret c s
  | TPub c d => do_pub ident secret c d s
  | TRead => tw_read s
  end.
Definition trun (es : list tev) : asess := fold_left tstep es asess0.

Theorem tstep_A s e : A s -> A (tstep s e).
Proof.
  intros HA. destruct e; cbn [tstep].
  - destruct HA as [A1 A2 A3 A4]. constructor; cbn.
    + intros j c H. destruct (Nat.lt_ge_cases j (length (conns s))) as [L|L].
      * rewrite nth_error_app1 in H by exact L. eauto.
      * rewrite nth_error_app2 in H by exact L. destruct (j - length (conns s))%nat as [|[|]]; cbn in H; inversion H. reflexivity.
    + intros j H. destruct (A2 _ H) as (c0 & E & N). exists c0. split; [|exact N].
      rewrite nth_error_app1; [exact E|]. apply nth_error_Some. congruence.
    + exact A3.
    + intros j c Hj H t. destruct (A2 _ Hj) as (c0 & E & N).
      rewrite nth_error_app1 in H by (apply nth_error_Some; congruence). eauto.
  - apply (A_weaken (do_data ident secret k chunk s)); [reflexivity|reflexivity|left; reflexivity|apply (do_data_A ident secret ident_fits); exact HA].
  - unfold tw_lost. destruct (_ && _); [|exact HA].
    apply (A_weaken (modk k (fun c => mkac (cbuf c) (cout c) true true (caborted c) (cnonce c)) s));
      [reflexivity|reflexivity|right; reflexivity|].
    apply modk_keeps_A; [intros c; split; reflexivity|exact HA].
  - apply do_sub_A; assumption.
  - apply do_unsub_A; assumption.
  - apply do_pub_A; assumption.
  - apply (A_weaken s); [reflexivity|reflexivity|left; reflexivity|exact HA].
Qed.
Theorem tstep_Q s e : Q s -> Q (tstep s e).
Proof.
  intros H. destruct e; cbn [tstep].
  - eapply Q_of_qd; [|exact H]. reflexivity.
  - apply serve_reads_Q. apply do_data_Q. exact H.
  - unfold tw_lost. destruct (_ && _); [|exact H]. eapply Q_of_qd; [|exact H]. reflexivity.
  - apply do_sub_Q; exact H.
  - apply do_unsub_Q; exact H.
  - apply do_pub_Q; exact H.
  - apply serve_reads_Q. eapply Q_of_qd; [|exact H]. reflexivity.
Qed.
Theorem trun_A es : A (trun es).
Proof.
  unfold trun. assert (X : forall s, A s -> A (fold_left tstep es s)).
  { induction es as [|e es IH]; intros s H; cbn; [exact H|]. apply IH. apply tstep_A. exact H. }
  apply X. apply A0.
Qed.
Theorem trun_Q es : Q (trun es).
Proof.
  unfold trun. assert (X : forall s, Q s -> Q (fold_left tstep es s)).
  { induction es as [|e es IH]; intros s H; cbn; [exact H|]. apply IH. apply tstep_Q. exact H. }
  apply X. reflexivity.
Qed.
End Tw.
