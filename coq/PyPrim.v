(* PyPrim.v — the fragment of Python's dynamic semantics that harness/pytrans.py translates
   hpfeeds/protocol.py into (shallow embedding; definitions only).

   A Python value is a [val]; evaluating an expression either yields a value or raises ([res]).
   Methods of a class whose only attribute is [self.buf] run in the state-and-exception monad [M]
   (the state survives a raise, as in Python).  A primitive applied to operands outside the cases
   written out here raises [Unsupported] - never a normal-looking value - so that a change to the
   source that leaves the modelled fragment breaks the equivalence lemmas of ProtoGenEq.v instead of
   being silently mistranslated.

   A Python str is its UTF-8 encoding ([VStr s], with utf8_valid s); len() of a str counts code
   points (= non-continuation bytes of a valid encoding). *)
From Coq Require Import ZArith List Bool String.
From Coq Require Import Strings.Byte.
From HP Require Import Bytes Utf8 Sha1.
Import ListNotations.
Open Scope Z_scope.

Inductive val :=
| VNone
| VBool (b : bool)
| VInt (z : Z)
| VBytes (b : bytes)            (* bytes *)
| VBArr (b : bytes)             (* bytearray; mutation is rebinding of the one attribute that holds it *)
| VStr (s : bytes)              (* str, as its UTF-8 encoding *)
| VTuple (l : list val)
| VDict (kv : list (Z * val)).  (* dict literal with int keys *)

(* an exception: the class name and, for `raise` statements, the ordinal of the statement in its
   function (0-based, in source order), so that two raises of one class are told apart *)
Inductive exn := Exc (cls : string) (site : nat).
Definition TypeError := Exc "TypeError" 0.
Definition StructError := Exc "struct.error" 0.
Definition UnicodeDecodeError := Exc "UnicodeDecodeError" 0.
Definition AttributeError := Exc "AttributeError" 0.
Definition ValueError := Exc "ValueError" 0.
Definition Unsupported := Exc "UNSUPPORTED-BY-THE-TRANSLATION" 0.

Inductive res (A : Type) := Ok (a : A) | Raise (e : exn).
Arguments Ok {A} a.
Arguments Raise {A} e.

Definition bindR {A B} (m : res A) (f : A -> res B) : res B :=
  match m with Ok a => f a | Raise e => Raise e end.

(* state = the value of self.buf *)
Definition M (A : Type) := val -> res A * val.
Definition retM {A} (a : A) : M A := fun s => (Ok a, s).
Definition bindM {A B} (m : M A) (f : A -> M B) : M B :=
  fun s => match m s with (Ok a, s') => f a s' | (Raise e, s') => (Raise e, s') end.
Definition liftM {A} (r : res A) : M A := fun s => (r, s).
Definition raiseM {A} (e : exn) : M A := fun s => (Raise e, s).
Definition getbuf : M val := fun s => (Ok s, s).
Definition putbuf (v : val) : M val := fun _ => (Ok VNone, v).

(* ---- classes for isinstance ---- *)
Inductive pycls := Cstr | Cbytes | Cbytearray.
Definition py_isinstance (v : val) (c : pycls) : val :=
  VBool match v, c with
        | VStr _, Cstr => true
        | VBytes _, Cbytes => true
        | VBArr _, Cbytearray => true
        | _, _ => false
        end.

(* ---- truth, comparison, arithmetic ---- *)
Definition py_truth (v : val) : res bool :=
  match v with
  | VNone => Ok false
  | VBool b => Ok b
  | VInt z => Ok (negb (z =? 0))
  | VBytes b | VBArr b | VStr b => Ok (negb (Nat.eqb (List.length b) 0))
  | VTuple l => Ok (negb (Nat.eqb (List.length l) 0))
  | VDict l => Ok (negb (Nat.eqb (List.length l) 0))
  end.
Definition py_not (v : val) : res val := bindR (py_truth v) (fun b => Ok (VBool (negb b))).

Definition as_int (v : val) : option Z :=
  match v with VInt z => Some z | VBool true => Some 1 | VBool false => Some 0 | _ => None end.
Definition int_cmp (f : Z -> Z -> bool) (a b : val) : res val :=
  match as_int a, as_int b with
  | Some x, Some y => Ok (VBool (f x y))
  | _, _ => Raise Unsupported
  end.
Definition py_lt := int_cmp Z.ltb.
Definition py_gt := int_cmp Z.gtb.
Definition py_le := int_cmp Z.leb.
Definition py_ge := int_cmp Z.geb.
Definition py_eq := int_cmp Z.eqb.
Definition py_ne := int_cmp (fun x y => negb (x =? y)).

Definition py_add (a b : val) : res val :=
  match a, b with
  | VInt x, VInt y => Ok (VInt (x + y))
  | VBytes x, VBytes y | VBytes x, VBArr y => Ok (VBytes (x ++ y))
  | VBArr x, VBytes y | VBArr x, VBArr y => Ok (VBArr (x ++ y))
  | VStr x, VStr y => Ok (VStr (x ++ y))
  | VBytes _, VStr _ | VStr _, VBytes _ | VBArr _, VStr _ | VStr _, VBArr _
  | VInt _, VBytes _ | VBytes _, VInt _ | VInt _, VStr _ | VStr _, VInt _
  | VNone, _ | _, VNone => Raise TypeError
  | _, _ => Raise Unsupported
  end.
Definition py_sub (a b : val) : res val :=
  match a, b with VInt x, VInt y => Ok (VInt (x - y)) | _, _ => Raise Unsupported end.
Definition py_mul (a b : val) : res val :=
  match a, b with VInt x, VInt y => Ok (VInt (x * y)) | _, _ => Raise Unsupported end.
Definition py_pow (a b : val) : res val :=
  match a, b with
  | VInt x, VInt y => if 0 <=? y then Ok (VInt (x ^ y)) else Raise Unsupported
  | _, _ => Raise Unsupported end.

(* ---- sequences ---- *)
(* number of code points of a valid UTF-8 string = number of non-continuation bytes *)
Definition codepoints (s : bytes) : Z := zlen (filter (fun b => negb (cont b)) s).
Definition py_len (v : val) : res val :=
  match v with
  | VBytes b | VBArr b => Ok (VInt (zlen b))
  | VStr s => Ok (VInt (codepoints s))
  | VTuple l => Ok (VInt (zlen l))
  | VDict l => Ok (VInt (zlen l))
  | _ => Raise TypeError
  end.

(* Python's slice index normalisation for a sequence of length n *)
Definition norm_idx (n i : Z) : Z :=
  let j := if i <? 0 then i + n else i in Z.max 0 (Z.min j n).
Definition slice {A} (l : list A) (lo hi : option Z) : list A :=
  let n := zlen l in
  let a := match lo with Some i => norm_idx n i | None => 0 end in
  let b := match hi with Some i => norm_idx n i | None => n end in
  firstn (Z.to_nat (b - a)) (skipn (Z.to_nat a) l).
Definition idx_arg (v : option val) : res (option Z) :=
  match v with
  | None => Ok None
  | Some VNone => Ok None
  | Some (VInt z) => Ok (Some z)
  | Some _ => Raise Unsupported
  end.
(* x[lo:hi] *)
Definition py_slice (x : val) (lo hi : option val) : res val :=
  bindR (idx_arg lo) (fun a => bindR (idx_arg hi) (fun b =>
  match x with
  | VBytes l => Ok (VBytes (slice l a b))
  | VBArr l => Ok (VBArr (slice l a b))
  | _ => Raise Unsupported          (* str slices count code points: not needed, not modelled *)
  end)).
(* del x[lo:hi] on a bytearray: the new value *)
Definition py_delslice (x : val) (lo hi : option val) : res val :=
  bindR (idx_arg lo) (fun a => bindR (idx_arg hi) (fun b =>
  match x with
  | VBArr l =>
      let n := zlen l in
      let i := match a with Some i => norm_idx n i | None => 0 end in
      let j := match b with Some i => norm_idx n i | None => n end in
      Ok (VBArr (firstn (Z.to_nat i) l ++ skipn (Z.to_nat (Z.max i j)) l))
  | VBytes _ | VStr _ | VTuple _ => Raise TypeError
  | _ => Raise Unsupported
  end)).
(* bytearray.extend(data) : the new value *)
Definition py_extend (x data : val) : res val :=
  match x, data with
  | VBArr a, VBytes d | VBArr a, VBArr d => Ok (VBArr (a ++ d))
  | VBArr _, VStr _ => Raise TypeError
  | _, _ => Raise Unsupported
  end.
Definition py_ord (v : val) : res val :=
  match v with
  | VBytes [b] | VBArr [b] => Ok (VInt (bz b))
  | VBytes _ | VBArr _ => Raise TypeError
  | _ => Raise Unsupported
  end.
Definition py_bytes (v : val) : res val :=
  match v with
  | VBytes b | VBArr b => Ok (VBytes b)
  | VStr _ => Raise TypeError            (* bytes('..') without an encoding *)
  | _ => Raise Unsupported
  end.
Definition py_bytearray0 : val := VBArr [].
Definition py_tuple (l : list val) : val := VTuple l.
Definition py_untuple2 (v : val) : res (val * val) :=
  match v with
  | VTuple [a; b] => Ok (a, b)
  | VTuple _ => Raise ValueError
  | _ => Raise Unsupported
  end.

(* ---- str <-> bytes ---- *)
Definition py_encode_utf8 (v : val) : res val :=
  match v with
  | VStr s => Ok (VBytes s)
  | VBytes _ | VBArr _ | VInt _ | VNone => Raise AttributeError
  | _ => Raise Unsupported
  end.
Definition py_decode_utf8 (v : val) : res val :=
  match v with
  | VBytes b | VBArr b => if utf8_valid b then Ok (VStr b) else Raise UnicodeDecodeError
  | VStr _ | VInt _ | VNone => Raise AttributeError
  | _ => Raise Unsupported
  end.

(* ---- struct, for the format characters protocol.py uses ---- *)
Definition in_range (lo z hi : Z) : bool := (lo <=? z) && (z <=? hi).
Definition py_struct_pack (fmt : string) (args : list val) : res val :=
  if String.eqb fmt "!B" then
    match args with
    | [VInt z] => if in_range 0 z 255 then Ok (VBytes [zb z]) else Raise StructError
    | _ => Raise StructError
    end
  else if String.eqb fmt "!iB" then
    match args with
    | [VInt a; VInt b] =>
        if in_range (-2147483648) a 2147483647 && in_range 0 b 255
        then Ok (VBytes (be32 a ++ [zb b])) else Raise StructError
    | _ => Raise StructError
    end
  else Raise Unsupported.
Definition py_struct_unpack (fmt : string) (v : val) : res val :=
  if String.eqb fmt "!iB" then
    match v with
    | VBytes [b0; b1; b2; b3; o] | VBArr [b0; b1; b2; b3; o] =>
        Ok (VTuple [VInt (de32 b0 b1 b2 b3); VInt (bz o)])
    | VBytes _ | VBArr _ => Raise StructError
    | _ => Raise TypeError
    end
  else Raise Unsupported.

(* ---- hashlib.sha1(x).digest() ---- *)
Definition py_sha1_digest (v : val) : res val :=
  match v with
  | VBytes b | VBArr b => Ok (VBytes (sha1 b))
  | VStr _ => Raise TypeError
  | _ => Raise Unsupported
  end.

(* ---- dict.get(k, default) ---- *)
Fixpoint dict_get (kv : list (Z * val)) (k : Z) (d : val) : val :=
  match kv with [] => d | (k', v) :: t => if k =? k' then v else dict_get t k d end.
Definition py_dict_get (dct k d : val) : res val :=
  match dct, as_int k with
  | VDict kv, Some z => Ok (dict_get kv z d)
  | _, _ => Raise Unsupported
  end.
