(* Wire.v — executable model of hpfeeds/protocol.py (definitions only; lemmas are in WireFacts.v).

   Python                         | here
   -------------------------------+-----------------------------------------------
   Unpacker.ready / pop / unpack  | next   (one decision on the current buffer)
   "for op, data in unpacker"     | drain  (until StopIteration or an exception)
   Unpacker.feed + iteration      | feed
   msghdr, strpack8, msg*         | hdr, strpack8, msg*   (None = struct.error)
   strunpack8, read*              | strunpack8, read*     (None = the reader raises)
   hashsecret                     | hashsecret (Sha1.sha1)

   A Python str is its UTF-8 encoding (a byte list with utf8_valid = true). *)
From Coq Require Import ZArith List Bool.
From Coq Require Import Strings.Byte.
From HP Require Import Bytes Utf8 Sha1.
Import ListNotations.
Open Scope Z_scope.

(* ---- builders ---------------------------------------------------------------------------- *)
Definition hdr (op : Z) (body : bytes) : bytes := be32 (5 + zlen body) ++ zb op :: body.
Definition strpack8 (x : bytes) : option bytes :=
  if zlen x <=? 255 then Some (zb (zlen x) :: x) else None.
Definition hashsecret (rand secret : bytes) : bytes := sha1 (rand ++ secret).

Definition msginfo (name rand : bytes) : option bytes :=
  match strpack8 name with Some n => Some (hdr 1 (n ++ rand)) | None => None end.
Definition msgauth_digest (ident digest : bytes) : option bytes :=
  match strpack8 ident with Some n => Some (hdr 2 (n ++ digest)) | None => None end.
Definition msgauth (rand ident secret : bytes) : option bytes :=
  msgauth_digest ident (hashsecret rand secret).
Definition msgpublish (ident chan data : bytes) : option bytes :=
  match strpack8 ident, strpack8 chan with
  | Some i, Some c => Some (hdr 3 (i ++ c ++ data))
  | _, _ => None end.
Definition msgsubscribe (ident chan : bytes) : option bytes :=
  match strpack8 ident with Some i => Some (hdr 4 (i ++ chan)) | None => None end.
Definition msgunsubscribe (ident chan : bytes) : option bytes :=
  match strpack8 ident with Some i => Some (hdr 5 (i ++ chan)) | None => None end.
Definition msgerror (err : bytes) : option bytes := Some (hdr 0 err).

(* ---- readers ----------------------------------------------------------------------------- *)
(* strunpack8: ord(x[0:1]) raises on b''; the slice silently truncates; force_str decodes strictly *)
Definition strunpack8 (x : bytes) : option (bytes * bytes) :=
  match x with
  | [] => None
  | l :: t =>
      let n := Z.to_nat (bz l) in
      let s := firstn n t in
      if utf8_valid s then Some (s, skipn n t) else None
  end.
Definition readinfo (d : bytes) : option (bytes * bytes) := strunpack8 d.
Definition readauth (d : bytes) : option (bytes * bytes) := strunpack8 d.
Definition readsubscribe (d : bytes) : option (bytes * bytes) :=
  match strunpack8 d with
  | Some (i, rest) => if utf8_valid rest then Some (i, rest) else None
  | None => None end.
Definition readunsubscribe := readsubscribe.
Definition readpublish (d : bytes) : option (bytes * bytes * bytes) :=
  match strunpack8 d with
  | Some (i, rest) =>
      match strunpack8 rest with
      | Some (c, payload) => Some (i, c, payload)
      | None => None end
  | None => None end.
Definition readerror (d : bytes) : option bytes := if utf8_valid d then Some d else None.

(* ---- stream decoder ---------------------------------------------------------------------- *)
Section Decoder.
Variable limit : Z -> Z.     (* SIZES.get(opcode, MAXBUF) *)

Inductive status := NeedMore | Bad (code : Z) | Ready (op : Z) (body rest : bytes).
(* Bad 1 = ProtocolException('Unknown opcode'), Bad 2 = MessageTooBig, Bad 3 = length below the header *)

Definition next (buf : bytes) : status :=
  match buf with
  | b0 :: b1 :: b2 :: b3 :: o :: tl =>
      let ml := de32 b0 b1 b2 b3 in
      let op := bz o in
      if 5 <? op then Bad 1
      else if limit op <? ml then Bad 2
      else if ml <? 5 then Bad 3
      else if zlen buf <? ml then NeedMore
      else Ready op (firstn (Z.to_nat (ml - 5)) tl) (skipn (Z.to_nat (ml - 5)) tl)
  | _ => NeedMore
  end.

(* all complete frames, the residual buffer, and the error (None = StopIteration);
   Some (-1) is fuel exhaustion, excluded by WireFacts.drain_total *)
Fixpoint drain (fuel : nat) (buf : bytes) : list (Z * bytes) * bytes * option Z :=
  match fuel with
  | O => ([], buf, Some (-1))
  | S f =>
      match next buf with
      | NeedMore => ([], buf, None)
      | Bad c => ([], buf, Some c)
      | Ready op body rest =>
          let '(fs, r, e) := drain f rest in ((op, body) :: fs, r, e)
      end
  end.
Definition parse (buf : bytes) := drain (S (length buf)) buf.

(* one Unpacker.feed(chunk) followed by iteration to exhaustion *)
Definition feed (buf chunk : bytes) := parse (buf ++ chunk).

(* the whole life of an Unpacker: frames yielded so far, buffer, last error *)
Definition ustate := (list (Z * bytes) * bytes * option Z)%type.
Definition ustate0 : ustate := ([], [], None).
Definition ufeed (u : ustate) (chunk : bytes) : ustate :=
  let '(fs, buf, _) := u in
  let '(fs', buf', e') := feed buf chunk in (fs ++ fs', buf', e').
Definition feed_all (chunks : list bytes) : ustate := fold_left ufeed chunks ustate0.

Definition enc (f : Z * bytes) : bytes := hdr (fst f) (snd f).
Definition wf_frame (f : Z * bytes) : Prop :=
  0 <= fst f <= 5 /\ 5 + zlen (snd f) <= limit (fst f) /\ 5 + zlen (snd f) < 2147483648.
End Decoder.
