(* BrokerBenign.v — C10, "a well-behaved request never gets anybody disconnected": a permitted SUBSCRIBE, UNSUBSCRIBE or
   PUBLISH is accepted and leaves the closing flag of EVERY connection as it was (the broker may reap, inside
   Server.publish, a subscriber that was ALREADY closing; it never starts closing anyone). *)
From Coq Require Import ZArith List Bool Arith Lia.
From HP Require Import Bytes Sha1 Wire ParamsOK Broker BrokerSpec BrokerLemmas BrokerInv BrokerStep BrokerTrace BrokerEvo BrokerLocal BrokerProps.
Import ListNotations.

Definition sameclosing (s s' : state) : Prop := forall q, closing (conns s' q) = closing (conns s q).
Lemma sc_refl s : sameclosing s s. Proof. intros q. reflexivity. Qed.
Lemma sc_trans a b c : sameclosing a b -> sameclosing b c -> sameclosing a c.
Proof. intros X Y q. rewrite Y, X. reflexivity. Qed.
Lemma modc_sc q f s : (forall c, closing (f c) = closing c) -> sameclosing s (modc q f s).
Proof. intros H q'. cbn. unfold upd. destruct (Nat.eqb_spec q' q); subst; auto. Qed.
Lemma wr_sc q f s : sameclosing s (wr q f s).
Proof. unfold wr. destruct (_ || _); [apply sc_refl|]. apply modc_sc. reflexivity. Qed.
Lemma sub_sc q c s : sameclosing s (sub q c s).
Proof. unfold sub, sub_raw. intros q'. destruct (memc _ _); cbn; [reflexivity|]. unfold upd. destruct (Nat.eqb_spec q' q); subst; reflexivity. Qed.
Lemma unsub_raw_sc q c s : sameclosing s (unsub_raw q c s).
Proof. unfold unsub_raw. destruct (memc _ _); cbn; [|apply sc_refl]. intros q'. cbn. unfold upd. destruct (Nat.eqb_spec q' q); subst; reflexivity. Qed.
Lemma unsub_sc q c s : sameclosing s (unsub q c s).
Proof. unfold unsub. intros q'. cbn. apply unsub_raw_sc. Qed.
Lemma lostp_sc q s : sameclosing s (lostp q s).
Proof.
  unfold lostp. intros q'. cbn. unfold upd.
  assert (X : forall l s0, sameclosing s0 (fold_left (fun s c => unsub_raw q c s) l s0)).
  { induction l as [|c l IH]; intros s0; cbn; [apply sc_refl|]. eapply sc_trans; [apply unsub_raw_sc|apply IH]. }
  destruct (Nat.eqb_spec q' q); subst; cbn; apply X.
Qed.
Lemma deliver_sc i c d r dest : sameclosing (st r) (st (deliver i c d r dest)).
Proof.
  unfold deliver. destruct r as [s|s|s]; cbn; try apply sc_refl.
  destruct (closing _); [destruct (copen _); cbn; [apply lostp_sc|apply sc_refl]|cbn; apply wr_sc].
Qed.
Lemma publish_sc p c d s : sameclosing s (st (publish p c d s)).
Proof.
  unfold publish. assert (X : forall l r, sameclosing (st r) (st (fold_left (deliver (akl (conns s p)) c d) l r))).
  { induction l as [|x l IH]; intros r; cbn; [apply sc_refl|]. eapply sc_trans; [apply deliver_sc|apply IH]. }
  intros q. rewrite (X _ (Ok _) q). reflexivity.
Qed.

Section Benign.
Variable bname : bytes.
Variable store : ident -> lookup.
Variable async_store : bool.
Notation Good := (Good (srow store) async_store).

(* a permitted SUBSCRIBE is accepted and closes nobody *)
Theorem permitted_subscribe q c s : In c (subchans (conns s q)) -> copen (conns s q) = true ->
  on_subscribe q c s = Ok (sub q c s) /\ sameclosing s (sub q c s).
Proof.
  intros Hc Ho. split; [|apply sub_sc]. unfold on_subscribe. apply memc_In in Hc. rewrite Hc, Ho. reflexivity.
Qed.
(* any UNSUBSCRIBE of an open connection is accepted and closes nobody *)
Theorem any_unsubscribe q c s : copen (conns s q) = true ->
  on_unsubscribe q c s = Ok (unsub q c s) /\ sameclosing s (unsub q c s).
Proof. intros Ho. split; [|apply unsub_sc]. unfold on_unsubscribe. rewrite Ho. reflexivity. Qed.
(* a PUBLISH under the own identity on a permitted channel is fanned out (no exception) and closes nobody *)
Theorem permitted_publish q me c d s : Good s ->
  ak (conns s q) = Some me -> In c (pubchans (conns s q)) -> copen (conns s q) = true ->
  exists s', on_publish q me c d s = Ok s' /\ sameclosing s s' /\ Good s'.
Proof.
  intros G Hak Hc Ho. unfold on_publish. rewrite Hak, bytes_eqb_refl. apply memc_In in Hc. rewrite Hc, Ho. cbn [negb].
  destruct (ak_some_link store async_store s q me G Hak) as (r & Hla & Hp & _).
  apply memc_In in Hc. rewrite Hp in Hc.
  destruct (publish_good (srow store) async_store q c d s me r G Hla Hc) as (s' & Es & Gs).
  exists s'. split; [exact Es|]. split; [|exact Gs].
  pose proof (publish_sc q c d s) as X. rewrite Es in X. exact X.
Qed.
End Benign.
