(* AioShape.v — C13, asyncio session: the control state of the session, in every reachable state in which close() has not
   been called, is one of five shapes; with that, close() is proved to complete from EVERY reachable state (the two
   close theorems of AioClose.v cover all five shapes), with no connection attempt afterwards. *)
From Coq Require Import ZArith List Bool Arith Lia.
From Coq Require Import Strings.Byte.
From HP Require Import Bytes Utf8 Sha1 Wire WireFacts WireRoundtrip ParamsOK AioSession AioFacts AioClose.
Import ListNotations.

Arguments next : simpl never.
Arguments readinfo : simpl never.
Arguments readpublish : simpl never.
Arguments readauth : simpl never.
Arguments readsubscribe : simpl never.
Arguments readunsubscribe : simpl never.
Arguments msgauth : simpl never.
Arguments Z.eqb : simpl never.

(* ---- what the data-path events leave alone ---- *)
Definition ctlv (s : asess) := (pc s, pend s, outcome s, ready s, tr s, wcl_done s, cancel_req s, cst s, closing s).
Definition lostv (s : asess) : list bool := map clost (conns s).
Definition same (s s' : asess) : Prop := ctlv s' = ctlv s /\ lostv s' = lostv s.
Lemma same_refl s : same s s. Proof. split; reflexivity. Qed.
Lemma same_trans a b c : same a b -> same b c -> same a c.
Proof. intros [A1 A2] [B1 B2]. split; congruence. Qed.

Lemma upd_conn_lost k f : (forall c, clost (f c) = clost c) -> forall l, map clost (upd_conn k f l) = map clost l.
Proof. intros H. induction k as [|k IH]; intros [|c l]; cbn; try reflexivity; [rewrite H; reflexivity|rewrite IH; reflexivity]. Qed.
Lemma modk_same k f s : (forall c, clost (f c) = clost c) -> same s (modk k f s).
Proof. intros H. split; [reflexivity|]. unfold lostv. cbn. apply upd_conn_lost. exact H. Qed.

Section Sh.
Variable ident secret : bytes.
Notation astep := (astep ident secret).
Notation arun := (arun ident secret).
Notation wrk := (wrk ident secret).

Lemma wrk_same k f s : same s (wrk k f s).
Proof. unfold AioSession.wrk. destruct (render ident secret f); [|apply same_refl]. apply modk_same. reflexivity. Qed.
Lemma fold_wrk_same k l : forall s, same s (fold_left (fun st t => wrk k (FSub t) st) l s).
Proof. induction l as [|c l IH]; intros s; cbn; [apply same_refl|]. eapply same_trans; [apply wrk_same|apply IH]. Qed.
Lemma closek_same k s : same s (closek k s).
Proof. apply modk_same. reflexivity. Qed.
Lemma setbuf_same k b s : same s (setbuf k b s).
Proof. apply modk_same. reflexivity. Qed.

Lemma on_frame_same k op body s : same s (fst (on_frame ident secret k op body s)).
Proof.
  unfold on_frame.
  destruct (Z.eqb op 1).
  { destruct (readinfo body) as [[nm rand]|]; [|apply same_refl].
    destruct (msgauth rand ident secret); [|apply same_refl].
    match goal with |- context [fold_left ?f ?l ?x] => pose proof (fold_wrk_same k l x) as F; set (s3 := fold_left f l x) in * end.
    assert (S2 : same s s3).
    { eapply same_trans; [|exact F]. split; [reflexivity|]. unfold lostv. cbn. apply upd_conn_lost. reflexivity. }
    destruct (wc_done s3); cbn [fst]; [exact S2|]. eapply same_trans; [exact S2|]. split; reflexivity. }
  destruct (Z.eqb op 3). { destruct (readpublish body); cbn [fst]; [split; reflexivity|apply same_refl]. }
  destruct (Z.eqb op 0). { apply same_refl. }
  destruct (Z.eqb op 2). { destruct (readauth body); cbn [fst]; [apply closek_same|apply same_refl]. }
  destruct (Z.eqb op 4). { destruct (readsubscribe body); cbn [fst]; [apply closek_same|apply same_refl]. }
  destruct (Z.eqb op 5). { destruct (readunsubscribe body); cbn [fst]; [apply closek_same|apply same_refl]. }
  apply closek_same.
Qed.
Lemma drainc_same fuel k : forall s, same s (fst (drainc ident secret fuel k s)).
Proof.
  induction fuel as [|f IH]; intros s; cbn [drainc]; [apply same_refl|].
  destruct (next limitP (cbuf (getc s k))); cbn [fst]; [apply same_refl|apply closek_same|].
  pose proof (on_frame_same k op body (setbuf k rest s)) as F.
  destruct (on_frame ident secret k op body (setbuf k rest s)) as [s1 exn]. cbn [fst] in F.
  assert (S1 : same s s1) by (eapply same_trans; [apply setbuf_same|exact F]).
  destruct exn; cbn [fst]; [exact S1|]. eapply same_trans; [exact S1|apply IH].
Qed.
Lemma do_data_same k ch s : same s (do_data ident secret k ch s).
Proof.
  unfold do_data. destruct (_ && _); [|apply same_refl].
  match goal with |- context [drainc ident secret ?f k ?x] => pose proof (drainc_same f k x) as F; destruct (drainc ident secret f k x) as [s1 exn] end.
  cbn [fst] in F. assert (S1 : same s s1) by (eapply same_trans; [apply setbuf_same|exact F]).
  destruct exn; [|exact S1]. eapply same_trans; [exact S1|]. split; [reflexivity|]. unfold lostv. cbn. apply upd_conn_lost. reflexivity.
Qed.
Lemma do_sub_same c s : same s (do_sub ident secret c s).
Proof. unfold do_sub. destruct (memb c (wanted s)); [apply same_refl|]. cbn. destruct (cur s); [|split; reflexivity].
  eapply same_trans; [|apply wrk_same]. split; reflexivity. Qed.
Lemma do_unsub_same c s : same s (do_unsub ident secret c s).
Proof. unfold do_unsub. destruct (memb c (wanted s)); [|apply same_refl]. cbn. destruct (cur s); [|split; reflexivity].
  eapply same_trans; [|apply wrk_same]. split; reflexivity. Qed.
Lemma do_pub_same c d s : same s (do_pub ident secret c d s).
Proof. unfold do_pub. destruct (cur s); [apply wrk_same|apply same_refl]. Qed.

(* ---- the five shapes ---- *)
Definition onlylive (s : asess) : Prop :=
  forall k, (k < length (conns s))%nat -> clost (getc s k) = false -> tr s = Some k.
Definition shape (s : asess) : Prop :=
    (pc s = PNotStarted /\ pend s = false /\ ready s = [TR] /\ tr s = None /\ wcl_done s = false /\ wc_done s = false /\ cur s = None)
 \/ (pc s = PConnecting /\ pend s = true /\ ready s = [] /\ tr s = None /\ wcl_done s = false /\ wc_done s = false /\ cur s = None)
 \/ (pc s = PBackoff 1 /\ pend s = false /\ ready s = [] /\ tr s = None /\ wcl_done s = false /\ wc_done s = false /\ cur s = None)
 \/ (exists k, pc s = PWaitClosed /\ pend s = false /\ ready s = [] /\ tr s = Some k /\ (k < length (conns s))%nat /\
               clost (getc s k) = false /\ wcl_done s = false)
 \/ (pc s = PWaitClosed /\ pend s = false /\ ready s = [TR] /\ tr s = None /\ wcl_done s = true).
Definition Sh (s : asess) : Prop :=
  cst s = CNone -> closing s = false /\ cancel_req s = false /\ outcome s = None /\ onlylive s /\ shape s.

Lemma clost_getc_lostv s k : clost (getc s k) = nth k (lostv s) false.
Proof. unfold getc, lostv. change false with (clost aconn0). symmetry. apply map_nth. Qed.
Lemma lostv_length s : length (lostv s) = length (conns s). Proof. apply map_length. Qed.

(* application calls also leave session.protocol and when_connected alone *)
Definition same2 (s s' : asess) : Prop := same s s' /\ cur s' = cur s /\ wc_done s' = wc_done s.
Lemma wrk_same2 k f s : same2 s (wrk k f s).
Proof. split; [apply wrk_same|]. unfold AioSession.wrk. destruct (render ident secret f); split; reflexivity. Qed.
Lemma do_sub_same2 c s : same2 s (do_sub ident secret c s).
Proof.
  split; [apply do_sub_same|]. unfold do_sub. destruct (memb c (wanted s)); [split; reflexivity|]. cbn.
  destruct (cur s) as [k|] eqn:E; [|split; [exact E|reflexivity]].
  destruct (wrk_same2 k (FSub c) (setwanted (c :: wanted s) s)) as (_ & A & B). rewrite A, B. cbn. auto.
Qed.
Lemma do_unsub_same2 c s : same2 s (do_unsub ident secret c s).
Proof.
  split; [apply do_unsub_same|]. unfold do_unsub. destruct (memb c (wanted s)); [|split; reflexivity]. cbn.
  destruct (cur s) as [k|] eqn:E; [|split; [exact E|reflexivity]].
  destruct (wrk_same2 k (FUnsub c) (setwanted (rmb c (wanted s)) s)) as (_ & A & B). rewrite A, B. cbn. auto.
Qed.
Lemma do_pub_same2 c d s : same2 s (do_pub ident secret c d s).
Proof. unfold do_pub. destruct (cur s) as [k|] eqn:E; [apply wrk_same2|]. split; [apply same_refl|split; reflexivity]. Qed.

Lemma same2_Sh s s' : same2 s s' -> Sh s -> Sh s'.
Proof.
  intros ([Hc Hl] & Hcur & Hwc) H. unfold ctlv in Hc. injection Hc. intros E9 E8 E7 E6 E5 E4 E3 E2 E1.
  assert (Hlen : length (conns s') = length (conns s)) by (rewrite <- !lostv_length, Hl; reflexivity).
  assert (Hlost : forall k, clost (getc s' k) = clost (getc s k)) by (intros k; rewrite !clost_getc_lostv, Hl; reflexivity).
  intros Hcst. rewrite E8 in Hcst. destruct (H Hcst) as (A & B & C & D & E).
  repeat split; try congruence.
  - intros k Hk Hf. rewrite E5. apply D; [rewrite <- Hlen; exact Hk|rewrite <- Hlost; exact Hf].
  - unfold shape in *. rewrite E1, E2, E4, E5, E6, Hlen, Hcur, Hwc.
    destruct E as [E|[E|[E|[(k & E)|E]]]]; [left|right; left|right; right; left|right; right; right; left; exists k|right; right; right; right]; try exact E.
    rewrite Hlost. exact E.
Qed.

(* bytes can only arrive on a connection that is neither lost nor closed by the client *)
Lemma data_noop k ch s : (forall j, (j < length (conns s))%nat -> clost (getc s j) = true) -> do_data ident secret k ch s = s.
Proof.
  intros H. unfold do_data. destruct (k <? length (conns s))%nat eqn:E; [|reflexivity].
  apply Nat.ltb_lt in E. rewrite (H k E). rewrite andb_false_r. reflexivity.
Qed.

Lemma cst_sticky s e : cst s <> CNone -> cst (astep s e) <> CNone.
Proof.
  intros H.
  assert (RL : forall f x, cst x <> CNone -> cst (run_loop f x) <> CNone).
  { induction f as [|f IH]; intros x Hx; cbn [run_loop]; [exact Hx|]. destruct (ready x) as [|[|] t]; [exact Hx| |].
    - apply IH. unfold run_reconnect, loop_top, pop_ready. cbn.
      destruct (cancel_req x); [destruct (pc x); exact Hx|].
      destruct (pc x); cbn; try exact Hx; try (destruct (closing x); exact Hx). destruct (outcome x) as [[|]|]; exact Hx.
    - apply IH. unfold run_close, pop_ready. cbn. destruct (cst x); try congruence; try exact Hx.
      + destruct (tr x); cbn; discriminate.
      + destruct (wcl_done x); cbn; [discriminate|exact Hx]. }
  assert (ID : forall x, cst x <> CNone -> cst (do_idle x) <> CNone)
    by (intros x Hx; unfold do_idle; change (cst (serve_reads (run_loop 8 x))) with (cst (run_loop 8 x)); apply RL; exact Hx).
  destruct e; cbn [AioSession.astep].
  - apply ID; exact H.
  - unfold resolve. destruct (_ && _); [apply ID; cbn; exact H|exact H].
  - unfold resolve. destruct (_ && _); [apply ID; cbn; exact H|exact H].
  - unfold do_adv. pose proof (ID s H) as H0. destruct (pc (do_idle s)); try exact H0.
    destruct (_ <=? _)%nat; [apply ID; cbn; exact H0|cbn; exact H0].
  - destruct (do_data_same k chunk s) as [E _]. unfold ctlv in E. injection E. intros. congruence.
  - unfold do_lost. destruct (_ && _); [|exact H]. cbn. destruct (wcl_done s); cbn; exact H.
  - destruct (do_sub_same c s) as [E _]. unfold ctlv in E. injection E. intros. congruence.
  - destruct (do_unsub_same c s) as [E _]. unfold ctlv in E. injection E. intros. congruence.
  - destruct (do_pub_same c d s) as [E _]. unfold ctlv in E. injection E. intros. congruence.
  - exact H.
  - unfold do_close. destruct (cst s) eqn:Ec; [congruence| | |]; rewrite Ec; discriminate.
Qed.

Ltac pick := first
  [ solve [left; repeat split; eauto]
  | solve [right; left; repeat split; eauto]
  | solve [right; right; left; repeat split; eauto]
  | solve [right; right; right; left; eexists; repeat split; eauto]
  | solve [right; right; right; right; repeat split; eauto] ].
Ltac shapes Hsh Hk Hl :=
  destruct Hsh as [(-> & -> & -> & -> & -> & -> & ->)|[(-> & -> & -> & -> & -> & -> & ->)|[(-> & -> & -> & -> & -> & -> & ->)|
                   [(k & -> & -> & -> & -> & Hk & Hl & ->)|(-> & -> & -> & -> & ->)]]]].

Lemma nth_upd_other k f : forall l j, j <> k -> nth j (upd_conn k f l) aconn0 = nth j l aconn0.
Proof.
  induction k as [|k IH]; intros [|c l] j N; cbn; try reflexivity.
  - destruct j; [congruence|reflexivity].
  - destruct j; [reflexivity|]. apply IH. congruence.
Qed.

(* the loop runs: NotStarted and "loss just reported" dial, everything else waits *)
Lemma idle_Sh s : cst s = CNone -> Sh s -> Sh (do_idle s).
Proof.
  intros Ec H. destruct (H Ec) as (Hcl & Hcr & Hout & Hlive & Hsh).
  destruct s as [w p cu t cs cl wc wcl q dl wt rc at_ pe oc cr cst_ rd ra].
  cbn in Ec, Hcl, Hcr, Hout. subst cst_ cl cr oc. unfold onlylive in Hlive. cbn in Hlive. unfold shape in Hsh. cbn in Hsh.
  shapes Hsh Hk Hl;
    intros _; unfold Sh, onlylive, shape; cbn; (split; [reflexivity|]); (split; [reflexivity|]); (split; [reflexivity|]); (split; [exact Hlive|]); pick.
Qed.
Lemma idle_cst s : cst s = CNone -> Sh s -> cst (do_idle s) = CNone.
Proof.
  intros Ec H. destruct (H Ec) as (Hcl & Hcr & Hout & Hlive & Hsh).
  destruct s as [w p cu t cs cl wc wcl q dl wt rc at_ pe oc cr cst_ rd ra].
  cbn in Ec, Hcl, Hcr, Hout. subst cst_ cl cr oc. unfold shape in Hsh. cbn in Hsh.
  shapes Hsh Hk Hl; reflexivity.
Qed.

Lemma resolve_Sh ok s : cst s = CNone -> Sh s -> Sh (resolve ok s).
Proof.
  intros Ec H. destruct (H Ec) as (Hcl & Hcr & Hout & Hlive & Hsh).
  destruct s as [w p cu t cs cl wc wcl q dl wt rc at_ pe oc cr cst_ rd ra].
  cbn in Ec, Hcl, Hcr, Hout. subst cst_ cl cr oc. unfold onlylive in Hlive. cbn in Hlive. unfold shape in Hsh. cbn in Hsh.
  shapes Hsh Hk Hl; try exact H.
  destruct ok; intros _; unfold Sh, onlylive, shape; cbn; (split; [reflexivity|]); (split; [reflexivity|]); (split; [reflexivity|]).
  - split.
    + intros k Hk Hf. rewrite app_length in Hk. cbn in Hk.
      destruct (Nat.eq_dec k (length cs)) as [->|N]; [reflexivity|].
      unfold getc in Hf. cbn in Hf. rewrite app_nth1 in Hf by lia.
      specialize (Hlive k ltac:(lia) Hf). discriminate.
    + right; right; right; left. exists (length cs). repeat split; auto.
      * rewrite app_length. cbn. lia.
      * unfold getc. cbn. rewrite app_nth2 by lia. rewrite Nat.sub_diag. reflexivity.
  - split; [exact Hlive|pick].
Qed.

Lemma adv_Sh n s : cst s = CNone -> Sh s -> Sh (do_adv n s).
Proof.
  intros Ec H. pose proof (idle_Sh s Ec H) as H0. pose proof (idle_cst s Ec H) as Ec0. unfold do_adv.
  set (s0 := do_idle s) in *. clearbody s0. clear H Ec s.
  destruct (H0 Ec0) as (Hcl & Hcr & Hout & Hlive & Hsh).
  destruct s0 as [w p cu t cs cl wc wcl q dl wt rc at_ pe oc cr cst_ rd ra].
  cbn in Ec0, Hcl, Hcr, Hout. subst cst_ cl cr oc. unfold onlylive in Hlive. cbn in Hlive. unfold shape in Hsh. cbn in Hsh.
  shapes Hsh Hk Hl; try exact H0.
  cbn [pc]. destruct n as [|n]; cbn [Nat.leb]; intros _; unfold Sh, onlylive, shape; cbn;
    (split; [reflexivity|]); (split; [reflexivity|]); (split; [reflexivity|]); (split; [exact Hlive|]); pick.
Qed.

Lemma lost_Sh k s : cst s = CNone -> Sh s -> Sh (do_lost k s).
Proof.
  intros Ec H. destruct (H Ec) as (Hcl & Hcr & Hout & Hlive & Hsh).
  unfold do_lost. destruct ((k <? length (conns s))%nat && negb (clost (getc s k))) eqn:Eg; [|exact H].
  apply andb_true_iff in Eg. destruct Eg as [Eg1 Eg2]. apply Nat.ltb_lt in Eg1. apply negb_true_iff in Eg2.
  pose proof (Hlive k Eg1 Eg2) as Htr.
  destruct s as [w p cu t cs cl wc wcl q dl wt rc at_ pe oc cr cst_ rd ra].
  cbn in Ec, Hcl, Hcr, Hout, Htr, Eg1. subst cst_ cl cr oc t. unfold onlylive in Hlive. cbn in Hlive. unfold shape in Hsh. cbn in Hsh.
  destruct Hsh as [(_ & _ & _ & X & _)|[(_ & _ & _ & X & _)|[(_ & _ & _ & X & _)|[(k' & -> & -> & -> & X & Hk & Hl & ->)|(_ & _ & _ & X & _)]]]];
    try discriminate.
  inversion X; subst k'. clear X.
  intros _. unfold Sh, onlylive, shape. cbn. (split; [reflexivity|]); (split; [reflexivity|]); (split; [reflexivity|]). split.
  - intros j Hj Hf. exfalso. rewrite upd_conn_length in Hj. unfold getc in Hf. cbn in Hf.
    destruct (Nat.eq_dec j k) as [->|N].
    + rewrite (nth_upd_same ident k _ cs Eg1) in Hf. cbn in Hf. discriminate.
    + rewrite (nth_upd_other k _ cs j N) in Hf. specialize (Hlive j Hj Hf). congruence.
  - pick.
Qed.

Lemma data_Sh k ch s : cst s = CNone -> Sh s -> Sh (do_data ident secret k ch s).
Proof.
  intros Ec H. destruct (H Ec) as (Hcl & Hcr & Hout & Hlive & Hsh).
  assert (AllLost : tr s = None -> forall j, (j < length (conns s))%nat -> clost (getc s j) = true).
  { intros Ht j Hj. destruct (clost (getc s j)) eqn:E; [reflexivity|]. specialize (Hlive j Hj E). congruence. }
  destruct Hsh as [(A1 & A2 & A3 & A4 & A5)|[(A1 & A2 & A3 & A4 & A5)|[(A1 & A2 & A3 & A4 & A5)|[(k' & A)|(A1 & A2 & A3 & A4 & A5)]]]];
    try (rewrite (data_noop k ch s (AllLost A4)); exact H).
  (* connected: the control state and the lost flags are untouched; session.protocol / when_connected are free here *)
  destruct (do_data_same k ch s) as [Hc Hl]. unfold ctlv in Hc. injection Hc. intros E9 E8 E7 E6 E5 E4 E3 E2 E1.
  set (s' := do_data ident secret k ch s) in *.
  assert (Hlen : length (conns s') = length (conns s)) by (rewrite <- !lostv_length, Hl; reflexivity).
  assert (Hlost : forall j, clost (getc s' j) = clost (getc s j)) by (intros j; rewrite !clost_getc_lostv, Hl; reflexivity).
  intros _. repeat split; try congruence.
  - intros j Hj Hf. rewrite E5. apply Hlive; [rewrite <- Hlen; exact Hj|rewrite <- Hlost; exact Hf].
  - right; right; right; left. exists k'. rewrite E1, E2, E4, E5, E6, Hlen, Hlost. exact A.
Qed.

Theorem step_Sh s e : Sh s -> Sh (astep s e).
Proof.
  intros H. destruct (cst s) eqn:Ec.
  2-4: (intros Hc; exfalso; eapply (cst_sticky s e); [rewrite Ec; discriminate|exact Hc]).
  destruct e; cbn [AioSession.astep].
  - apply idle_Sh; assumption.
  - apply resolve_Sh; assumption.
  - apply resolve_Sh; assumption.
  - apply adv_Sh; assumption.
  - apply data_Sh; assumption.
  - apply lost_Sh; assumption.
  - eapply same2_Sh; [apply do_sub_same2|exact H].
  - eapply same2_Sh; [apply do_unsub_same2|exact H].
  - eapply same2_Sh; [apply do_pub_same2|exact H].
  - eapply same2_Sh; [|exact H]. split; [split; reflexivity|split; reflexivity].
  - intros Hc. unfold do_close in Hc. rewrite Ec in Hc. cbn in Hc. discriminate.
Qed.

Theorem run_Sh es : Sh (arun es).
Proof.
  unfold AioSession.arun. assert (X : forall s, Sh s -> Sh (fold_left astep es s)).
  { induction es as [|e es IH]; intros s H; cbn; [exact H|]. apply IH. apply step_Sh. exact H. }
  apply X. intros _. unfold onlylive, shape. cbn. split; [reflexivity|]. split; [reflexivity|]. split; [reflexivity|]. split; [intros k Hk; lia|pick].
Qed.

(* C13: close() completes from EVERY reachable state in which it has not been called yet.  Not connected (about to
   start, connecting, backing off, loss just reported): at the next turn of the loop, and the reconnect task is finished.
   Connected (before or after OP_INFO, also when the protocol has already closed the transport): the transport is
   closed, and when its loss is reported close() returns, the reconnect task is finished and no attempt was made. *)
Theorem close_always_completes es :
  let s := arun es in
  cst s = CNone ->
  match tr s with
  | None =>
      let s' := astep (astep s AClose) AIdle in
      cst s' = CDone /\ finished s' /\ closing s' = true
  | Some k =>
      let s1 := astep (astep s AClose) AIdle in
      let s2 := astep (astep s1 (ALost k)) AIdle in
      cclosing (getc s1 k) = true /\ cst s2 = CDone /\ finished s2 /\ attempts s2 = attempts s
  end.
Proof.
  cbv zeta. intros Ec. destruct (run_Sh es Ec) as (Hcl & Hcr & Hout & Hlive & Hsh).
  pose proof (run_P1 ident secret es) as Hp1.
  destruct Hsh as [(A1 & A2 & A3 & A4 & A5)|[(A1 & A2 & A3 & A4 & A5)|[(A1 & A2 & A3 & A4 & A5)|[(k & A1 & A2 & A3 & A4 & A5 & A6 & A7)|(A1 & A2 & A3 & A4 & A5)]]]];
    rewrite A4.
  - apply (close_not_connected ident secret); auto.
  - apply (close_not_connected ident secret); auto.
  - apply (close_not_connected ident secret); auto.
  - apply (close_connected ident secret); auto.
  - apply (close_not_connected ident secret); auto.
Qed.

(* C13: from EVERY reachable state in which close() has not been called, as soon as the environment cooperates - the
   current connection (if any) is reported lost, the loop runs / the back-off second passes, the next attempt is
   accepted and the broker's OP_INFO arrives - the session is on a fresh connection whose output is OP_AUTH for that
   nonce followed by OP_SUBSCRIBE for every wanted topic.  [recover_events s] is that cooperation, at most 3 events. *)
Definition recover_events (s : asess) : list aev :=
  match tr s with
  | Some k => [ALost k; AIdle; AOk]
  | None =>
      match pc s with
      | PNotStarted => [AIdle; AOk]
      | PConnecting => [AOk]
      | PBackoff _ => [AAdv 1; AOk]
      | PWaitClosed => [AIdle; AOk]
      | PDone => []
      end
  end.
Hypothesis ident_fits : (zlen ident <= 255)%Z.

Theorem recovers_always es name nonce :
  let s := arun es in
  cst s = CNone -> wf_str name -> (zlen nonce <= 20)%Z ->
  exists fr, msginfo name nonce = Some fr /\
    let k := length (conns s) in
    let s' := astep (fold_left astep (recover_events s) s) (AData k fr) in
    ready_on s' k nonce (wanted s).
Proof.
  cbv zeta. intros Ec Hname Hnonce. destruct (run_Sh es Ec) as (Hcl & Hcr & Hout & Hlive & Hsh).
  set (s := arun es) in *. clearbody s. unfold recover_events.
  destruct Hsh as [(A1 & A2 & A3 & A4 & A5 & A6 & A7)|[(A1 & A2 & A3 & A4 & A5 & A6 & A7)|[(A1 & A2 & A3 & A4 & A5 & A6 & A7)|
                   [(k & A1 & A2 & A3 & A4 & A5 & A6 & A7)|(A1 & A2 & A3 & A4 & A5)]]]]; rewrite A4; try rewrite A1; cbn [fold_left].
  - (* not started: one turn of the loop dials *)
    assert (C : connecting (astep s AIdle) /\ conns (astep s AIdle) = conns s /\ wanted (astep s AIdle) = wanted s).
    { destruct s as [w p cu t cs cl wc wcl q dl wt rc at_ pe oc cr cst_ rd ra]. cbn in *. subst. unfold connecting. cbn. repeat split; reflexivity. }
    destruct C as (C & Cc & Cw).
    destruct (recover_from_connecting ident secret ident_fits _ name nonce C Hname Hnonce) as (fr & Efr & R & _).
    exists fr. split; [exact Efr|]. rewrite Cc, Cw in R. exact R.
  - assert (C : connecting s) by (unfold connecting; repeat split; assumption).
    destruct (recover_from_connecting ident secret ident_fits _ name nonce C Hname Hnonce) as (fr & Efr & R & _).
    exists fr. split; [exact Efr|exact R].
  - destruct (recovers_after_refusal ident secret ident_fits s name nonce A1 A3 Hcl Hcr A6 A7 Hname Hnonce) as (fr & Efr & R & _).
    exists fr. split; [exact Efr|exact R].
  - destruct (recovers_from_connected ident secret ident_fits s k name nonce A1 A4 A7 A3 Hcl Hcr Ec A5 A6 Hname Hnonce) as (fr & Efr & R & _).
    exists fr. split; [exact Efr|exact R].
  - destruct (recovers_after_loss ident secret ident_fits s name nonce A1 A4 A5 A3 Hcl Hcr Hname Hnonce) as (fr & Efr & R & _).
    exists fr. split; [exact Efr|exact R].
Qed.
End Sh.
