(* BrokerBlame.v — C10 over whole histories: a connection is only ever closed by one of ITS OWN events.

   Frame locality (BrokerLocal.event_local, tick_local) is a statement about one event.  Here it is lifted to every
   history: (1) whatever OTHER connections do, for however long, leaves q untouched; (2) whenever q is found closing,
   the event at which it became closing was an event of q itself (its bytes, its EOF or loss, the verdict of its own
   credential lookup, its own back-pressure) or a clock tick while q itself was on a back-pressure deadline - never an
   event of a different connection. *)
From Coq Require Import ZArith List Bool Arith Lia.
From Coq Require Import Strings.Byte.
From HP Require Import Bytes Sha1 Wire Broker BrokerSpec BrokerLemmas BrokerInv BrokerStep BrokerTrace BrokerLocal BrokerProps BrokerProps2.
Import ListNotations.

Section Blame.
Variable bname : bytes. Variable store : ident -> lookup. Variable async_store : bool.
Notation run := (run bname store async_store).
Notation step := (step bname store async_store).
Notation Good := (Good (srow store) async_store).

(* e is "q's own" in state s *)
Definition own (q : nat) (s : state) (e : event) : Prop :=
  actor e = Some q \/ (e = Tick /\ timer (conns s q) <> None).

Lemma own_dec q s e : own q s e \/ ~ own q s e.
Proof.
  unfold own. destruct (actor e) as [p|] eqn:A.
  - destruct (Nat.eq_dec p q) as [->|N]; [left; left; reflexivity|].
    right. intros [H|[H _]]; [inversion H; contradiction|subst; discriminate].
  - destruct e; try discriminate. destruct (timer (conns s q)) eqn:T.
    + left. right. split; [reflexivity|discriminate].
    + right. intros [H|[_ H]]; [discriminate|contradiction].
Qed.

(* one event that is not q's own leaves q untouched, in every state satisfying the invariant *)
Lemma foreign_step q s e : Good s -> ~ own q s e -> untouched (conns s q) (conns (step s e) q).
Proof.
  intros G N. destruct (actor e) as [p|] eqn:A.
  - apply (event_local bname store async_store s e p q G A). intros ->. apply N. left. exact A.
  - destruct e; try discriminate. apply (tick_local bname store async_store); [exact G|].
    destruct (timer (conns s q)) eqn:T; [|reflexivity]. exfalso. apply N. right. split; [reflexivity|rewrite T; discriminate].
Qed.

(* a stretch of history in which nothing is q's own *)
Fixpoint foreign (q : nat) (s : state) (h : list event) : Prop :=
  match h with
  | [] => True
  | e :: t => ~ own q s e /\ foreign q (step s e) t
  end.

Lemma foreign_steps q h : forall s, Good s -> foreign q s h -> untouched (conns s q) (conns (fold_left step h s) q).
Proof.
  induction h as [|e h IH]; intros s G F; cbn; [apply untouched_refl|].
  cbn [foreign] in F. destruct F as [N F]. apply (untouched_trans _ (conns (step s e) q)); [apply foreign_step; [exact G|exact N]|].
  apply IH; [apply (step_good bname store async_store); exact G|exact F].
Qed.

(* (1) whatever the others do after h1, for however long: q is untouched *)
Theorem others_cannot_touch q h1 h2 : foreign q (run h1) h2 ->
  untouched (conns (run h1) q) (conns (run (h1 ++ h2)) q).
Proof.
  intros F. unfold Broker.run. rewrite fold_left_app. apply foreign_steps; [apply run_good|exact F].
Qed.

(* in particular a connection that is open, not closing and subscribed stays so, and receives only PUBLISH frames *)
Corollary others_cannot_close q h1 h2 : foreign q (run h1) h2 -> closing (conns (run h1) q) = false ->
  closing (conns (run (h1 ++ h2)) q) = false /\ copen (conns (run (h1 ++ h2)) q) = copen (conns (run h1) q) /\
  active (conns (run (h1 ++ h2)) q) = active (conns (run h1) q).
Proof. intros F C. destruct (others_cannot_touch q h1 h2 F) as [_ _ _ A]. apply A. exact C. Qed.

(* (2) blame: the event at which q became closing was q's own *)
Theorem closing_blame h q : closing (conns (run h) q) = true ->
  exists h1 e h2, h = h1 ++ e :: h2 /\ closing (conns (run h1) q) = false /\
                  closing (conns (run (h1 ++ [e])) q) = true /\ own q (run h1) e.
Proof.
  induction h as [|e h IH] using rev_ind; intros C.
  - discriminate.
  - destruct (closing (conns (run h) q)) eqn:Ch.
    + destruct (IH eq_refl) as (h1 & e1 & h2 & E & A & B & O). exists h1, e1, (h2 ++ [e]).
      split; [rewrite E, <- app_assoc; reflexivity|]. auto.
    + exists h, e, []. split; [reflexivity|]. split; [exact Ch|]. split; [exact C|].
      destruct (own_dec q (run h) e) as [O|N]; [exact O|]. exfalso.
      pose proof (foreign_step q (run h) e (run_good bname store async_store h) N) as [_ _ _ A].
      destruct (A Ch) as (X & _). unfold Broker.run in C. rewrite fold_left_app in C. cbn in C.
      unfold Broker.run in X. congruence.
Qed.
End Blame.

(* non-vacuity: connection 0 is connected and healthy; connection 1 connects, sends five zero bytes (an undersized
   frame), is dropped, the clock ticks, 1 is reported lost - none of that is 0's own, so 0 is untouched *)
Example foreign_example :
  let st := fun _ : ident => LNone in
  let h1 := [Connect 0 [x01; x02; x03; x04]] in
  let h2 := [Connect 1 [x05; x06; x07; x08]; Data 1 [x00; x00; x00; x00; x00]; Tick; Lost 1] in
  foreign [] st false 0 (run [] st false h1) h2 /\
  closing (conns (run [] st false h1) 0) = false /\
  closing (conns (run [] st false (h1 ++ h2)) 1) = true.
Proof.
  cbv zeta. split; [|split; vm_compute; reflexivity].
  cbn [foreign]. repeat split; intros [H|[H1 H2]]; try discriminate; apply H2; vm_compute; reflexivity.
Qed.
